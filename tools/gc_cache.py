#!/usr/bin/env python3
"""drop IR cache entries that do not belong to the current extractor / current tree (developer helper)"""
import os, sys, glob
V = os.path.dirname(os.path.dirname(os.path.abspath(__file__)))
sys.path.insert(0, V)
from sgcheck import ir
keep = set()
for u, args in ir.compdb().items():
    a, b = ir.cache_paths(u, args)
    keep.add(a); keep.add(b)
n = 0
for f in glob.glob(os.path.join(ir.CACHE, '*.ir')) + glob.glob(os.path.join(ir.CACHE, '*.deps')):
    if f not in keep:
        os.unlink(f); n += 1
for f in glob.glob(os.path.join(ir.CACHE, 'overlay_*.yaml')):
    os.unlink(f); n += 1
print('removed %d stale cache file(s)' % n)
