#!/usr/bin/env python3
"""Test the checkers both ways (DESIGN.md 2.6): every mutant in selftest/<id>/*.json and every kept seeded change (seeded/*/patch.diff
whose meta.json names the property in caught_by) must be reported, every neutral variant must stay silent.  Variants are analysed
through a clang VFS overlay: /repo is never modified.

usage: tools/selftest.py [ids...]      (SELFTEST_VERBOSE=1 prints the violations of each variant)"""
import glob
import os
import sys

V = os.path.dirname(os.path.dirname(os.path.abspath(__file__)))
sys.path.insert(0, V)
from sgcheck import variants  # noqa: E402


def main():
    ids = sys.argv[1:] or sorted(os.path.basename(d) for d in glob.glob(os.path.join(V, 'selftest', 'C*')))
    bad = total = 0
    for pid in ids:
        lines, ok, fails, na = variants.run_all(pid, verbose=bool(os.environ.get('SELFTEST_VERBOSE')))
        for l in lines:
            print(l.replace('N/A   ', 'BROKEN'))
        total += ok + len(fails) + len(na)
        bad += len(fails) + len(na)
    print('selftest: %d variant(s), %d failure(s)' % (total, bad))
    return 1 if bad else 0


if __name__ == '__main__':
    sys.exit(main())
