#!/usr/bin/env python3
"""Test the checkers both ways (DESIGN.md 2.6): every mutant in selftest/<id>/*.json must be reported (and the report must
name the mutated instance), every neutral variant must stay silent.  Mutants are single-file substitutions analysed through
a clang VFS overlay: /repo is never modified.

usage: tools/selftest.py [ids...]"""
import glob
import importlib
import json
import os
import shutil
import sys
import tempfile
import traceback

V = os.path.dirname(os.path.dirname(os.path.abspath(__file__)))
sys.path.insert(0, V)
from sgcheck import core, ir  # noqa: E402


def run_variant(pid, spec, tmpdir):
    mapping = {}
    for i, ed in enumerate(spec['edits']):
        path = os.path.join(ir.REPO, ed['file'])
        src = mapping.get(path, path)
        txt = open(src).read()
        for old, new in ed['subst']:
            if txt.count(old) != 1:
                return 'BROKEN', 'substitution source occurs %d times in %s: %r' % (txt.count(old), ed['file'], old[:60])
            txt = txt.replace(old, new)
        dst = os.path.join(tmpdir, '%d_%s' % (i, os.path.basename(path)))
        open(dst, 'w').write(txt)
        mapping[path] = dst
    ir.set_overlay(mapping)
    try:
        mod = importlib.import_module('sgcheck.props.' + pid)
        ctx = core.Ctx(pid, 'quick', 0)
        try:
            mod.run(ctx)
        except ir.AnalysisBroken as e:
            ctx.unrecognised('analysis', str(e))
        rc = core.finish(ctx, '', write=False)
        keys = sorted(set(r['key'] for r in ctx.new_violations))
        if os.environ.get('SELFTEST_VERBOSE'):
            for r in ctx.new_violations:
                print('   ', r['key'], '|', r['where'], '|', r['detail'][:400])
        return rc, keys, ctx.unrec
    finally:
        ir.set_overlay({})


def main():
    ids = sys.argv[1:] or sorted(os.path.basename(d) for d in glob.glob(os.path.join(V, 'selftest', 'C*')))
    bad = 0
    total = 0
    for pid in ids:
        for f in sorted(glob.glob(os.path.join(V, 'selftest', pid, '*.json'))):
            spec = json.load(open(f))
            total += 1
            tmpdir = tempfile.mkdtemp(prefix='sgselftest_')
            try:
                res = run_variant(pid, spec, tmpdir)
            except Exception:
                traceback.print_exc()
                res = ('BROKEN', 'exception')
            finally:
                shutil.rmtree(tmpdir, ignore_errors=True)
            name = '%s/%s' % (pid, os.path.basename(f)[:-5])
            if res[0] == 'BROKEN':
                print('BROKEN  %s: %s' % (name, res[1]))
                bad += 1
                continue
            rc, keys, unrec = res
            kind = spec.get('kind', 'mutant')
            if kind == 'mutant':
                exp = spec.get('expect_key', '')
                ok = rc == 1 and any(exp in k for k in keys)
                print('%s  %s (mutant): rc=%d keys=%s%s' % ('ok    ' if ok else 'MISSED', name, rc, keys[:4], '' if ok else ' expected key containing %r; unrecognised=%s' % (exp, unrec[:2])))
            else:
                ok = rc == 0
                print('%s  %s (%s): rc=%d keys=%s unrec=%s' % ('ok    ' if ok else 'ALARM ', name, kind, rc, keys[:4], unrec[:2]))
            if not ok:
                bad += 1
    print('selftest: %d variant(s), %d failure(s)' % (total, bad))
    return 1 if bad else 0


if __name__ == '__main__':
    sys.exit(main())
