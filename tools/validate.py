#!/usr/bin/env python3
import json, glob, sys
import jsonschema
jsonschema.validate(json.load(open('/verif/MANIFEST.json')), json.load(open('/root/.vp/MANIFEST.schema.json')))
es = json.load(open('/root/.vp/EVIDENCE.schema.json'))
n = 0
for f in sorted(glob.glob('/verif/evidence/*.json')):
    jsonschema.validate(json.load(open(f)), es); n += 1
m = json.load(open('/verif/MANIFEST.json'))
ids = set(c['property_id'] for c in m['checks']) | set(x['property_id'] for x in m['not_applicable'])
assert len(ids) == 50, len(ids)
print('manifest ok, %d evidence files ok' % n)
