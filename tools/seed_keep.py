#!/usr/bin/env python3
"""tools/seed_keep.py <id> <needs> <ran> <caught-by> : store a confirmed seeded change as /verif/seeded/<id>/ from /tmp/seed/<id>-out (developer helper)"""
import json, os, shutil, sys
pid, needs, ran, caught = sys.argv[1:5]
tag = sys.argv[5] if len(sys.argv) > 5 else ''
src = '/tmp/seed/%s-out' % (pid + tag)
dst = '/verif/seeded/%s' % (pid + tag)
os.makedirs(dst, exist_ok=True)
for n in os.listdir(src):
    p = os.path.join(src, n)
    if os.path.isfile(p) and os.path.getsize(p) < 400000 and open(p, "rb").read(4) != b"\x7fELF":
        shutil.copy(p, dst)
json.dump({'property': pid, 'breaks': open(os.path.join(src, 'NOTES.md')).read().split('\n\n')[0][:600] if os.path.exists(os.path.join(src, 'NOTES.md')) else '',
           'needs_to_manifest': needs, 'what_i_ran': ran, 'caught_by': caught}, open(os.path.join(dst, 'meta.json'), 'w'), indent=1)
print('kept', dst, os.listdir(dst))
