#!/usr/bin/env python3
"""tools/design_tables.py: regenerate §7 (findings) and §8 (seeded changes) of DESIGN.md from known_findings.json and seeded/*/meta.json"""
import json, os, re
V = os.path.dirname(os.path.dirname(os.path.abspath(__file__)))
kf = json.load(open(os.path.join(V, 'known_findings.json')))
out = []
out.append('## 7. Findings: genuine defects found by the checks\n')
out.append('Every report on the unchanged tree was triaged by a concrete replay against the real library (programs under `tools/triage/`) before\n'
           'being called a defect; reports that did not replay were engine errors and were corrected in the checker (noted in the per-property\n'
           'sections). A defect with a small, safe repair was fixed by an unguarded `fix:` commit in /repo (the check passes on the repaired tree\n'
           'and reports the violation again if it returns — each fix has a self-test mutant that re-introduces it); the others are listed in\n'
           '`known_findings.json` under `known`, keyed by rule|function|construct, and printed as `KNOWN-FINDING` lines.\n')
out.append('Observations outside the 50 properties, made while replaying and left alone: `MPI_Type_dup` of a vector multiplies the stride by the extent\n'
           'twice and of an indexed type reinterprets byte displacements as `int` indices (`Type_Vector::clone`, `Type_Indexed::clone`;\n'
           'tools/triage/c30_vector_count2_resized.c shows the first) - `MPI_Type_dup` is not among the constructors C30 quantifies over; the\n'
           '`tracing/vm` option aborts at platform load (`on_vm_creation` runs for every host) - not among the options C47 quantifies over;\n'
           '`Topo_Cart::shift` tests `ndims_ < direction` where `<=` is meant (C33 is not applicable); under `model-check/reduction:odpor` a program\n'
           'drawing MC_random values makes the checker report a spurious `CRASH IN THE PROGRAM` whose path `2;1` replays cleanly, and dpor/sdpor/odpor\n'
           'miss an assertion failure that reduction `none` finds after a `wait_any` (seeded/C41/demo.cpp and run.sh, seen by the seeding agent on the\n'
           'unchanged tree): these are exploration-algorithm matters (C38, C40: not applicable) that no rule of C41 - the grammar of the path - can see;\n'
           '`System::expand()` of an *existing* variable onto a constraint that is already in the modified set does not flag the other constraints of that variable\n'
           '(tools/triage/c17_observation_late_expand.cpp: v1 keeps 5 where a full solve gives 8) - the histories C17 quantifies over add an activity with its constraints in one\n'
           'go, where every order of the expands marks all of them, so this is left as an observation; the same repair as the C17 fix (flag every constraint of the variable) would cover it.\n')
out.append('### 7.1 Repaired (`fixed:` entries of known_findings.json)\n')
out.append('| property | commit | what failed |')
out.append('|---|---|---|')
for f in kf['fixed']:
    m = re.match(r'fixed: property=(\S+) (\S+) (.*)', f, re.S)
    if m:
        out.append('| %s | `%s` | %s |' % (m.group(1), m.group(2), m.group(3).replace('\n', ' ').replace('|', '\\|')))
out.append('\n### 7.2 Recorded, not repaired (`known`)\n')
out.append('| property | key | what fails, and why it is not repaired |')
out.append('|---|---|---|')
for k in kf['known']:
    out.append('| %s | `%s` | %s |' % (k['property'], k['key'].replace('|', '\\|'), k['what'].replace('\n', ' ').replace('|', '\\|')))
out.append('\n## 8. Seeded changes: which checks catch which\n')
out.append('Each change below was written by a fresh sub-agent that was given only the text of one property and a scratch worktree of /repo (nothing\n'
           'from /verif), asked for a realistic regression that breaks the property while the project still compiles and the 104 pinned tests still\n'
           'pass, with a demonstration. A change is kept (`seeded/<id>/`: patch.diff, the demonstration, meta.json) only after I confirmed the\n'
           'demonstration on the modified worktree and on /repo. To test one: `git -C /repo apply seeded/<id>/patch.diff`, run the checks,\n'
           '`git -C /repo checkout -- .`. Where the checks were silent at first, the rule that was missing was added (never a rule keyed on the\n'
           'patch text: each added rule has neutral self-test variants) and the miss is recorded here. After a first round (one seed per claimed\n'
           'property) a second round was run on some properties with fresh agents (`<id>b`): it tests the strengthened checks with another breakage.\n')
out.append('| seed | needs, to manifest | caught by | first run |')
out.append('|---|---|---|---|')
sd = os.path.join(V, 'seeded')
for d in sorted(os.listdir(sd)) if os.path.isdir(sd) else []:
    mp = os.path.join(sd, d, 'meta.json')
    if not os.path.exists(mp):
        continue
    m = json.load(open(mp))
    first = 'missed, rule added' if ('silent at first' in m['what_i_ran'] or 'added' in m['caught_by'] or 'extended' in m['caught_by'] or 'refined' in m['caught_by']) else 'caught'
    if m['caught_by'].lower().startswith('not caught'):
        first = 'not caught'
    out.append('| %s | %s | %s | %s |' % (d, m['needs_to_manifest'].replace('|', '\\|'), m['caught_by'].replace('|', '\\|'), first))
out.append('\nDetails (what was run and observed) are in each `seeded/<id>/meta.json`.\n')
nmiss = sum(1 for l in out if l.endswith('| missed, rule added |'))
ncaught = sum(1 for l in out if l.endswith('| caught |'))
out.append('Of the %d kept seeds, %d were caught by the checks as they stood when the seed arrived and %d were missed and led to a new rule. Duplicates of an earlier seed '
           '(same change found again by another agent: C16 x3 and C17b = C17, C24b = C25, C36b = C36, C37b = C37, C21b = C19, C25b = C25) were discarded after checking that they are reported.\n' % (nmiss + ncaught, ncaught, nmiss))
out.append('### 8.1 Hand-mutation probes\n')
out.append('The seeds test one breakage per agent run. In between, the anchored functions of a property were mutated by hand, ten or so mutants at a time '
           '(`tools/mut_probe.py <spec.json> <ids>`: each edit is analysed through the VFS overlay, /repo is not touched), and every silent mutant was read: a mutant that '
           'changes behaviour got a rule and became a self-test variant; a mutant that turned out to preserve behaviour became a *neutral* variant, which the checks must '
           'keep silent on. Probed so far: C01 C02 C03 C04 C05 C06 C07 C08 C09 C10 C11 C12 C13 C14 C16 C17 C18 C19 C20 C21 C23 C24 C25 C27 C28 C30 C31 C32 C35 C36 C37 C39 C41 C43 C45 C46 C47 C48 C49 (per-property notes in §3). The largest gaps were '
           'C16 (13 of 14 silent: the check only looked at the extremum updates), C20 (11 of 14), C24 (8 of 8 on what add_route stores for a symmetrical route); the '
           'synchronisation objects C04-C09 and C12 had 1 to 4 gaps each. Two engine-level weaknesses also surfaced: a local reference to a queue was reported as an escape '
           '(now resolved by the normaliser), and `erase(first, last)` was counted like `erase(it)`. `tools/neutral_shift.py` re-decides every check with each loaded file '
           'preceded by comment lines: no rule and no known-finding key depends on a line number.\n')
p = os.path.join(V, 'DESIGN.md')
s = open(p).read()
i = s.find('\n## 7. Findings')
if i >= 0:
    s = s[:i]
s = s.rstrip('\n') + '\n\n' + '-' * 117 + '\n\n' + '\n'.join(out) + '\n'
s = re.sub(r'(\n-{100,}\n)+\n(-{100,}\n)', r'\n\2', s)
open(p, 'w').write(s)
print('DESIGN.md: %d fixed, %d known, %d seeds' % (len(kf['fixed']), len(kf['known']), len([d for d in os.listdir(sd)]) if os.path.isdir(sd) else 0))
