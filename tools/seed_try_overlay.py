#!/usr/bin/env python3
"""tools/seed_try_overlay.py <patch> <ids...>: decide the checks on /repo + patch through the VFS overlay (does not touch /repo).  (developer helper)"""
import os, sys, tempfile, shutil
V = os.path.dirname(os.path.dirname(os.path.abspath(__file__)))
sys.path.insert(0, V)
from sgcheck import variants
patch = sys.argv[1]
for pid in sys.argv[2:]:
    t = tempfile.mkdtemp(prefix='sgseed_')
    try:
        m = variants.patch_overlay(patch, t)
        if isinstance(m, str):
            print(pid, 'N/A', m)
            continue
        rc, keys, unrec, viol = variants.analyse_overlay(pid, m)
        print('== %s rc=%s' % (pid, rc))
        for r in viol[:8]:
            print('   %s | %s | %s' % (r['key'], r['where'], r['detail'][:260]))
        for u in unrec[:5]:
            print('   UNRECOGNISED', u[:200])
    finally:
        shutil.rmtree(t, ignore_errors=True)
