#!/usr/bin/env python3
"""tools/dumpfn.py <unit rel path>[,<unit>...] <qualified-name substring> [--raw]: print the CFG of matching functions in normal form"""
import json
import os
import sys
V = os.path.dirname(os.path.dirname(os.path.abspath(__file__)))
sys.path.insert(0, V)
from sgcheck import ir, cfg, ex  # noqa: E402

units = [os.path.join(ir.REPO, u) for u in sys.argv[1].split(',')]
pat = sys.argv[2]
raw = '--raw' in sys.argv
P = ir.load_units(units)
for key, fn in P.fns.items():
    if pat not in key:
        continue
    print('==', key, fn['file'], fn['line'], 'params', [(p['n'], fn.tstr(p['t'])) for p in fn['params']])
    if raw:
        print(json.dumps({k: v for k, v in fn.items()}, indent=None)[:20000])
        continue
    try:
        v = cfg.FnView(fn)
    except Exception as e:
        print('  no cfg', e)
        continue
    for b in v.blocks:
        t = b.get('t')
        print(' B%d%s%s -> %s %s' % (b['id'], ' [entry]' if b['id'] == fn['entry'] else '', ' noreturn' if b.get('noreturn') else '', b.get('s'), ('label=%s' % b.get('label')) if b.get('label') else ''))
        for eid in b.get('e', []):
            for e in v.events_of(eid):
                print('     e%d l%s: %r' % (eid, e.line, e))
        if t:
            c = v.cond_atom(b['id'])
            print('     T %s m=%s %s' % (t.get('k'), t.get('m'), (('%s%s' % ('' if c[1] else '!', ex.pretty(c[0]))) if c else '')))
for q in P.globals:
    if pat in q:
        g = P.globals[q]
        print('== global', q, json.dumps({k: v for k, v in g.items() if k != 'elems'})[:3000])
