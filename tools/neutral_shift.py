#!/usr/bin/env python3
"""tools/neutral_shift.py [ids...]: developer helper.  For each check, overlay every unit it loaded on its last run (evidence/<id>.json coverage.units, at most
MAXU of them) and the headers next to them with the same file preceded by a few comment lines, and decide the check again: the verdict must be the one of the
unchanged tree (exit 0, the same known findings).  A rule or a known-finding key that depends on a line number shows up here."""
import glob, json, os, sys, tempfile, shutil
V = os.path.dirname(os.path.dirname(os.path.abspath(__file__)))
sys.path.insert(0, V)
from sgcheck import variants, ir   # noqa: E402
MAXU = int(os.environ.get('MAXU', '40'))
ids = sys.argv[1:] or [c['property_id'] for c in json.load(open(os.path.join(V, 'MANIFEST.json')))['checks']]
bad = 0
for pid in ids:
    ev = json.load(open(os.path.join(V, 'evidence', pid + '.json')))
    units = (ev['coverage'].get('units') or [])[:MAXU]
    t = tempfile.mkdtemp(prefix='sgshift_')
    try:
        mapping = {}
        files = set()
        for u in units:
            p = os.path.join(ir.REPO, u)
            files.add(p)
            base = os.path.splitext(p)[0]
            for h in (base + '.hpp', base + '.h'):
                if os.path.exists(h):
                    files.add(h)
            inc = p.replace('/src/', '/include/simgrid/').rsplit('.', 1)[0] + '.hpp'
            if os.path.exists(inc):
                files.add(inc)
        for i, p in enumerate(sorted(files)):
            if not os.path.exists(p):
                continue
            dst = os.path.join(t, '%d_%s' % (i, os.path.basename(p)))
            open(dst, 'w').write('// shifted\n// shifted\n// shifted\n' + open(p).read())
            mapping[p] = dst
        rc, keys, unrec, viol = variants.analyse_overlay(pid, mapping)
        ok = rc == 0
        bad += 0 if ok else 1
        print('%s %s rc=%s files=%d %s %s' % ('ok   ' if ok else 'ALARM', pid, rc, len(mapping), keys[:3], unrec[:2]))
    finally:
        shutil.rmtree(t, ignore_errors=True)
print('neutral_shift: %d check(s), %d not silent' % (len(ids), bad))
