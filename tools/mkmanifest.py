#!/usr/bin/env python3
"""regenerate /verif/MANIFEST.json from sgcheck/registry.py"""
import json, os, sys
sys.path.insert(0, os.path.dirname(os.path.dirname(os.path.abspath(__file__))))
from sgcheck import registry
V = os.path.dirname(os.path.dirname(os.path.abspath(__file__)))
ids = [json.loads(l)['id'] for l in open(os.path.join(V, 'properties.jsonl'))]
checks = []
na = []
for i in ids:
    if i in registry.CLAIMED:
        tech, text, note, ref = registry.CLAIMED[i]
        checks.append({
            'property_id': i,
            'quick_cmd': './check %s --tier quick' % i,
            'thorough_cmd': './check %s --tier thorough' % i,
            'evidence_file': 'evidence/%s.json' % i,
            'replay_cmd_template': './check %s --replay {path}' % i,
            'engine': 'sgx+sgcheck',
            'level_claimed': {'category': 'other', 'text': text, 'design_ref': ref},
            'level_note': note,
            'technique': 'static analysis: ' + tech,
        })
    else:
        na.append({'property_id': i, 'reason': registry.NOT_APPLICABLE.get(i, registry.NOT_YET)})
m = {
    'version': 1,
    'setup_cmd': './setup.sh',
    'hooks': {'guard': 'SIMGRID_VERIF', 'enable': 'none needed: the checks parse /repo sources with the real build flags; no hook is compiled in',
              'baseline_off_cmd': 'ctest --test-dir /repo/_build -j8 --timeout 900', 'source_commits': [], 'add_only': True},
    'engines': [{'name': 'sgx+sgcheck', 'path': 'sgx/sgx.cc, sgcheck/', 'serves_properties': sorted(registry.CLAIMED),
                 'kind_free_text': 'libTooling extractor (clang 14 AST + CFG + constant evaluator) emitting a per-function IR; '
                                   'Python rule engine deciding structural rules over CFG paths, call graph and extracted tables. '
                                   'Nothing is executed.'}],
    'checks': checks,
    'not_applicable': na,
    'notes': 'exit 0 holds / 1 VIOLATION / 2 analysis broken (anchor vanished or idiom not recognised). See DESIGN.md.',
}
json.dump(m, open(os.path.join(V, 'MANIFEST.json'), 'w'), indent=1)
print('claimed %d, not claimed %d' % (len(checks), len(na)))
