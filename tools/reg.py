#!/usr/bin/env python3
"""tools/reg.py <id> <technique> <level text> <level note>: add/replace a claimed property in sgcheck/registry.py and regenerate MANIFEST.json"""
import sys, os, re, subprocess
V = os.path.dirname(os.path.dirname(os.path.abspath(__file__)))
pid, tech, text, note = sys.argv[1:5]
p = os.path.join(V, 'sgcheck', 'registry.py')
s = open(p).read()
entry = "    %r: (%r,\n            %r,\n            %r,\n            'DESIGN.md §3 %s'),\n" % (pid, tech, text, note, pid)
s = re.sub(r"    '%s': \(.*?'DESIGN.md §3 %s'\),\n" % (pid, pid), '', s, flags=re.S)
s = s.replace("}\n\nNOT_APPLICABLE", entry + "}\n\nNOT_APPLICABLE", 1)
open(p, 'w').write(s)
subprocess.check_call([sys.executable, os.path.join(V, 'tools', 'mkmanifest.py')])
