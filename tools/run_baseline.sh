#!/bin/sh
# Build /repo/_build and run the pinned suite; report baseline tests that do not pass. (Developer helper, not a check.)
cd /repo/_build && ninja > /tmp/ninja_baseline.log 2>&1 || { echo "BUILD FAILED"; tail -20 /tmp/ninja_baseline.log; exit 1; }
ctest -j8 --timeout 900 > /tmp/ctest_baseline.log 2>&1
python3 - <<'PY'
import json
base=set(x.split('::')[0] for x in json.load(open('/root/.vp/BASELINE.json'))['stable_pass'])
txt=open('/repo/_build/Testing/Temporary/LastTestsFailed.log').read()
failed=set(l.split(':',1)[1].strip() for l in txt.splitlines() if ':' in l)
bad=sorted(base & failed)
print('baseline tests: %d, failing now: %d %s' % (len(base), len(bad), bad))
PY
