#!/bin/sh
# Build /repo/_build and run the pinned suite (the 104 baseline tests only); report baseline tests that do not pass.
# Developer helper, not a check.
cd /repo/_build && ninja > /tmp/ninja_baseline.log 2>&1 || { echo "BUILD FAILED"; tail -20 /tmp/ninja_baseline.log; exit 1; }
RE=$(python3 -c "
import json,re
base=sorted(set(x.split('::')[0] for x in json.load(open('/root/.vp/BASELINE.json'))['stable_pass']))
print('^(' + '|'.join(re.escape(b) for b in base) + ')\$')")
rm -f /repo/_build/Testing/Temporary/LastTestsFailed.log
ctest -j8 --timeout 900 -R "$RE" > /tmp/ctest_baseline.log 2>&1
python3 - <<'PY'
import json,os
base=set(x.split('::')[0] for x in json.load(open('/root/.vp/BASELINE.json'))['stable_pass'])
p='/repo/_build/Testing/Temporary/LastTestsFailed.log'
txt=open(p).read() if os.path.exists(p) else ''
failed=set(l.split(':',1)[1].strip() for l in txt.splitlines() if ':' in l)
bad=sorted(base & failed)
import re
ran=re.findall(r'tests passed, (\d+) tests failed out of (\d+)', open('/tmp/ctest_baseline.log').read())
print('baseline tests: %d, ran %s, failing now: %d %s' % (len(base), ran, len(bad), bad))
PY
