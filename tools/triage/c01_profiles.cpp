#include <simgrid/s4u.hpp>
#include <simgrid/kernel/ProfileBuilder.hpp>
XBT_LOG_NEW_DEFAULT_CATEGORY(t, "t");
namespace sg4 = simgrid::s4u;
int main(int argc, char** argv){
  sg4::Engine e(&argc, argv);
  auto* zone = e.get_netzone_root()->add_netzone_full("z");
  std::vector<sg4::Host*> hs;
  for (int i = 0; i < 4; i++) {
    auto* h = zone->add_host("h" + std::to_string(i), 1e9);
    h->set_speed_profile(simgrid::kernel::profile::ProfileBuilder::from_string("p" + std::to_string(i), "1 0.5\n2 1.0\n", 10));
    hs.push_back(h);
  }
  zone->seal();
  sg4::Host::on_speed_change_cb([](sg4::Host const& h){ XBT_INFO("speed of %s changed to %g", h.get_cname(), h.get_speed()); });
  e.add_actor("main", hs[0], [](){ sg4::this_actor::sleep_for(3); });
  e.run();
}
