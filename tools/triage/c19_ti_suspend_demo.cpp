/* C19 demo: completion dates of activities must not depend on the update algorithm
 * (cpu/optim, network/optim) nor on maxmin-selective-update.
 *
 * Workload (platform built in code, no XML):
 *   c1 : 1e7 bytes  snd1 -> rcv1 over link L1 (1e6 B/s, 1ms), suspended at t=3, resumed at t=7
 *   c3 : 1.2e7 bytes snd1 -> rcv1 over the same link L1 (shares the bandwidth with c1), never suspended
 *   c2 : 1e7 bytes  snd2 -> rcv2 over link L2, suspended and resumed at the very same date t=3 (0-length suspension)
 *   x1 : 1e10 flops on a 1Gf host, suspended at t=3, resumed at t=7 (control: CPU side)
 * Every finish date is read with Activity::get_finish_time() and printed as "RESULT <name> <date>".
 */
#include <simgrid/s4u.hpp>
#include <cstdio>
#include <vector>
namespace sg4 = simgrid::s4u;

int main(int argc, char** argv)
{
  sg4::Engine e(&argc, argv);
  auto* zone = e.get_netzone_root();
  auto* ctl  = zone->add_host("ctl", 1e9);
  auto* snd1 = zone->add_host("snd1", 1e9);
  auto* rcv1 = zone->add_host("rcv1", 1e9);
  auto* snd2 = zone->add_host("snd2", 1e9);
  auto* rcv2 = zone->add_host("rcv2", 1e9);
  auto* cpu  = zone->add_host("cpu", 1e9);
  const auto* l1 = zone->add_link("L1", 1e6)->set_latency(1e-3)->seal();
  const auto* l2 = zone->add_link("L2", 1e6)->set_latency(1e-3)->seal();
  zone->add_route(snd1, rcv1, {l1});
  zone->add_route(snd2, rcv2, {l2});
  zone->seal();

  ctl->add_actor("controller", [&]() {
    sg4::CommPtr c1 = sg4::Comm::sendto_async(snd1, rcv1, 1e7);
    sg4::CommPtr c3 = sg4::Comm::sendto_async(snd1, rcv1, 1.2e7);
    sg4::CommPtr c2 = sg4::Comm::sendto_async(snd2, rcv2, 1e7);
    sg4::ExecPtr x1 = sg4::Exec::init()->set_flops_amount(1e10)->set_host(cpu);
    x1->start();

    sg4::this_actor::sleep_for(3);
    c1->suspend();
    x1->suspend();
    c2->suspend();
    c2->resume(); // suspended for 0 seconds
    sg4::this_actor::sleep_for(4);
    c1->resume();
    x1->resume();

    c1->wait();
    c2->wait();
    c3->wait();
    x1->wait();
    std::printf("RESULT c1_comm_suspended_3_to_7 %.6f\n", c1->get_finish_time());
    std::printf("RESULT c3_comm_sharing_link_with_c1 %.6f\n", c3->get_finish_time());
    std::printf("RESULT c2_comm_suspended_0s %.6f\n", c2->get_finish_time());
    std::printf("RESULT x1_exec_suspended_3_to_7 %.6f\n", x1->get_finish_time());
  });

  e.run();
  return 0;
}
