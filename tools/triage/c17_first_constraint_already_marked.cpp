/* C17 replay: two modifications between two solves.  v0 uses {c0, c1} and is suspended; v1 uses {c1}.
 *   1. the capacity of c0 changes          -> c0 enters the modified set (v0 is disabled: the walk does not reach c1)
 *   2. v0 is resumed                        -> update_modified_cnst_set_from_variable(v0) looks at cnsts_[0] = c0 only; c0 is already in the
 *                                              set, so nothing is walked and c1 is never marked
 *   solve                                   -> c1 is not recomputed: v1 keeps rate 10 although v0 now shares c1 (a fresh system gives 5 / 5)
 * Build: g++ -std=gnu++20 -I/repo -I/repo/include -I/repo/_build -I/repo/_build/include c17_first_constraint_already_marked.cpp \
 *        -L/repo/_build/lib -lsimgrid -Wl,-rpath,/repo/_build/lib */
#include "src/kernel/lmm/maxmin.hpp"
#include "simgrid/kernel/resource/Action.hpp"
#include "simgrid/kernel/resource/Model.hpp"
#include <cstdio>
namespace lmm = simgrid::kernel::lmm;
namespace res = simgrid::kernel::resource;
class DummyAction : public res::Action {
public:
  explicit DummyAction(res::Model* m) : res::Action(m, 1.0, false) {}
  void update_remains_lazy(double) override {}
};
static void scenario(bool selective, double* r0, double* r1, double* load1)
{
  res::Model model("demo");
  lmm::MaxMin sys(selective);
  auto* c0 = sys.constraint_new(nullptr, 10);
  auto* c1 = sys.constraint_new(nullptr, 10);
  DummyAction a0(&model), a1(&model);
  auto* v0 = sys.variable_new(&a0, 1.0, -1.0, 2);
  sys.expand(c0, v0, 1.0);
  sys.expand(c1, v0, 1.0);
  auto* v1 = sys.variable_new(&a1, 1.0, -1.0, 1);
  sys.expand(c1, v1, 1.0);
  sys.update_variable_penalty(v0, 0.0); // suspend v0
  sys.solve();
  sys.update_constraint_bound(c0, 20);  // modification 1
  sys.update_variable_penalty(v0, 1.0); // modification 2: resume v0
  sys.solve();
  *r0    = v0->get_value();
  *r1    = v1->get_value();
  *load1 = c1->get_load();
  sys.variable_free(v0);
  sys.variable_free(v1);
  if (selective)
    sys.get_modified_action_set()->clear();
}
int main()
{
  double a0, a1, l1, b0, b1, m1;
  scenario(true, &a0, &a1, &l1);
  scenario(false, &b0, &b1, &m1);
  printf("selective update : v0=%g v1=%g, load of c1 = %g (capacity 10)\n", a0, a1, l1);
  printf("full solve       : v0=%g v1=%g, load of c1 = %g (capacity 10)\n", b0, b1, m1);
  bool ok = a0 == b0 && a1 == b1;
  printf("%s\n", ok ? "C17 holds on this history" : "C17 VIOLATED: selective update differs from the full solve");
  return ok ? 0 : 1;
}
