#include <mpi.h>
#include <stdio.h>
int main(int argc, char** argv) {
  MPI_Init(&argc, &argv);
  int pad_before[1] = {1000};
  int sizes[1] = {8}, subsizes[1] = {3}, starts[1] = {2};
  int pad_after[1] = {1000};
  MPI_Datatype sub;
  for (int order = 0; order < 2; order++) {
    MPI_Type_create_subarray(1, sizes, subsizes, starts, order ? MPI_ORDER_FORTRAN : MPI_ORDER_C, MPI_INT, &sub);
    MPI_Type_commit(&sub);
    MPI_Aint lb, ext; int sz;
    MPI_Type_get_extent(sub, &lb, &ext); MPI_Type_size(sub, &sz);
    printf("1-D subarray 8 of int, sub 3 at 2, order %s: size=%d lb=%ld extent=%ld   (MPI: size=12 lb=0 extent=32)\n", order ? "F" : "C", sz, (long)lb, (long)ext);
    int src[8], dst[8];
    for (int i = 0; i < 8; i++) { src[i] = i; dst[i] = -1; }
    MPI_Sendrecv(src, 1, sub, 0, 0, dst, 1, sub, 0, 0, MPI_COMM_SELF, MPI_STATUS_IGNORE);
    printf("dst:"); for (int i = 0; i < 8; i++) printf(" %d", dst[i]); printf("   (MPI: -1 -1 2 3 4 -1 -1 -1)\n");
  }
  (void)pad_before; (void)pad_after;
  MPI_Finalize();
  return 0;
}
