#include <mpi.h>
#include <stdio.h>
#include <string.h>
static void show(const char* what, MPI_Datatype t, int count) {
  int in[64], out[64]; for (int i = 0; i < 64; i++) { in[i] = i; out[i] = -1; }
  int pos = 0; char packed[1024];
  MPI_Pack(in, count, t, packed, sizeof packed, &pos, MPI_COMM_SELF);
  int n = pos / (int)sizeof(int);
  printf("%-44s packs %d ints:", what, n);
  for (int i = 0; i < n; i++) printf(" %d", ((int*)packed)[i]);
  printf("\n");
}
int main(int argc, char** argv) {
  MPI_Init(&argc, &argv);
  MPI_Datatype v, d, r, vr;
  MPI_Type_vector(3, 1, 2, MPI_INT, &v); MPI_Type_commit(&v);
  MPI_Type_dup(v, &d); MPI_Type_commit(&d);
  show("vector(3,1,2,INT) x1 (expect 0 2 4)", v, 1);
  show("dup of it x1 (expect 0 2 4)", d, 1);
  show("vector(3,1,2,INT) x2 (expect 0 2 4 5 7 9)", v, 2);
  MPI_Type_create_resized(MPI_INT, 0, 8, &r); MPI_Type_commit(&r);
  MPI_Type_vector(2, 1, 2, r, &vr); MPI_Type_commit(&vr);
  show("vector(2,1,2,resized(INT,0,8)) x1 (expect 0 4)", vr, 1);
  show("same x2 (expect 0 4 6 10)", vr, 2);
  MPI_Finalize();
  return 0;
}
