#include <simgrid/s4u.hpp>
XBT_LOG_NEW_DEFAULT_CATEGORY(t, "t");
namespace sg4 = simgrid::s4u;
static void receiver(std::string mb){
  try { sg4::Mailbox::by_name(mb)->get<int>(); XBT_INFO("got it"); }
  catch (const simgrid::Exception& e) { XBT_INFO("my communication failed"); }
}
static void sender(){
  static int v = 1;
  std::vector<sg4::CommPtr> comms;
  for (int i = 0; i < 4; i++) comms.push_back(sg4::Mailbox::by_name("mb" + std::to_string(i))->put_async(&v, 1e9));
  sg4::this_actor::sleep_for(100);
}
int main(int argc, char** argv){
  sg4::Engine e(&argc, argv);
  e.load_platform(argv[1]);
  auto hosts = e.get_all_hosts();
  auto s = e.add_actor("sender", hosts[0], sender);
  for (int i = 0; i < 4; i++) e.add_actor("recv" + std::to_string(i), hosts[1 + i % (hosts.size()-1)], receiver, "mb" + std::to_string(i));
  e.add_actor("killer", hosts[0], [s](){ sg4::this_actor::sleep_for(1); s->kill(); });
  e.run();
}
