#include <mpi.h>
#include <stdio.h>
static void run(const char* name, MPI_Datatype t, const char* expect) {
  MPI_Aint lb, ext; MPI_Type_get_extent(t, &lb, &ext);
  int src[24], dst[24];
  for (int i = 0; i < 24; i++) { src[i] = i; dst[i] = -1; }
  MPI_Sendrecv(src, 2, t, 0, 0, dst, 2, t, 0, 0, MPI_COMM_SELF, MPI_STATUS_IGNORE);
  printf("%s lb=%ld extent=%ld; count=2 writes positions:", name, (long)lb, (long)ext);
  for (int i = 0; i < 24; i++) if (dst[i] != -1) printf(" %d%s", i, dst[i] == i ? "" : "(!value)");
  printf("   (MPI: %s)\n", expect);
}
int main(int argc, char** argv) {
  MPI_Init(&argc, &argv);
  MPI_Datatype idx, hidx, st, rev;
  int bl[2] = {1, 1}; int d[2] = {1, 3}; MPI_Aint hd[2] = {4, 12}; MPI_Aint rd[2] = {8, 0};
  MPI_Datatype ts[2] = {MPI_INT, MPI_INT};
  MPI_Type_indexed(2, bl, d, MPI_INT, &idx); MPI_Type_commit(&idx);
  MPI_Type_create_hindexed(2, bl, hd, MPI_INT, &hidx); MPI_Type_commit(&hidx);
  MPI_Type_create_struct(2, bl, hd, ts, &st); MPI_Type_commit(&st);
  MPI_Type_create_hindexed(2, bl, rd, MPI_INT, &rev); MPI_Type_commit(&rev);
  run("indexed(2,{1,1},{1,3},int):      ", idx, "1 3 4 6");
  run("hindexed(2,{1,1},{4,12},int):    ", hidx, "1 3 4 6");
  run("struct(2,{1,1},{4,12},{int,int}):", st, "1 3 4 6");
  run("hindexed(2,{1,1},{8,0},int):     ", rev, "0 2 3 5");
  MPI_Finalize();
  return 0;
}
