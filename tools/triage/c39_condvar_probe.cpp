#include <simgrid/s4u.hpp>
#include <simgrid/modelchecker.h>
namespace sg4 = simgrid::s4u;
XBT_LOG_NEW_DEFAULT_CATEGORY(demo, "demo");
static int woken = 0;      // 1 = A, 2 = B
int main(int argc, char** argv) {
  sg4::Engine e(&argc, argv);
  auto* zone = e.get_netzone_root()->add_netzone_full("z");
  auto* h = zone->add_host("h", 1e9);
  zone->seal();
  auto cv = sg4::ConditionVariable::create();
  auto m1 = sg4::Mutex::create();
  auto m2 = sg4::Mutex::create();
  auto ready = sg4::Semaphore::create(0);
  h->add_actor("A", [&]() { m1->lock(); ready->release(); cv->wait(m1); if (woken == 0) woken = 1; m1->unlock(); });
  h->add_actor("B", [&]() { m2->lock(); ready->release(); cv->wait(m2); if (woken == 0) woken = 2; m2->unlock(); });
  h->add_actor("N", [&]() {
    ready->acquire(); ready->acquire();
    sg4::this_actor::sleep_for(1);       // both are (about to be) waiting
    cv->notify_one();
    sg4::this_actor::sleep_for(1);
    MC_assert(woken != 2);               // fails iff B was queued first
    cv->notify_one();
  });
  e.run();
  return 0;
}
