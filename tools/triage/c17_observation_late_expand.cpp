#include "src/kernel/lmm/maxmin.hpp"
#include "simgrid/kernel/resource/Action.hpp"
#include "simgrid/kernel/resource/Model.hpp"
#include <cstdio>
namespace lmm = simgrid::kernel::lmm;
namespace res = simgrid::kernel::resource;
class DummyAction : public res::Action {
public:
  explicit DummyAction(res::Model* m) : res::Action(m, 1.0, false) {}
  void update_remains_lazy(double) override {}
};
static void scenario(bool selective, double* r0, double* r1)
{
  res::Model model("demo");
  lmm::MaxMin sys(selective);
  auto* c0 = sys.constraint_new(nullptr, 4);
  auto* c1 = sys.constraint_new(nullptr, 10);
  DummyAction a0(&model), a1(&model);
  auto* v0 = sys.variable_new(&a0, 1.0, -1.0, 2);
  sys.expand(c1, v0, 1.0);
  auto* v1 = sys.variable_new(&a1, 1.0, -1.0, 1);
  sys.expand(c1, v1, 1.0);
  sys.solve();                          // v0 = v1 = 5
  sys.update_constraint_bound(c0, 2);   // modification 1: c0 enters the modified set (no variable on it yet)
  sys.expand(c0, v0, 1.0);              // modification 2: v0 now also uses c0 (capacity 2)
  sys.solve();                          // full: v0 = 2, v1 = 8
  *r0 = v0->get_value();
  *r1 = v1->get_value();
  sys.variable_free(v0);
  sys.variable_free(v1);
  if (selective)
    sys.get_modified_action_set()->clear();
}
int main()
{
  double a0, a1, b0, b1;
  scenario(true, &a0, &a1);
  scenario(false, &b0, &b1);
  printf("selective: v0=%g v1=%g\nfull     : v0=%g v1=%g\n", a0, a1, b0, b1);
  return (a0 == b0 && a1 == b1) ? 0 : 1;
}
