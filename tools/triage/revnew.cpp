// LD_PRELOAD shim: operator new hands out DEcreasing addresses (bump allocator from the top of a big arena); delete leaks.
// Same program, same inputs, only the memory layout of heap objects differs.
#include <cstdlib>
#include <cstddef>
#include <new>
#include <sys/mman.h>
static char* base = nullptr; static char* top = nullptr;
static const size_t ARENA = 1UL << 32;
static void init(){ base = (char*)mmap(nullptr, ARENA, PROT_READ|PROT_WRITE, MAP_PRIVATE|MAP_ANONYMOUS|MAP_NORESERVE, -1, 0); top = base + ARENA; }
static void* take(size_t n, size_t al){ if(!base) init(); if (n==0) n=1; size_t a = al < 16 ? 16 : al; top -= n; top = (char*)((size_t)top & ~(a-1)); if (top < base) abort(); return top; }
static bool mine(void* p){ return base && (char*)p >= base && (char*)p < base + ARENA; }
void* operator new(size_t n){ return take(n, 16); }
void* operator new[](size_t n){ return take(n, 16); }
void* operator new(size_t n, std::align_val_t a){ return take(n, (size_t)a); }
void* operator new[](size_t n, std::align_val_t a){ return take(n, (size_t)a); }
void* operator new(size_t n, const std::nothrow_t&) noexcept { return take(n, 16); }
void* operator new[](size_t n, const std::nothrow_t&) noexcept { return take(n, 16); }
void operator delete(void* p) noexcept { if (p && !mine(p)) free(p); }
void operator delete[](void* p) noexcept { if (p && !mine(p)) free(p); }
void operator delete(void* p, size_t) noexcept { if (p && !mine(p)) free(p); }
void operator delete[](void* p, size_t) noexcept { if (p && !mine(p)) free(p); }
void operator delete(void* p, std::align_val_t) noexcept { if (p && !mine(p)) free(p); }
void operator delete[](void* p, std::align_val_t) noexcept { if (p && !mine(p)) free(p); }
void operator delete(void* p, size_t, std::align_val_t) noexcept { if (p && !mine(p)) free(p); }
void operator delete[](void* p, size_t, std::align_val_t) noexcept { if (p && !mine(p)) free(p); }
