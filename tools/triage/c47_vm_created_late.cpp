#include <simgrid/s4u.hpp>
#include <simgrid/s4u/VirtualMachine.hpp>
namespace sg4 = simgrid::s4u;
static void shortlived() { sg4::this_actor::sleep_for(1); }
static void master() {
  sg4::this_actor::sleep_for(2);
  auto* pm = sg4::Host::by_name("Tremblay");
  auto* vm = pm->create_vm("VM0", 1);
  vm->start();
  sg4::this_actor::sleep_for(1);
  vm->destroy();
}
int main(int argc, char** argv) {
  sg4::Engine e(&argc, argv);
  e.load_platform(argv[1]);
  e.host_by_name("Tremblay")->add_actor("master", master);
  e.host_by_name("Jupiter")->add_actor("short", shortlived);
  e.run();
}
