#include <simgrid/s4u.hpp>
XBT_LOG_NEW_DEFAULT_CATEGORY(t, "t");
namespace sg4 = simgrid::s4u;
int main(int argc, char** argv){
  sg4::Engine e(&argc, argv);
  e.load_platform(argv[1]);
  e.add_actor("q", e.host_by_name("a"), [&e](){
  for (auto [x, y] : std::vector<std::pair<const char*, const char*>>{{"a","b"},{"a","c"},{"c","a"},{"b","a"}}) {
    auto [links, lat] = e.host_by_name(x)->route_to(e.host_by_name(y));
    std::string s; for (auto* l : links) s += std::string(l->get_cname()) + " ";
    XBT_INFO("%s -> %s : %s", x, y, s.c_str());
  }});
  e.run();
}
