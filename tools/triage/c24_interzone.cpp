#include <simgrid/s4u.hpp>
#include <simgrid/kernel/routing/NetPoint.hpp>
XBT_LOG_NEW_DEFAULT_CATEGORY(t, "t");
namespace sg4 = simgrid::s4u;
int main(int argc, char** argv){
  sg4::Engine e(&argc, argv);
  auto* R  = e.get_netzone_root()->add_netzone_full("R");
  auto* A  = R->add_netzone_star("A");
  auto* A1 = A->add_netzone_full("A1");
  auto* h  = A1->add_host("h", 1e9);
  auto* gwA1 = A1->add_router("gwA1");
  auto* lh = A1->add_link("lh", 1e9);
  A1->add_route(h->get_netpoint(), gwA1, std::vector<const sg4::Link*>{lh});
  A1->set_gateway(gwA1);
  A1->seal();
  auto* gwA = A->add_router("gwA");
  auto* l1 = A->add_link("l1", 1e9); auto* l2 = A->add_link("l2", 1e9);
  A->add_route(A1, nullptr, std::vector<const sg4::Link*>{l1, l2});
  A->set_gateway(gwA);
  A->seal();
  auto* Bz = R->add_netzone_full("Bz");
  auto* b = Bz->add_host("b", 1e9);
  Bz->set_gateway(b->get_netpoint());
  Bz->seal();
  auto* L = R->add_link("L", 1e9);
  R->add_route(A, Bz, std::vector<const sg4::Link*>{L});
  R->seal();
  e.get_netzone_root()->seal();
  auto [links, lat] = h->route_to(b);
  std::string s; for (auto* l : links) s += std::string(l->get_cname()) + " ";
  XBT_INFO("h -> b : %s", s.c_str());
  auto [links2, lat2] = b->route_to(h);
  s = ""; for (auto* l : links2) s += std::string(l->get_cname()) + " ";
  XBT_INFO("b -> h : %s", s.c_str());
}
