/* C17 demo: selective (lazy) max-min solving must equal a from-scratch solve of the current system.
 *
 * Part 1 replays a minimal, deterministic history (4 modifications).
 * Part 2 replays random histories of up to 60 modifications (add / free / change bound / change penalty /
 *        change capacity / suspend / resume), solves the long-lived selective-update system after every
 *        modification and compares Variable::get_value() with a fresh non-selective system holding the same
 *        activities.
 */
#include "src/kernel/lmm/maxmin.hpp"
#include "simgrid/kernel/resource/Action.hpp"
#include "simgrid/kernel/resource/Model.hpp"

#include <cmath>
#include <cstdio>
#include <cstdlib>
#include <memory>
#include <random>
#include <string>
#include <vector>

namespace lmm = simgrid::kernel::lmm;
namespace res = simgrid::kernel::resource;

/* With selective update, System::solve() records the actions whose rate changed: variables need a real Action id. */
class DummyAction : public res::Action {
public:
  explicit DummyAction(res::Model* m) : res::Action(m, 1.0, false) {}
  void update_remains_lazy(double) override {}
};

struct Act {
  std::unique_ptr<DummyAction> action;
  lmm::Variable* var = nullptr; // in the long-lived selective system
  double penalty     = 1;       // penalty when running
  bool suspended     = false;
  double bound       = -1;
  std::vector<std::pair<int, double>> use; // (constraint index, consumption weight)
};

struct World {
  res::Model model{"demo"};
  lmm::MaxMin lazy{true};
  std::vector<lmm::Constraint*> cnsts;
  std::vector<double> capa;
  std::vector<Act> acts;
  std::string log;

  explicit World(const std::vector<double>& capacities) : capa(capacities)
  {
    for (double c : capa)
      cnsts.push_back(lazy.constraint_new(nullptr, c));
  }
  ~World()
  {
    for (auto& a : acts)
      lazy.variable_free(a.var);
    lazy.get_modified_action_set()->clear();
  }

  void note(const std::string& s) { log += "    " + s + "\n"; }

  int add(double penalty, double bound, const std::vector<std::pair<int, double>>& use)
  {
    Act a;
    a.action  = std::make_unique<DummyAction>(&model);
    a.penalty = penalty;
    a.bound   = bound;
    a.use     = use;
    a.var     = lazy.variable_new(a.action.get(), penalty, bound, use.size());
    std::string s = "add v" + std::to_string(acts.size()) + " penalty=" + std::to_string(penalty) +
                    " bound=" + std::to_string(bound) + " on";
    for (auto const& [c, w] : use) {
      lazy.expand(cnsts[c], a.var, w);
      s += " c" + std::to_string(c) + "*" + std::to_string(w);
    }
    note(s);
    acts.push_back(std::move(a));
    return acts.size() - 1;
  }
  void free_act(int i)
  {
    note("free v" + std::to_string(i));
    lazy.variable_free(acts[i].var);
    lazy.get_modified_action_set()->clear();
    acts.erase(acts.begin() + i);
  }
  void suspend(int i)
  {
    note("suspend v" + std::to_string(i));
    acts[i].suspended = true;
    lazy.update_variable_penalty(acts[i].var, 0.0);
  }
  void resume(int i)
  {
    note("resume v" + std::to_string(i));
    acts[i].suspended = false;
    lazy.update_variable_penalty(acts[i].var, acts[i].penalty);
  }
  void set_penalty(int i, double p)
  {
    note("penalty v" + std::to_string(i) + " := " + std::to_string(p));
    acts[i].penalty = p;
    if (not acts[i].suspended)
      lazy.update_variable_penalty(acts[i].var, p);
  }
  void set_bound(int i, double b)
  {
    note("bound v" + std::to_string(i) + " := " + std::to_string(b));
    acts[i].bound = b;
    lazy.update_variable_bound(acts[i].var, b);
  }
  void set_capacity(int c, double v)
  {
    note("capacity c" + std::to_string(c) + " := " + std::to_string(v));
    capa[c] = v;
    lazy.update_constraint_bound(cnsts[c], v);
  }

  /* Solve the long-lived selective system, then a fresh system with the current activities; compare.
   * Returns the number of variables whose rates differ; fills `report`. */
  int solve_and_compare(std::string* report)
  {
    lazy.solve();
    lazy.get_modified_action_set()->clear();

    lmm::MaxMin fresh(false);
    std::vector<lmm::Constraint*> fc;
    for (double c : capa)
      fc.push_back(fresh.constraint_new(nullptr, c));
    std::vector<lmm::Variable*> fv;
    for (auto const& a : acts) {
      lmm::Variable* v = fresh.variable_new(nullptr, a.suspended ? 0.0 : a.penalty, a.bound, a.use.size());
      for (auto const& [c, w] : a.use)
        fresh.expand(fc[c], v, w);
      fv.push_back(v);
    }
    fresh.solve();

    int bad = 0;
    for (size_t i = 0; i < acts.size(); i++) {
      double l = acts[i].var->get_value();
      double f = fv[i]->get_value();
      bool ok  = std::fabs(l - f) <= 1e-4 * std::max(1.0, std::max(std::fabs(l), std::fabs(f)));
      if (not ok)
        bad++;
      if (report) {
        char buf[200];
        snprintf(buf, sizeof buf, "      v%zu%s: selective=%g  from-scratch=%g%s\n", i, acts[i].suspended ? " (suspended)" : "",
                 l, f, ok ? "" : "   <-- DIFFERENT");
        *report += buf;
      }
    }
    fresh.variable_free_all();
    return bad;
  }
};

static int part1()
{
  printf("== Part 1: minimal history ==\n");
  printf("  two resources c0 (capacity 10) and c1 (capacity 10)\n");
  World w({10, 10});
  int total = 0;
  auto step = [&](const char* what) {
    std::string rep;
    int bad = w.solve_and_compare(&rep);
    printf("  after: %s\n%s", what, rep.c_str());
    total += bad;
  };
  w.add(1, -1, {{0, 1.0}, {1, 1.0}}); // v0 crosses c0 then c1
  w.add(1, -1, {{1, 1.0}});           // v1 uses c1 only
  step("add v0 on {c0,c1}; add v1 on {c1}");
  w.suspend(0);
  step("suspend v0");
  w.resume(0);
  step("resume v0");
  w.suspend(0);
  step("suspend v0 again");
  w.set_capacity(0, 20);
  step("capacity c0 := 20 (c1 still untouched)");
  w.set_capacity(1, 30);
  step("capacity c1 := 30");
  printf("  Part 1: %d differing rate(s)\n\n", total);
  return total;
}

static int part2(int nb_histories)
{
  printf("== Part 2: %d random histories of up to 60 modifications ==\n", nb_histories);
  int bad_histories = 0;
  bool shown        = false;
  bool batch        = getenv("C17_BATCH") != nullptr;
  if (batch)
    printf("  (C17_BATCH set: several modifications may accumulate between two solves)\n");
  for (int h = 0; h < nb_histories; h++) {
    std::mt19937 rng(12345 + h);
    auto rnd = [&](int n) { return (int)(rng() % n); };
    int ncnst = 2 + rnd(4);
    std::vector<double> capa;
    for (int c = 0; c < ncnst; c++)
      capa.push_back(10 * (1 + rnd(10)));
    World w(capa);
    int nmods = 20 + rnd(41);
    int bad   = 0;
    std::string rep;
    for (int m = 0; m < nmods && bad == 0; m++) {
      int op = rnd(10);
      if (w.acts.size() < 2 || (op <= 2 && w.acts.size() < 8)) {
        std::vector<std::pair<int, double>> use;
        int first = rnd(ncnst);
        int len   = 1 + rnd(std::min(3, ncnst));
        for (int k = 0; k < len; k++)
          use.emplace_back((first + k) % ncnst, rnd(4) == 0 ? 2.0 : 1.0);
        w.add(1 + rnd(3), rnd(4) == 0 ? 1 + rnd(20) : -1, use);
      } else {
        int i = rnd(w.acts.size());
        switch (op) {
          case 0: case 1: case 2: case 3:
            w.free_act(i);
            break;
          case 4: case 5:
            if (w.acts[i].suspended)
              w.resume(i);
            else
              w.suspend(i);
            break;
          case 6:
            w.set_penalty(i, 1 + rnd(3));
            break;
          case 7:
            w.set_bound(i, rnd(3) == 0 ? -1 : 1 + rnd(20));
            break;
          default:
            w.set_capacity(rnd(ncnst), 10 * (1 + rnd(10)));
        }
      }
      // By default solve after every single modification. With C17_BATCH=1, sometimes let several modifications
      // accumulate before solving (see NOTES.md: this exposes a divergence that exists in the unmodified tree too).
      if (not batch || rnd(3) != 0) {
        rep.clear();
        bad = w.solve_and_compare(&rep);
      }
    }
    if (bad == 0) {
      rep.clear();
      bad = w.solve_and_compare(&rep);
    }
    if (bad) {
      bad_histories++;
      if (not shown) {
        shown = true;
        printf("  first failing history (seed %d, %d constraints):\n%s    => rates after the last solve:\n%s", 12345 + h,
               ncnst, w.log.c_str(), rep.c_str());
      }
    }
  }
  printf("  Part 2: %d / %d histories where selective != from-scratch\n\n", bad_histories, nb_histories);
  return bad_histories;
}

int main(int argc, char** argv)
{
  int n  = argc > 1 ? atoi(argv[1]) : 2000;
  int b1 = part1();
  int b2 = part2(n);
  printf("VERDICT: %s\n", (b1 || b2) ? "PROPERTY C17 VIOLATED (selective update diverges from full recomputation)"
                                     : "property C17 holds on all checked histories");
  return (b1 || b2) ? 1 : 0;
}
