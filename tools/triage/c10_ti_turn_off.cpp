#include <simgrid/s4u.hpp>
#include <simgrid/Exception.hpp>
namespace sg4 = simgrid::s4u;
XBT_LOG_NEW_DEFAULT_CATEGORY(demo, "demo");
int main(int argc, char** argv) {
  sg4::Engine e(&argc, argv);
  e.load_platform(argv[1]);
  auto* a = e.host_by_name("Tremblay");
  auto* b = e.host_by_name("Jupiter");
  a->add_actor("runner", [b]() {
    auto ex = sg4::Exec::init()->set_flops_amount(1e12)->set_host(b);
    ex->start();
    try { ex->wait(); XBT_INFO("exec completed at %f", sg4::Engine::get_clock()); }
    catch (const simgrid::HostFailureException&) { XBT_INFO("HostFailureException at %f", sg4::Engine::get_clock()); }
  });
  a->add_actor("killer", [b]() { sg4::this_actor::sleep_for(1); b->turn_off(); });
  e.run();
}
