#include <simgrid/s4u.hpp>
XBT_LOG_NEW_DEFAULT_CATEGORY(t, "t");
namespace sg4 = simgrid::s4u;
static void daemon_fn(){ sg4::this_actor::on_exit([](bool){ XBT_INFO("daemon exits"); }); sg4::Actor::self()->daemonize(); sg4::this_actor::sleep_for(1000); }
int main(int argc, char** argv){
  sg4::Engine e(&argc, argv);
  e.load_platform(argv[1]);
  auto* h = e.host_by_name("Tremblay");
  for (int i=0;i<4;i++) e.add_actor("d"+std::to_string(i), h, daemon_fn);
  e.add_actor("main", h, [](){ sg4::this_actor::sleep_for(5); XBT_INFO("main done"); });
  e.run();
}
