#include <simgrid/s4u.hpp>
namespace sg4 = simgrid::s4u;
int main(int argc, char** argv) {
  sg4::Engine e(&argc, argv);
  auto* zone = e.get_netzone_root()->add_netzone_full("z");
  auto* ctl = zone->add_host("ctl", 1e9);
  auto* cpu = zone->add_host("cpu", 1e9);
  zone->seal();
  ctl->add_actor("controller", [&]() {
    sg4::ExecPtr a = sg4::Exec::init()->set_flops_amount(1e10)->set_host(cpu);
    sg4::ExecPtr b = sg4::Exec::init()->set_flops_amount(1e10)->set_host(cpu);
    a->start(); b->start();
    sg4::this_actor::sleep_for(4);
    a->update_priority(3);
    a->wait(); b->wait();
    std::printf("RESULT a %.6f b %.6f\n", a->get_finish_time(), b->get_finish_time());
  });
  e.run();
}
