#include <mpi.h>
#include <stdio.h>
#include <string.h>
int main(int argc, char** argv) {
  MPI_Init(&argc, &argv);
  int sizes[2] = {4, 4}, subsizes[2] = {2, 2}, starts[2] = {1, 1};
  MPI_Datatype sub;
  MPI_Type_create_subarray(2, sizes, subsizes, starts, MPI_ORDER_C, MPI_INT, &sub);
  MPI_Type_commit(&sub);
  MPI_Aint lb, ext; int sz;
  MPI_Type_get_extent(sub, &lb, &ext); MPI_Type_size(sub, &sz);
  printf("subarray 4x4 of int, sub 2x2 at (1,1): size=%d lb=%ld extent=%ld   (MPI: size=16 lb=0 extent=64)\n", sz, (long)lb, (long)ext);
  /* two consecutive arrays: count=2 must pick the sub-block of each 4x4 array */
  int src[32], dst[32];
  for (int i = 0; i < 32; i++) { src[i] = i; dst[i] = -1; }
  MPI_Sendrecv(src, 2, sub, 0, 0, dst, 2, sub, 0, 0, MPI_COMM_SELF, MPI_STATUS_IGNORE);
  printf("dst after Sendrecv(count=2):");
  for (int i = 0; i < 32; i++) printf(" %d", dst[i]);
  printf("\n(MPI: positions 5 6 9 10 and 21 22 25 26 carry their index, all others -1)\n");
  MPI_Finalize();
  return 0;
}
