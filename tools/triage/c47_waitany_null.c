#include <mpi.h>
#include <stdio.h>
int main(int argc, char** argv) {
  MPI_Init(&argc, &argv);
  int rank; MPI_Comm_rank(MPI_COMM_WORLD, &rank);
  MPI_Request r[2] = {MPI_REQUEST_NULL, MPI_REQUEST_NULL};
  int idx; MPI_Status st;
  MPI_Waitany(2, r, &idx, &st);
  MPI_Barrier(MPI_COMM_WORLD);
  MPI_Finalize();
  return 0;
}
