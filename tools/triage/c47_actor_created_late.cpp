#include <simgrid/s4u.hpp>
namespace sg4 = simgrid::s4u;
static void child() { sg4::this_actor::sleep_for(1); }
static void parent() {
  for (int i = 0; i < 3; i++) sg4::this_actor::sleep_for(1);
  sg4::Actor::create("child", sg4::this_actor::get_host(), child);
  sg4::this_actor::sleep_for(3);
}
static void worker() { sg4::this_actor::execute(1e10); }
int main(int argc, char** argv) {
  sg4::Engine e(&argc, argv);
  e.load_platform(argv[1]);
  sg4::Actor::create("parent", e.host_by_name("Tremblay"), parent);
  sg4::Actor::create("worker", e.host_by_name("Jupiter"), worker);
  e.run();
}
