#include <mpi.h>
#include <stdio.h>
#include <string.h>
#include <stdlib.h>
#define P 65536
int main(int argc, char** argv){
  MPI_Init(&argc,&argv);
  int rank; MPI_Comm_rank(MPI_COMM_WORLD,&rank);
  if (rank==0){
    size_t shared[4] = {0, P, 3*P, 4*P};  /* shared [0,P) and [3P,4P); private [P,3P) */
    char* buf = SMPI_PARTIAL_SHARED_MALLOC(4*P, shared, 2);
    memset(buf+P, 0x55, 2*P);
    MPI_Send(buf+2*P, 2*P, MPI_CHAR, 1, 0, MPI_COMM_WORLD);   /* message = [2P,4P): its first P bytes are private */
  } else if (rank==1){
    char* r = malloc(2*P); memset(r, 0xAA, 2*P);
    MPI_Recv(r, 2*P, MPI_CHAR, 0, 0, MPI_COMM_WORLD, MPI_STATUS_IGNORE);
    printf("first byte of the message: 0x%02x (private data 0x55 expected), byte P-1: 0x%02x\n", (unsigned char)r[0], (unsigned char)r[P-1]);
  }
  MPI_Finalize(); return 0;
}
