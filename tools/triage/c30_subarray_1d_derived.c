#include <mpi.h>
#include <stdio.h>
int main(int argc, char** argv) {
  MPI_Init(&argc, &argv);
  /* 1-D subarray of a derived element type (pairs of ints), count 2 */
  MPI_Datatype pair, sub;
  MPI_Type_contiguous(2, MPI_INT, &pair);
  int sizes[1] = {4}, subsizes[1] = {2}, starts[1] = {1};
  MPI_Type_create_subarray(1, sizes, subsizes, starts, MPI_ORDER_C, pair, &sub);
  MPI_Type_commit(&sub);
  MPI_Aint lb, ext; int sz;
  MPI_Type_get_extent(sub, &lb, &ext); MPI_Type_size(sub, &sz);
  printf("1-D subarray 4 of pair, sub 2 at 1: size=%d lb=%ld extent=%ld   (MPI: size=16 lb=0 extent=32)\n", sz, (long)lb, (long)ext);
  int src[16], dst[16];
  for (int i = 0; i < 16; i++) { src[i] = i; dst[i] = -1; }
  MPI_Sendrecv(src, 2, sub, 0, 0, dst, 2, sub, 0, 0, MPI_COMM_SELF, MPI_STATUS_IGNORE);
  printf("dst:"); for (int i = 0; i < 16; i++) printf(" %d", dst[i]); printf("\n(MPI: 2 3 4 5 and 10 11 12 13 carry their index, others -1)\n");
  MPI_Finalize();
  return 0;
}
