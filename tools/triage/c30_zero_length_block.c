#include <mpi.h>
#include <stdio.h>
int main(int argc, char** argv) {
  MPI_Init(&argc, &argv);
  MPI_Datatype idx, hidx, st;
  int bl[2] = {0, 1}; int d[2] = {0, 5}; MPI_Aint hd[2] = {0, 20};
  MPI_Datatype ts[2] = {MPI_INT, MPI_INT};
  MPI_Aint lb, ext;
  MPI_Type_indexed(2, bl, d, MPI_INT, &idx);
  MPI_Type_create_hindexed(2, bl, hd, MPI_INT, &hidx);
  MPI_Type_create_struct(2, bl, hd, ts, &st);
  MPI_Type_get_extent(idx, &lb, &ext);  printf("indexed(2,{0,1},{0,5},int):    lb=%ld extent=%ld  (MPI: the empty block has no entry in the type map: lb=20 extent=4)\n", (long)lb, (long)ext);
  MPI_Type_get_extent(hidx, &lb, &ext); printf("hindexed(2,{0,1},{0,20},int):  lb=%ld extent=%ld  (MPI: lb=20 extent=4)\n", (long)lb, (long)ext);
  MPI_Type_get_extent(st, &lb, &ext);   printf("struct(2,{0,1},{0,20},{int,int}): lb=%ld extent=%ld  (MPI: lb=20 extent=4)\n", (long)lb, (long)ext);
  MPI_Type_commit(&idx);
  int src[16], dst[16];
  for (int i = 0; i < 16; i++) { src[i] = i; dst[i] = -1; }
  MPI_Sendrecv(src, 2, idx, 0, 0, dst, 2, idx, 0, 0, MPI_COMM_SELF, MPI_STATUS_IGNORE);
  printf("dst after Sendrecv(count=2, indexed):"); for (int i = 0; i < 16; i++) printf(" %d", dst[i]);
  printf("\n(MPI: extent 4, so positions 5 and 6 carry their index)\n");
  MPI_Finalize();
  return 0;
}
