#include <simgrid/s4u.hpp>
XBT_LOG_NEW_DEFAULT_CATEGORY(t, "t");
namespace sg4 = simgrid::s4u;
int main(int argc, char** argv){
  sg4::Engine e(&argc, argv);
  e.load_platform(argv[1]);
  auto* h = e.host_by_name("Tremblay");
  auto root = sg4::ExecTask::init("root", 1e6, h);
  std::vector<sg4::ExecTaskPtr> succ;
  for (int i = 0; i < 4; i++) { succ.push_back(sg4::ExecTask::init("succ" + std::to_string(i), 1e6, h)); root->add_successor(succ.back()); }
  sg4::Task::on_start_cb([](const sg4::Task* t){ XBT_INFO("task %s starts", t->get_cname()); });
  root->enqueue_firings(1);
  e.run();
}
