#include <mpi.h>
#include <stdio.h>
int main(int argc, char** argv) {
  MPI_Init(&argc, &argv);
  MPI_Datatype inner, outer_idx, outer_vec, outer_hidx, outer_struct;
  int bl1[1] = {1}; MPI_Aint disp1[1] = {4};
  MPI_Type_create_hindexed(1, bl1, disp1, MPI_INT, &inner);   /* one int at byte 4: lb=4 ub=8 extent=4 */
  MPI_Aint lb, ext;
  MPI_Type_get_extent(inner, &lb, &ext); printf("inner: lb=%ld extent=%ld ub=%ld\n", (long)lb, (long)ext, (long)(lb+ext));
  int bl2[1] = {2}; int d0[1] = {0}; MPI_Aint hd0[1] = {0};
  MPI_Type_indexed(1, bl2, d0, inner, &outer_idx);
  MPI_Type_vector(1, 2, 2, inner, &outer_vec);
  MPI_Type_create_hindexed(1, bl2, hd0, inner, &outer_hidx);
  MPI_Datatype types[1] = {inner};
  MPI_Type_create_struct(1, bl2, hd0, types, &outer_struct);
  MPI_Type_get_extent(outer_vec, &lb, &ext);  printf("vector(1,2,2,inner):      lb=%ld ub=%ld   (MPI: lb=4 ub=12)\n", (long)lb, (long)(lb+ext));
  MPI_Type_get_extent(outer_idx, &lb, &ext);  printf("indexed(1,{2},{0},inner): lb=%ld ub=%ld   (MPI: lb=4 ub=12)\n", (long)lb, (long)(lb+ext));
  MPI_Type_get_extent(outer_hidx, &lb, &ext); printf("hindexed(1,{2},{0},inner):lb=%ld ub=%ld   (MPI: lb=4 ub=12)\n", (long)lb, (long)(lb+ext));
  MPI_Type_get_extent(outer_struct, &lb, &ext); printf("struct(1,{2},{0},{inner}):lb=%ld ub=%ld   (MPI: lb=4 ub=12)\n", (long)lb, (long)(lb+ext));
  MPI_Finalize();
  return 0;
}
