#include <mpi.h>
#include <stdio.h>
#include <stdlib.h>
int main(int argc, char** argv) {
  MPI_Init(&argc, &argv);
  int rank, size; MPI_Comm_rank(MPI_COMM_WORLD, &rank); MPI_Comm_size(MPI_COMM_WORLD, &size);
  int n = 100000;
  int* sb = calloc(n, sizeof(int));
  int root = 2;
  if (rank == root) {
    int* rb = calloc((size_t)n * size, sizeof(int));
    MPI_Gather(sb, n, MPI_INT, rb, n, MPI_INT, root, MPI_COMM_WORLD);
    free(rb);
  } else {
    MPI_Gather(sb, n, MPI_INT, NULL, 0, MPI_INT, root, MPI_COMM_WORLD);
  }
  printf("rank %d done at %f\n", rank, MPI_Wtime());
  MPI_Finalize();
  return 0;
}
