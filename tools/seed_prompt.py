#!/usr/bin/env python3
"""tools/seed_prompt.py <id>: create a scratch worktree /tmp/seed/<id> of /repo (HEAD) and print the prompt given to a fresh sub-agent
(property text + worktree path only; nothing from /verif)."""
import json, os, subprocess, sys
pid = sys.argv[1]
SECOND = len(sys.argv) > 2 and sys.argv[2] == 'second'
W = '/tmp/seed/%s' % pid
os.makedirs('/tmp/seed', exist_ok=True)
if not os.path.exists(W):
    subprocess.check_call(['git', '-C', '/repo', 'worktree', 'add', '--detach', W, 'HEAD'], stdout=subprocess.DEVNULL, stderr=subprocess.DEVNULL)
os.makedirs(W + '-out', exist_ok=True)
prop = [json.loads(l) for l in open('/verif/properties.jsonl') if json.loads(l)['id'] == pid][0]
print('''You are working in a scratch git worktree of the SimGrid simulator at {W} (a checkout of the project at its current HEAD). It is yours: edit it freely. Do not read or write anything under /verif or /repo, and do not look for any verification tooling: your job is independent of it.

Here is a semantic property this project is supposed to satisfy:

{prop}

Your task: produce ONE realistic source change to the project - the kind of regression a contributor could plausibly introduce (a refactoring slip, a wrong condition, a dropped step, a reordering, a not-quite-right optimisation) - that BREAKS this property while
 (a) the project still compiles, and
 (b) the existing pinned test suite still passes: run `/tmp/seed/run_pinned.sh {W}` (it configures and builds {W}/_build with ninja, then runs the 104 pinned tests; you want "100% tests passed, 0 tests failed out of 104"). The first build takes several minutes; later ones are incremental.
The change must be subtle: the breakage should need something specific to show up - a particular interleaving, a fault point, a multi-step sequence, an unusual input, or two cooperating sites - and must not make every run of every program fail.

Then demonstrate the break: write a small program or script whose output shows the property violated on the modified tree (C++ against the built library, e.g. `g++ -std=gnu++20 -I{W}/include -I{W}/_build/include demo.cpp -L{W}/_build/lib -lsimgrid -Wl,-rpath,{W}/_build/lib`; or an MPI program with {W}/_build/smpi_script/bin/smpicc and smpirun; or the model checker {W}/_build/bin/simgrid-mc; whatever fits), and establish what the same demo prints on the unmodified tree (`git stash` + rebuild if cheap, otherwise argue from the code).

Deliver, in {W}-out/ :
 - patch.diff : output of `git -C {W} diff` (source changes only; no build outputs; do not edit tests or expected outputs; do not commit);
 - the demo source(s) and a run.sh that builds and runs the demo given the worktree path as $1;
 - NOTES.md : which clause of the property breaks, what the break needs to manifest, what you ran and what you saw (pinned tests result; demo output on the modified tree and on the unmodified tree).
@@SECOND@@Keep the patch small (a few lines to a few dozen). Use at most 6 parallel build jobs. Read the code the property is anchored in before choosing the change. Your final message should give: a one-line summary of the change, the files changed, whether the pinned tests passed (with the ctest summary line), and the demo result.'''.format(W=W, prop=json.dumps(prop, indent=1)).replace('@@SECOND@@', 'Other contributors have already tried the most obvious change for this property (the first function a reader of the property would look at): choose a less central code path that the property also depends on - another file among the anchors, a helper, a rarely used option or variant, an initialisation or teardown step. ' if SECOND else ''))
