#!/usr/bin/env python3
"""tools/mut_probe.py <spec.json> <ids...>: developer helper.  spec = [{"name":..,"file":..,"old":..,"new":..}, ...]; each edit is analysed through
the VFS overlay (never touches /repo) by each listed check; prints which checks report what.  Used to look for blind spots by hand mutation."""
import json, os, sys, tempfile, shutil
V = os.path.dirname(os.path.dirname(os.path.abspath(__file__)))
sys.path.insert(0, V)
from sgcheck import variants
specs = json.load(open(sys.argv[1]))
only = os.environ.get('ONLY')
for s in specs:
    if only and s['name'] != only:
        continue
    line = []
    for pid in sys.argv[2:]:
        t = tempfile.mkdtemp(prefix='sgmut_')
        try:
            m = variants.substitution_overlay({'edits': [{'file': s['file'], 'subst': [[s['old'], s['new']]]}]}, t)
            if isinstance(m, str):
                line.append('%s:N/A(%s)' % (pid, m[:60]))
                continue
            rc, keys, unrec, viol = variants.analyse_overlay(pid, m)
            line.append('%s:rc=%s %s%s' % (pid, rc, ','.join(keys)[:150], (' UNREC ' + unrec[0][:80]) if unrec else ''))
        finally:
            shutil.rmtree(t, ignore_errors=True)
    print('%-28s %s' % (s['name'], ' | '.join(line)))
