#!/bin/sh
cd /verif
for id in $(python3 -c "
import json;print(' '.join(c['property_id'] for c in json.load(open('/verif/MANIFEST.json'))['checks']))"); do
  s=$(date +%s); ./check $id --tier thorough > /tmp/sgthorough_$id.log 2>&1; rc=$?; e=$(date +%s)
  echo "$id rc=$rc $((e-s))s $(tail -1 /tmp/sgthorough_$id.log | cut -c1-150)"
done
