#!/bin/sh
# tools/seed_try.sh <patch> <ids...>: apply a seeded change to /repo, run the named checks, restore /repo.  (developer helper)
P=$1; shift
git -C /repo apply "$P" || { echo "patch does not apply"; exit 2; }
for id in "$@"; do
  /verif/check $id > /tmp/seed_try_$id.log 2>&1; rc=$?
  echo "== $id rc=$rc"; grep -A4 "^VIOLATION\|^UNRECOGNISED" /tmp/seed_try_$id.log | cut -c1-300 | head -30; tail -1 /tmp/seed_try_$id.log
done
git -C /repo checkout -- .
git -C /repo status --short | grep -v "^??" | head
