// sgx — SimGrid function-IR extractor (libTooling, clang 14).
// One run per translation unit:   sgx <out.json> -- <clang args...> <file>
// Emits, for every function definition located under /repo, its clang CFG with resolved expression trees,
// plus class hierarchy, enums and evaluated constant tables.  See /verif/DESIGN.md §2.1.
#include "clang/AST/ASTConsumer.h"
#include "clang/AST/ASTContext.h"
#include "clang/AST/DeclCXX.h"
#include "clang/AST/DeclTemplate.h"
#include "clang/AST/ExprCXX.h"
#include "clang/AST/ParentMap.h"
#include "clang/AST/RecursiveASTVisitor.h"
#include "clang/Analysis/CFG.h"
#include "clang/Frontend/CompilerInstance.h"
#include "clang/Frontend/FrontendAction.h"
#include "clang/Lex/Lexer.h"
#include "clang/Tooling/CompilationDatabase.h"
#include "clang/Tooling/Tooling.h"
#include "llvm/Support/JSON.h"
#include "llvm/Support/MemoryBuffer.h"
#include "llvm/Support/VirtualFileSystem.h"
#include "llvm/Support/raw_ostream.h"
#include <map>
#include <set>
#include <string>

using namespace clang;
namespace json = llvm::json;

static std::string gOutPath;
static std::string gRoot = "/repo/";

namespace {

class Extractor {
public:
  ASTContext& Ctx;
  SourceManager& SM;
  PrintingPolicy PP;
  std::string Lines; // one record per line: <tag>\t<key>\t<json>
  void line(const char* tag, const std::string& key, json::Object&& o)
  {
    std::string s;
    llvm::raw_string_ostream os(s);
    os << json::Value(std::move(o));
    os.flush();
    Lines += tag;
    Lines += '\t';
    for (char c : key)
      Lines += (c == '\t' || c == '\n') ? ' ' : c;
    Lines += '\t';
    Lines += s;
    Lines += '\n';
  }
  std::vector<std::string> Types;
  std::vector<long> TypeSz;  // size in bytes of complete object types, -1 otherwise
  std::vector<int> TypePt;   // pointee / referee / element type id, -1 otherwise
  std::map<std::string, int> TypeIdx;
  std::set<const Decl*> SeenFn;
  std::set<const Decl*> SeenRec;
  std::set<const Decl*> SeenEnum;

  explicit Extractor(ASTContext& C) : Ctx(C), SM(C.getSourceManager()), PP(C.getLangOpts())
  {
    PP.SuppressTagKeyword     = true;
    PP.SuppressUnwrittenScope = false;
    PP.Bool                   = true;
    PP.TerseOutput            = true;
  }

  int typeId(QualType T)
  {
    if (T.isNull())
      return -1;
    std::string s = T.getCanonicalType().getAsString(PP);
    auto it       = TypeIdx.find(s);
    if (it != TypeIdx.end())
      return it->second;
    int id = (int)Types.size();
    Types.push_back(s);
    TypeSz.push_back(-1);
    TypePt.push_back(-1);
    TypeIdx[s] = id;
    QualType C = T.getCanonicalType();
    if (!C->isDependentType() && !C->isIncompleteType() && !C->isFunctionType() && !C->isVoidType() &&
        !C->isReferenceType() && !C->isUndeducedType() && !C->isPlaceholderType())
      TypeSz[id] = (long)Ctx.getTypeSizeInChars(C).getQuantity();
    QualType P;
    if (C->isPointerType() || C->isReferenceType())
      P = C->getPointeeType();
    else if (const auto* AT = dyn_cast<ArrayType>(C.getTypePtr()))
      P = AT->getElementType();
    if (!P.isNull()) {
      int pid    = typeId(P);
      TypePt[id] = pid;
    }
    return id;
  }

  std::string fileOf(SourceLocation L)
  {
    if (L.isInvalid())
      return "";
    SourceLocation E = SM.getExpansionLoc(L);
    auto F           = SM.getFilename(E);
    return F.str();
  }
  unsigned lineOf(SourceLocation L)
  {
    if (L.isInvalid())
      return 0;
    return SM.getExpansionLineNumber(L);
  }
  unsigned colOf(SourceLocation L)
  {
    if (L.isInvalid())
      return 0;
    return SM.getExpansionColumnNumber(L);
  }
  bool inRepo(SourceLocation L)
  {
    std::string f = fileOf(L);
    if (f.rfind(gRoot, 0) != 0)
      return false;
    return true;
  }
  // name of the outermost macro this location was expanded from ("" if none)
  std::string macroOf(SourceLocation L)
  {
    if (L.isInvalid() || !L.isMacroID())
      return "";
    SourceLocation E = SM.getExpansionLoc(L);
    SmallString<64> buf;
    bool invalid   = false;
    StringRef text = Lexer::getSpelling(E, buf, SM, Ctx.getLangOpts(), &invalid);
    if (invalid)
      return "?";
    return text.str();
  }

  std::string qname(const NamedDecl* D)
  {
    std::string s;
    llvm::raw_string_ostream os(s);
    D->printQualifiedName(os, PP);
    return os.str();
  }

  std::string lambdaName(const CXXRecordDecl* RD)
  {
    // name a lambda after its enclosing function and position
    const DeclContext* DC = RD->getDeclContext();
    std::string outer;
    while (DC && !isa<FunctionDecl>(DC) && !DC->isTranslationUnit())
      DC = DC->getParent();
    if (DC && isa<FunctionDecl>(DC))
      outer = fnQName(cast<FunctionDecl>(DC));
    else
      outer = "<global>";
    return outer + "::<lambda@" + std::to_string(lineOf(RD->getLocation())) + ":" + std::to_string(colOf(RD->getLocation())) +
           ">";
  }

  std::string fnQName(const FunctionDecl* FD)
  {
    if (auto* MD = dyn_cast<CXXMethodDecl>(FD)) {
      const CXXRecordDecl* RD = MD->getParent();
      if (RD && RD->isLambda())
        return lambdaName(RD) + (isa<CXXConversionDecl>(MD) ? "::conv" : "");
    }
    return qname(FD);
  }

  std::string fnKey(const FunctionDecl* FD)
  {
    std::string s = fnQName(FD);
    if (auto* TA = FD->getTemplateSpecializationArgs()) {
      s += "<";
      for (unsigned i = 0; i < TA->size(); i++) {
        if (i)
          s += ",";
        std::string a;
        llvm::raw_string_ostream os(a);
        TA->get(i).print(PP, os, true);
        s += os.str();
      }
      s += ">";
    }
    s += "(";
    for (unsigned i = 0; i < FD->getNumParams(); i++) {
      if (i)
        s += ",";
      s += FD->getParamDecl(i)->getType().getCanonicalType().getAsString(PP);
    }
    s += ")";
    if (auto* MD = dyn_cast<CXXMethodDecl>(FD))
      if (MD->isConst())
        s += "const";
    // functions with internal linkage (static, anonymous namespace) are distinct per file: keep their keys apart
    if (!FD->isExternallyVisible() && !isa<CXXMethodDecl>(FD)) {
      std::string f = fileOf(FD->getCanonicalDecl()->getLocation());
      auto pos      = f.rfind('/');
      s += "@" + (pos == std::string::npos ? f : f.substr(pos + 1));
    }
    return s;
  }

  // ------------------------------------------------------------------ expressions
  const std::map<const Stmt*, int>* ElemMap = nullptr; // current function: CFG element stmt -> id
  const Stmt* CurElem                       = nullptr;
  int CurId                                 = -1;

  json::Value declRef(const ValueDecl* D)
  {
    json::Object o;
    if (auto* FD = dyn_cast<FunctionDecl>(D)) {
      o["dk"] = "fn";
      o["n"]  = fnKey(FD);
      o["q"]  = fnQName(FD);
    } else if (auto* F = dyn_cast<FieldDecl>(D)) {
      o["dk"] = "field";
      o["n"]  = qname(F);
    } else if (auto* EC = dyn_cast<EnumConstantDecl>(D)) {
      o["dk"] = "enumc";
      o["n"]  = qname(EC);
      o["v"]  = (int64_t)EC->getInitVal().getExtValue();
    } else if (auto* P = dyn_cast<ParmVarDecl>(D)) {
      o["dk"] = "parm";
      o["n"]  = P->getNameAsString();
      o["i"]  = (int64_t)P->getFunctionScopeIndex();
    } else if (auto* V = dyn_cast<VarDecl>(D)) {
      if (V->isLocalVarDecl()) {
        o["dk"] = V->isStaticLocal() ? "slocal" : "local";
        o["n"]  = V->getNameAsString();
        o["at"] = (int64_t)lineOf(V->getLocation()) * 1000 + colOf(V->getLocation());
      } else {
        o["dk"] = V->isStaticDataMember() ? "smember" : "global";
        o["n"]  = qname(V);
      }
    } else if (auto* B = dyn_cast<BindingDecl>(D)) {
      o["dk"] = "local";
      o["n"]  = B->getNameAsString();
      o["at"] = (int64_t)lineOf(B->getLocation()) * 1000 + colOf(B->getLocation());
      o["binding"] = true;
    } else {
      o["dk"] = "other";
      o["n"]  = qname(D);
    }
    return json::Value(std::move(o));
  }

  const Expr* strip(const Expr* E)
  {
    while (E) {
      if (auto* P = dyn_cast<ParenExpr>(E))
        E = P->getSubExpr();
      else if (auto* I = dyn_cast<ImplicitCastExpr>(E))
        E = I->getSubExpr();
      else if (auto* C = dyn_cast<ExprWithCleanups>(E))
        E = C->getSubExpr();
      else if (auto* M = dyn_cast<MaterializeTemporaryExpr>(E))
        E = M->getSubExpr();
      else if (auto* B = dyn_cast<CXXBindTemporaryExpr>(E))
        E = B->getSubExpr();
      else if (auto* K = dyn_cast<ConstantExpr>(E))
        E = K->getSubExpr();
      else if (auto* S = dyn_cast<SubstNonTypeTemplateParmExpr>(E))
        E = S->getReplacement();
      else if (auto* O = dyn_cast<OpaqueValueExpr>(E)) {
        if (O->getSourceExpr())
          E = O->getSourceExpr();
        else
          break;
      } else if (auto* IL = dyn_cast<CXXStdInitializerListExpr>(E))
        E = IL->getSubExpr();
      else if (auto* CE = dyn_cast<CXXConstructExpr>(E)) {
        // elidable copy/move of a temporary: look through
        if (CE->isElidable() && CE->getNumArgs() == 1 && !isa<CXXTemporaryObjectExpr>(CE))
          E = CE->getArg(0);
        else
          break;
      } else
        break;
    }
    return E;
  }

  void addConst(json::Object& o, const Expr* E)
  {
    if (E->isValueDependent() || E->isTypeDependent())
      return;
    QualType T = E->getType();
    if (T.isNull())
      return;
    if (T->isIntegralOrEnumerationType()) {
      Expr::EvalResult R;
      if (E->EvaluateAsInt(R, Ctx, Expr::SE_NoSideEffects, /*InConstantContext*/ false)) {
        if (R.Val.isInt()) {
          auto v = R.Val.getInt();
          if (v.isSigned() || v.getActiveBits() <= 63)
            o["cv"] = (int64_t)v.getExtValue();
          else
            o["cv"] = llvm::toString(v, 10);
        }
      }
    } else if (T->isRealFloatingType()) {
      llvm::APFloat F(0.0);
      if (E->EvaluateAsFloat(F, Ctx, Expr::SE_NoSideEffects)) {
        bool lost;
        F.convert(llvm::APFloat::IEEEdouble(), llvm::APFloat::rmNearestTiesToEven, &lost);
        double d = F.convertToDouble();
        if (d == d && d < 1e308 && d > -1e308)
          o["cv"] = d;
        else
          o["cv"] = d != d ? "nan" : (d > 0 ? "inf" : "-inf");
      }
    }
  }

  json::Value calleeOf(const FunctionDecl* FD)
  {
    json::Object o;
    o["n"] = fnKey(FD);
    o["q"] = fnQName(FD);
    if (auto* MD = dyn_cast<CXXMethodDecl>(FD)) {
      o["cls"] = qname(MD->getParent());
      if (MD->isVirtual())
        o["virtual"] = true;
      if (MD->isStatic())
        o["static"] = true;
    }
    if (FD->isNoReturn())
      o["noreturn"] = true;
    if (auto* TA = FD->getTemplateSpecializationArgs()) {
      json::Array ta;
      for (unsigned i = 0; i < TA->size(); i++) {
        const TemplateArgument& A = TA->get(i);
        if (A.getKind() == TemplateArgument::Type)
          ta.push_back(A.getAsType().getCanonicalType().getAsString(PP));
        else {
          std::string a;
          llvm::raw_string_ostream os(a);
          A.print(PP, os, true);
          ta.push_back(os.str());
        }
      }
      o["targs"] = std::move(ta);
    }
    return json::Value(std::move(o));
  }

  json::Value X(const Stmt* S, bool top = false)
  {
    if (!S)
      return json::Value(nullptr);
    if (auto* E0 = dyn_cast<Expr>(S)) {
      const Expr* E = strip(E0);
      if (!E)
        return json::Value(nullptr);
      S = E;
    }
    if (ElemMap) {
      auto it = ElemMap->find(S);
      if (it != ElemMap->end() && it->second != CurId) {
        json::Object r;
        r["k"] = "R";
        r["r"] = it->second;
        return json::Value(std::move(r));
      }
    }
    json::Object o;
    const Expr* E = dyn_cast<Expr>(S);
    if (E) {
      o["t"] = typeId(E->getType());
    }
    auto kids = [&](std::initializer_list<const Stmt*> L) {
      json::Array a;
      for (auto* c : L)
        a.push_back(X(c));
      return a;
    };
    if (auto* D = dyn_cast<DeclRefExpr>(S)) {
      o["k"] = "Ref";
      o["d"] = declRef(D->getDecl());
      if (!isa<FunctionDecl>(D->getDecl()) && !isa<EnumConstantDecl>(D->getDecl()))
        addConst(o, D);
    } else if (auto* M = dyn_cast<MemberExpr>(S)) {
      o["k"] = "Mem";
      o["d"] = declRef(M->getMemberDecl());
      o["a"] = kids({M->getBase()});
      if (M->isArrow())
        o["arrow"] = true;
    } else if (isa<CXXThisExpr>(S)) {
      o["k"] = "This";
    } else if (auto* L = dyn_cast<IntegerLiteral>(S)) {
      o["k"] = "Int";
      if (L->getValue().getActiveBits() <= 63)
        o["v"] = (int64_t)L->getValue().getZExtValue();
      else
        o["v"] = llvm::toString(L->getValue(), 10, false);
    } else if (auto* L = dyn_cast<FloatingLiteral>(S)) {
      o["k"] = "Float";
      o["v"] = L->getValueAsApproximateDouble();
    } else if (auto* L = dyn_cast<CXXBoolLiteralExpr>(S)) {
      o["k"] = "Bool";
      o["v"] = L->getValue();
    } else if (auto* L = dyn_cast<StringLiteral>(S)) {
      o["k"] = "Str";
      if (L->isAscii() || L->isUTF8())
        o["v"] = L->getString().str();
      else
        o["v"] = "<wide>";
    } else if (auto* L = dyn_cast<CharacterLiteral>(S)) {
      o["k"] = "Char";
      o["v"] = (int64_t)L->getValue();
    } else if (isa<CXXNullPtrLiteralExpr>(S) || isa<GNUNullExpr>(S)) {
      o["k"] = "Null";
    } else if (auto* U = dyn_cast<UnaryOperator>(S)) {
      o["k"]  = "Un";
      o["op"] = UnaryOperator::getOpcodeStr(U->getOpcode()).str();
      if (U->isPostfix())
        o["post"] = true;
      o["a"] = kids({U->getSubExpr()});
      addConst(o, U);
    } else if (auto* B = dyn_cast<BinaryOperator>(S)) {
      o["k"]  = "Bin";
      o["op"] = B->getOpcodeStr().str();
      o["a"]  = kids({B->getLHS(), B->getRHS()});
      if (!B->isAssignmentOp())
        addConst(o, B);
    } else if (auto* RW = dyn_cast<CXXRewrittenBinaryOperator>(S)) {
      return X(RW->getSemanticForm(), top);
    } else if (auto* C = dyn_cast<ConditionalOperator>(S)) {
      o["k"] = "Cond";
      o["a"] = kids({C->getCond(), C->getTrueExpr(), C->getFalseExpr()});
    } else if (auto* C = dyn_cast<BinaryConditionalOperator>(S)) {
      o["k"] = "Cond";
      o["a"] = kids({C->getCommon(), C->getCommon(), C->getFalseExpr()});
    } else if (auto* A = dyn_cast<ArraySubscriptExpr>(S)) {
      o["k"] = "Idx";
      o["a"] = kids({A->getBase(), A->getIdx()});
    } else if (auto* MC = dyn_cast<CXXMemberCallExpr>(S)) {
      o["k"] = "Call";
      o["l"] = lineOf(MC->getExprLoc());
      const CXXMethodDecl* MD = MC->getMethodDecl();
      if (MD) {
        o["c"] = calleeOf(MD);
        bool qualified = false;
        if (auto* ME = dyn_cast<MemberExpr>(MC->getCallee()->IgnoreParenImpCasts()))
          qualified = ME->hasQualifier();
        if (MD->isVirtual() && !qualified)
          o["vcall"] = true;
      } else {
        o["callee"] = X(MC->getCallee());
      }
      o["obj"] = X(MC->getImplicitObjectArgument());
      json::Array a;
      for (auto* arg : MC->arguments())
        a.push_back(X(arg));
      o["a"] = std::move(a);
    } else if (auto* OC = dyn_cast<CXXOperatorCallExpr>(S)) {
      o["k"]  = "Call";
      o["l"]  = lineOf(OC->getExprLoc());
      o["op"] = getOperatorSpelling(OC->getOperator());
      if (auto* FD = OC->getDirectCallee()) {
        o["c"] = calleeOf(FD);
        json::Array a;
        unsigned first = 0;
        if (isa<CXXMethodDecl>(FD) && !cast<CXXMethodDecl>(FD)->isStatic() && OC->getNumArgs() > 0) {
          o["obj"] = X(OC->getArg(0));
          first    = 1;
        }
        for (unsigned i = first; i < OC->getNumArgs(); i++)
          a.push_back(X(OC->getArg(i)));
        o["a"] = std::move(a);
      } else {
        json::Array a;
        for (auto* arg : OC->arguments())
          a.push_back(X(arg));
        o["a"] = std::move(a);
      }
    } else if (auto* CE = dyn_cast<CallExpr>(S)) {
      o["k"] = "Call";
      o["l"] = lineOf(CE->getExprLoc());
      if (auto* FD = CE->getDirectCallee())
        o["c"] = calleeOf(FD);
      else
        o["callee"] = X(CE->getCallee());
      json::Array a;
      for (auto* arg : CE->arguments())
        a.push_back(X(arg));
      o["a"] = std::move(a);
      if (auto* FD = CE->getDirectCallee())
        if (FD->getBuiltinID() == 0 && FD->isConstexpr())
          addConst(o, CE);
    } else if (auto* CC = dyn_cast<CXXConstructExpr>(S)) {
      o["k"] = "New0"; // construction of an object (no allocation)
      o["l"] = lineOf(CC->getExprLoc());
      o["c"] = calleeOf(CC->getConstructor());
      json::Array a;
      for (auto* arg : CC->arguments())
        a.push_back(X(arg));
      o["a"] = std::move(a);
    } else if (auto* IC = dyn_cast<CXXInheritedCtorInitExpr>(S)) {
      o["k"] = "New0";
      o["c"] = calleeOf(IC->getConstructor());
      o["a"] = json::Array();
    } else if (auto* N = dyn_cast<CXXNewExpr>(S)) {
      o["k"]  = "New";
      o["l"]  = lineOf(N->getExprLoc());
      o["ty"] = typeId(N->getAllocatedType());
      json::Array a;
      if (N->getInitializer())
        a.push_back(X(N->getInitializer()));
      if (N->isArray() && N->getArraySize())
        o["n"] = X(*N->getArraySize());
      o["a"] = std::move(a);
    } else if (auto* Dl = dyn_cast<CXXDeleteExpr>(S)) {
      o["k"] = "Delete";
      o["a"] = kids({Dl->getArgument()});
    } else if (auto* LE = dyn_cast<LambdaExpr>(S)) {
      o["k"]  = "Lambda";
      o["fn"] = fnKey(LE->getCallOperator());
      json::Array caps;
      for (auto& c : LE->captures()) {
        json::Object co;
        if (c.capturesThis())
          co["n"] = "this";
        else if (c.capturesVariable())
          co["n"] = c.getCapturedVar()->getNameAsString();
        co["byref"] = c.getCaptureKind() == LCK_ByRef;
        caps.push_back(std::move(co));
      }
      o["caps"] = std::move(caps);
      json::Array inits;
      for (auto* ci : LE->capture_inits())
        inits.push_back(X(ci));
      o["a"] = std::move(inits);
      emitFunction(LE->getCallOperator());
    } else if (auto* T = dyn_cast<CXXThrowExpr>(S)) {
      o["k"] = "Throw";
      o["a"] = kids({T->getSubExpr()});
    } else if (auto* IL = dyn_cast<InitListExpr>(S)) {
      o["k"] = "InitList";
      json::Array a;
      const InitListExpr* Sem = IL->isSemanticForm() ? IL : (IL->getSemanticForm() ? IL->getSemanticForm() : IL);
      for (auto* e : Sem->inits())
        a.push_back(X(e));
      o["a"] = std::move(a);
    } else if (auto* UE = dyn_cast<UnaryExprOrTypeTraitExpr>(S)) {
      o["k"]  = "SizeOf";
      o["tk"] = (int64_t)UE->getKind();
      if (UE->isArgumentType())
        o["ty"] = typeId(UE->getArgumentType());
      else
        o["a"] = kids({UE->getArgumentExpr()});
      addConst(o, UE);
    } else if (auto* EC = dyn_cast<ExplicitCastExpr>(S)) {
      o["k"]  = "Cast";
      o["ck"] = EC->getStmtClassName();
      o["a"]  = kids({EC->getSubExpr()});
      addConst(o, EC);
    } else if (auto* DA = dyn_cast<CXXDefaultArgExpr>(S)) {
      o["k"] = "DefArg";
      o["a"] = kids({DA->getExpr()});
    } else if (auto* DI = dyn_cast<CXXDefaultInitExpr>(S)) {
      o["k"] = "DefInit";
      o["a"] = kids({DI->getExpr()});
    } else if (isa<CXXScalarValueInitExpr>(S) || isa<ImplicitValueInitExpr>(S)) {
      o["k"] = "ZeroInit";
    } else if (auto* DS = dyn_cast<DeclStmt>(S)) {
      o["k"] = "Decl";
      json::Array a;
      for (auto* D : DS->decls()) {
        json::Object d;
        if (auto* V = dyn_cast<VarDecl>(D)) {
          d["d"] = declRef(V);
          d["t"] = typeId(V->getType());
          if (V->hasInit())
            d["init"] = X(V->getInit());
          if (auto* DD = dyn_cast<DecompositionDecl>(V)) {
            json::Array bs;
            for (auto* B : DD->bindings())
              bs.push_back(B->getNameAsString());
            d["bindings"] = std::move(bs);
          }
        } else {
          d["other"] = D->getDeclKindName();
        }
        a.push_back(std::move(d));
      }
      o["decls"] = std::move(a);
    } else if (auto* R = dyn_cast<ReturnStmt>(S)) {
      o["k"] = "Return";
      o["a"] = kids({R->getRetValue()});
    } else if (auto* SE = dyn_cast<StmtExpr>(S)) {
      o["k"] = "StmtExpr";
      (void)SE;
    } else {
      o["k"] = std::string("?") + S->getStmtClassName();
      json::Array a;
      for (auto* c : S->children())
        a.push_back(X(c));
      o["a"] = std::move(a);
    }
    return json::Value(std::move(o));
  }

  // ------------------------------------------------------------------ functions
  json::Value caseLabel(const Stmt* L)
  {
    json::Object o;
    if (auto* CS = dyn_cast<CaseStmt>(L)) {
      o["k"] = "case";
      Expr::EvalResult R;
      if (CS->getLHS() && !CS->getLHS()->isValueDependent() && CS->getLHS()->EvaluateAsInt(R, Ctx))
        o["v"] = (int64_t)R.Val.getInt().getExtValue();
      if (CS->getLHS()) {
        const Expr* E = CS->getLHS()->IgnoreParenImpCasts();
        if (auto* CE = dyn_cast<ConstantExpr>(E))
          E = CE->getSubExpr()->IgnoreParenImpCasts();
        if (auto* DR = dyn_cast<DeclRefExpr>(E))
          o["n"] = qname(DR->getDecl());
      }
      if (CS->getRHS())
        o["range"] = true;
    } else if (isa<DefaultStmt>(L)) {
      o["k"] = "default";
    } else if (auto* CT = dyn_cast<CXXCatchStmt>(L)) {
      o["k"] = "catch";
      if (CT->getExceptionDecl()) {
        o["ty"] = typeId(CT->getCaughtType());
        o["n"]  = CT->getExceptionDecl()->getNameAsString();
      } else
        o["all"] = true;
    } else if (auto* LS = dyn_cast<LabelStmt>(L)) {
      o["k"] = "label";
      o["n"] = LS->getName();
    } else {
      o["k"] = L->getStmtClassName();
    }
    return json::Value(std::move(o));
  }

  void emitFunction(const FunctionDecl* FD)
  {
    if (!FD || !FD->doesThisDeclarationHaveABody())
      return;
    if (FD->isDependentContext())
      return;
    if (!inRepo(FD->getLocation()))
      return;
    if (!SeenFn.insert(FD).second)
      return;
    const Stmt* Body = FD->getBody();
    if (!Body)
      return;

    json::Object f;
    f["key"]  = fnKey(FD);
    f["q"]    = fnQName(FD);
    f["file"] = fileOf(FD->getLocation());
    f["line"] = lineOf(FD->getLocation());
    f["endline"] = lineOf(Body->getEndLoc());
    f["ret"]  = typeId(FD->getReturnType());
    if (FD->getTemplateSpecializationArgs() || FD->getTemplateInstantiationPattern())
      f["inst"] = true;
    json::Array params;
    for (auto* P : FD->parameters()) {
      json::Object p;
      p["n"] = P->getNameAsString();
      p["t"] = typeId(P->getType());
      params.push_back(std::move(p));
    }
    f["params"] = std::move(params);
    if (auto* MD = dyn_cast<CXXMethodDecl>(FD)) {
      const CXXRecordDecl* RD = MD->getParent();
      f["cls"]                = RD->isLambda() ? std::string("<lambda>") : qname(RD);
      f["kind"]               = isa<CXXConstructorDecl>(MD)  ? "ctor"
                                : isa<CXXDestructorDecl>(MD) ? "dtor"
                                : RD->isLambda()             ? "lambda"
                                                             : "method";
      if (MD->isVirtual())
        f["virtual"] = true;
      if (MD->isStatic())
        f["static"] = true;
      if (MD->isConst())
        f["const"] = true;
      json::Array ov;
      for (auto* O : MD->overridden_methods())
        ov.push_back(fnKey(O));
      if (!ov.empty())
        f["overrides"] = std::move(ov);
      if (RD->isLambda()) {
        // which function encloses this lambda
        const DeclContext* DC = RD->getDeclContext();
        while (DC && !isa<FunctionDecl>(DC) && !DC->isTranslationUnit())
          DC = DC->getParent();
        if (DC && isa<FunctionDecl>(DC))
          f["parent"] = fnKey(cast<FunctionDecl>(DC));
      }
    } else {
      f["kind"] = "fn";
    }

    CFG::BuildOptions BO;
    BO.AddInitializers              = true;
    BO.AddCXXDefaultInitExprInCtors = true;
    BO.PruneTriviallyFalseEdges     = true;
    std::unique_ptr<CFG> G = CFG::buildCFG(FD, const_cast<Stmt*>(Body), &Ctx, BO);
    if (!G) {
      f["nocfg"] = true;
      line("F", fnKey(FD), std::move(f));
      return;
    }
    // pass 1: number elements
    std::map<const Stmt*, int> emap;
    int nelem = 0;
    for (auto* B : *G) {
      for (auto& El : *B) {
        if (auto CS = El.getAs<CFGStmt>()) {
          emap[CS->getStmt()] = nelem;
          if (auto* EE = dyn_cast<Expr>(CS->getStmt())) {
            const Expr* SE = strip(EE);
            if (SE && SE != EE && !emap.count(SE))
              emap[SE] = nelem;
          }
        }
        nelem++;
      }
    }
    auto* savedMap  = ElemMap;
    auto* savedElem = CurElem;
    int savedId     = CurId;
    ElemMap         = &emap;
    json::Array elems;
    json::Array blocks;
    // blocks are emitted by id
    std::vector<const CFGBlock*> byId(G->getNumBlockIDs(), nullptr);
    for (auto* B : *G)
      byId[B->getBlockID()] = B;
    // element ids must follow the numbering of pass 1 (iteration order of *G)
    std::map<const CFGBlock*, std::vector<int>> blockElems;
    {
      int id = 0;
      for (auto* B : *G) {
        for (auto& El : *B) {
          json::Object e;
          e["b"] = (int64_t)B->getBlockID();
          if (auto CS = El.getAs<CFGStmt>()) {
            const Stmt* S = CS->getStmt();
            CurElem       = S;
            CurId         = id;
            e["x"]        = X(S, true);
            e["l"]        = lineOf(S->getBeginLoc());
            std::string m = macroOf(S->getBeginLoc());
            if (!m.empty())
              e["m"] = m;
          } else if (auto CI = El.getAs<CFGInitializer>()) {
            const CXXCtorInitializer* I = CI->getInitializer();
            json::Object x;
            x["k"] = "CtorInit";
            if (I->isAnyMemberInitializer() && I->getAnyMember())
              x["d"] = declRef(I->getAnyMember());
            else if (I->isBaseInitializer())
              x["base"] = typeId(QualType(I->getBaseClass(), 0));
            else if (I->isDelegatingInitializer())
              x["delegating"] = true;
            CurElem = nullptr;
            CurId   = -1;
            json::Array a;
            a.push_back(X(I->getInit()));
            x["a"] = std::move(a);
            e["x"] = std::move(x);
            e["l"] = lineOf(I->getSourceLocation());
          } else {
            json::Object x;
            x["k"] = "?elem";
            x["ek"] = (int64_t)El.getKind();
            e["x"] = std::move(x);
          }
          elems.push_back(std::move(e));
          blockElems[B].push_back(id);
          id++;
        }
      }
    }
    CurElem = nullptr;
    CurId   = -1;
    for (unsigned bid = 0; bid < byId.size(); bid++) {
      const CFGBlock* B = byId[bid];
      json::Object b;
      b["id"] = (int64_t)bid;
      if (!B) {
        blocks.push_back(std::move(b));
        continue;
      }
      json::Array el;
      for (int id : blockElems[B])
        el.push_back(id);
      b["e"] = std::move(el);
      json::Array succ;
      for (auto I = B->succ_begin(); I != B->succ_end(); ++I) {
        if (I->getReachableBlock())
          succ.push_back((int64_t)I->getReachableBlock()->getBlockID());
        else
          succ.push_back(nullptr);
      }
      b["s"] = std::move(succ);
      if (B->hasNoReturnElement())
        b["noreturn"] = true;
      if (const Stmt* L = B->getLabel())
        b["label"] = caseLabel(L);
      if (const Stmt* T = B->getTerminatorStmt()) {
        json::Object t;
        t["k"] = T->getStmtClassName();
        t["l"] = lineOf(T->getBeginLoc());
        std::string m = macroOf(T->getBeginLoc());
        if (!m.empty())
          t["m"] = m;
        if (auto* BO2 = dyn_cast<BinaryOperator>(T))
          t["op"] = BO2->getOpcodeStr().str();
        if (const Expr* C = B->getLastCondition()) {
          auto it = emap.find(C);
          if (it != emap.end())
            t["c"] = it->second;
          else {
            const Expr* SC = strip(C);
            auto it2       = emap.find(SC);
            if (it2 != emap.end())
              t["c"] = it2->second;
            else
              t["cx"] = X(C);
          }
        }
        if (auto* FR = dyn_cast<CXXForRangeStmt>(T)) {
          if (FR->getLoopVariable())
            t["var"] = declRef(FR->getLoopVariable());
          if (FR->getRangeInit())
            t["range"] = X(FR->getRangeInit());
        }
        b["t"] = std::move(t);
      }
      blocks.push_back(std::move(b));
    }
    f["entry"]  = (int64_t)G->getEntry().getBlockID();
    f["exit"]   = (int64_t)G->getExit().getBlockID();
    f["blocks"] = std::move(blocks);
    f["elems"]  = std::move(elems);
    ElemMap     = savedMap;
    CurElem     = savedElem;
    CurId       = savedId;
    line("F", fnKey(FD), std::move(f));
  }

  void emitRecord(const CXXRecordDecl* RD)
  {
    if (!RD->isThisDeclarationADefinition() || RD->isDependentContext() || RD->isLambda())
      return;
    if (!inRepo(RD->getLocation()))
      return;
    if (!SeenRec.insert(RD).second)
      return;
    json::Object c;
    c["q"]    = qname(RD);
    c["file"] = fileOf(RD->getLocation());
    c["line"] = lineOf(RD->getLocation());
    json::Array bases;
    for (auto& B : RD->bases())
      if (auto* BR = B.getType()->getAsCXXRecordDecl())
        bases.push_back(qname(BR));
    c["bases"] = std::move(bases);
    json::Array fields;
    for (auto* F : RD->fields()) {
      json::Object fo;
      fo["n"] = F->getNameAsString();
      fo["t"] = typeId(F->getType());
      if (F->hasInClassInitializer() && F->getInClassInitializer()) {
        auto* saved = ElemMap;
        ElemMap     = nullptr;
        fo["init"]  = X(F->getInClassInitializer());
        ElemMap     = saved;
      }
      fields.push_back(std::move(fo));
    }
    c["fields"] = std::move(fields);
    json::Array methods;
    for (auto* M : RD->methods()) {
      if (M->isImplicit())
        continue;
      json::Object mo;
      mo["key"] = fnKey(M);
      mo["n"]   = M->getNameAsString();
      if (M->isVirtual())
        mo["virtual"] = true;
      if (M->isPure())
        mo["pure"] = true;
      mo["access"] = (int64_t)M->getAccess();
      json::Array ov;
      for (auto* O : M->overridden_methods())
        ov.push_back(fnKey(O));
      if (!ov.empty())
        mo["overrides"] = std::move(ov);
      methods.push_back(std::move(mo));
    }
    c["methods"] = std::move(methods);
    line("C", qname(RD), std::move(c));
  }

  void emitEnum(const EnumDecl* ED)
  {
    if (!ED->isThisDeclarationADefinition() || !inRepo(ED->getLocation()))
      return;
    if (!SeenEnum.insert(ED).second)
      return;
    json::Object e;
    e["q"]    = qname(ED);
    e["file"] = fileOf(ED->getLocation());
    json::Array cs;
    for (auto* C : ED->enumerators()) {
      json::Object co;
      co["n"] = C->getNameAsString();
      co["v"] = (int64_t)C->getInitVal().getExtValue();
      cs.push_back(std::move(co));
    }
    e["consts"] = std::move(cs);
    line("E", qname(ED), std::move(e));
  }

  json::Value apv(const APValue& V, int& budget)
  {
    if (budget-- <= 0)
      return json::Value("...");
    switch (V.getKind()) {
      case APValue::Int:
        return json::Value((int64_t)V.getInt().getExtValue());
      case APValue::Float:
        return json::Value(V.getFloat().convertToDouble());
      case APValue::Array: {
        json::Array a;
        unsigned n = V.getArrayInitializedElts();
        for (unsigned i = 0; i < n; i++)
          a.push_back(apv(V.getArrayInitializedElt(i), budget));
        if (V.hasArrayFiller())
          for (unsigned i = n; i < V.getArraySize(); i++)
            a.push_back(apv(V.getArrayFiller(), budget));
        return json::Value(std::move(a));
      }
      case APValue::Struct: {
        json::Array a;
        for (unsigned i = 0; i < V.getStructNumBases(); i++)
          a.push_back(apv(V.getStructBase(i), budget));
        for (unsigned i = 0; i < V.getStructNumFields(); i++)
          a.push_back(apv(V.getStructField(i), budget));
        return json::Value(std::move(a));
      }
      default:
        return json::Value(nullptr);
    }
  }

  void emitGlobalInit(const VarDecl* VD)
  {
    if (!VD->isFileVarDecl() || !VD->hasInit() || VD->isInvalidDecl())
      return;
    if (!inRepo(VD->getLocation()))
      return;
    if (VD->getType()->isDependentType() || VD->getInit()->isValueDependent() || VD->getInit()->isTypeDependent())
      return;
    if (VD->getDeclContext()->isDependentContext())
      return;
    if (!SeenFn.insert(VD).second)
      return;
    json::Object g;
    g["q"]    = qname(VD);
    g["file"] = fileOf(VD->getLocation());
    g["line"] = lineOf(VD->getLocation());
    g["t"]    = typeId(VD->getType());
    std::string m = macroOf(VD->getLocation());
    if (!m.empty())
      g["m"] = m;
    auto* saved = ElemMap;
    ElemMap     = nullptr;
    g["init"]   = X(VD->getInit());
    ElemMap     = saved;
    line("G", qname(VD), std::move(g));
  }

  void emitVar(const VarDecl* VD)
  {
    if (!VD->isFileVarDecl() && !VD->isStaticLocal())
      return;
    if (!inRepo(VD->getLocation()) || !VD->hasInit() || VD->isInvalidDecl())
      return;
    if (VD->getType()->isDependentType() || VD->getInit()->isValueDependent())
      return;
    if (!VD->getType().isConstQualified() && !VD->isConstexpr())
      return;
    if (VD != VD->getDefinition())
      return;
    std::string f = fileOf(VD->getLocation());
    if (f.find("/src/") == std::string::npos)
      return;
    const APValue* V = VD->evaluateValue();
    if (!V)
      return;
    json::Object c;
    c["q"]    = qname(VD);
    c["file"] = f;
    c["line"] = lineOf(VD->getLocation());
    c["t"]    = typeId(VD->getType());
    int budget = 20000;
    c["v"]     = apv(*V, budget);
    line("K", qname(VD), std::move(c));
  }
};

class Visitor : public RecursiveASTVisitor<Visitor> {
public:
  Extractor& Ex;
  explicit Visitor(Extractor& E) : Ex(E) {}
  bool shouldVisitTemplateInstantiations() const { return true; }
  bool shouldVisitImplicitCode() const { return false; }
  bool VisitFunctionDecl(FunctionDecl* FD)
  {
    if (FD->isThisDeclarationADefinition())
      Ex.emitFunction(FD);
    return true;
  }
  bool VisitCXXRecordDecl(CXXRecordDecl* RD)
  {
    Ex.emitRecord(RD);
    return true;
  }
  bool VisitEnumDecl(EnumDecl* ED)
  {
    Ex.emitEnum(ED);
    return true;
  }
  bool VisitVarDecl(VarDecl* VD)
  {
    Ex.emitGlobalInit(VD);
    Ex.emitVar(VD);
    return true;
  }
  bool VisitLambdaExpr(LambdaExpr* LE)
  {
    if (!LE->getCallOperator()->isDependentContext())
      Ex.emitFunction(LE->getCallOperator());
    return true;
  }
};

class Consumer : public ASTConsumer {
public:
  void HandleTranslationUnit(ASTContext& Ctx) override
  {
    if (Ctx.getDiagnostics().hasUncompilableErrorOccurred()) {
      llvm::errs() << "sgx: compile errors, no output\n";
      return;
    }
    Extractor Ex(Ctx);
    Visitor V(Ex);
    V.TraverseDecl(Ctx.getTranslationUnitDecl());
    auto& SM = Ctx.getSourceManager();
    json::Object head;
    if (auto FE = SM.getFileEntryForID(SM.getMainFileID()))
      head["unit"] = FE->getName().str();
    json::Array types;
    for (auto& t : Ex.Types)
      types.push_back(t);
    head["types"] = std::move(types);
    json::Array tsz, tpt;
    for (auto v : Ex.TypeSz)
      tsz.push_back((int64_t)v);
    for (auto v : Ex.TypePt)
      tpt.push_back(v);
    head["tsz"] = std::move(tsz);
    head["tpt"] = std::move(tpt);
    json::Array deps;
    std::set<std::string> depset;
    for (auto it = SM.fileinfo_begin(); it != SM.fileinfo_end(); ++it) {
      std::string n = it->first->getName().str();
      if (n.rfind(gRoot, 0) == 0)
        depset.insert(n);
    }
    for (auto& n : depset)
      deps.push_back(n);
    head["deps"] = std::move(deps);
    Ex.line("T", "", std::move(head));
    std::error_code EC;
    std::string tmp = gOutPath + ".tmp";
    {
      llvm::raw_fd_ostream OS(tmp, EC);
      if (EC) {
        llvm::errs() << "sgx: cannot write " << tmp << "\n";
        return;
      }
      OS << Ex.Lines;
    }
    if (std::rename(tmp.c_str(), gOutPath.c_str()) != 0)
      llvm::errs() << "sgx: rename failed\n";
  }
};

class Action : public ASTFrontendAction {
public:
  std::unique_ptr<ASTConsumer> CreateASTConsumer(CompilerInstance&, StringRef) override
  {
    return std::make_unique<Consumer>();
  }
};

} // namespace

int main(int argc, const char** argv)
{
  if (argc < 4) {
    llvm::errs() << "usage: sgx <out.json> [--root=/repo/] -- <clang args> <file>\n";
    return 2;
  }
  gOutPath = argv[1];
  std::string overlay;
  int i    = 2;
  for (; i < argc && std::string(argv[i]) != "--"; i++) {
    std::string a = argv[i];
    if (a.rfind("--root=", 0) == 0)
      gRoot = a.substr(7);
    if (a.rfind("--overlay=", 0) == 0)
      overlay = a.substr(10);
  }
  if (i >= argc - 1)
    return 2;
  std::vector<std::string> args;
  for (int j = i + 1; j < argc - 1; j++)
    args.push_back(argv[j]);
  std::string file = argv[argc - 1];
  llvm::IntrusiveRefCntPtr<llvm::vfs::FileSystem> FS = llvm::vfs::getRealFileSystem();
  if (!overlay.empty()) {
    auto Buf = llvm::MemoryBuffer::getFile(overlay);
    if (!Buf) {
      llvm::errs() << "sgx: cannot read overlay " << overlay << "\n";
      return 2;
    }
    auto RFS = llvm::vfs::getVFSFromYAML(std::move(*Buf), nullptr, overlay, nullptr, FS);
    if (!RFS) {
      llvm::errs() << "sgx: bad overlay " << overlay << "\n";
      return 2;
    }
    llvm::IntrusiveRefCntPtr<llvm::vfs::OverlayFileSystem> Ov(new llvm::vfs::OverlayFileSystem(FS));
    Ov->pushOverlay(llvm::IntrusiveRefCntPtr<llvm::vfs::FileSystem>(std::move(RFS)));
    FS = Ov;
  }
  clang::tooling::FixedCompilationDatabase DB(".", args);
  clang::tooling::ClangTool Tool(DB, {file}, std::make_shared<PCHContainerOperations>(), FS);
  int rc = Tool.run(clang::tooling::newFrontendActionFactory<Action>().get());
  return rc;
}
