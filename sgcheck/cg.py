"""Whole-program call graph over the function IR (direct calls, class-hierarchy resolution of virtual calls, lambdas created
by a function, pseudo-nodes for calls through std::function / signals / function pointers).  Calls located in blocks that
inevitably end in a no-return call (failed assertions, xbt_die) are left out: they end the run, they do not order events."""
from . import ex
from .cfg import FnView
from .ir import AnalysisBroken

FUNCTION_OBJ = '<std::function>'
SIGNAL = '<signal>'
INDIRECT = '<indirect>'


def parse_template(t):
    """('std::map', ['K', 'V', ...]) of a canonical type string (cv-qualifiers and references stripped); (t, []) if not a template-id"""
    t = t.strip()
    for pre in ('const ', 'volatile '):
        while t.startswith(pre):
            t = t[len(pre):]
    while t.endswith(('&', '*', ' ')) and not t.endswith('>'):
        if t.endswith('*'):
            return t, []
        t = t[:-1].rstrip()
    if t.endswith(' const'):
        t = t[:-6]
    i = t.find('<')
    if i < 0 or not t.endswith('>'):
        return t, []
    name = t[:i]
    args = []
    depth = 0
    cur = ''
    for ch in t[i + 1:-1]:
        if ch == '<' or ch == '(':
            depth += 1
        elif ch == '>' or ch == ')':
            depth -= 1
        if ch == ',' and depth == 0:
            args.append(cur.strip())
            cur = ''
        else:
            cur += ch
    if cur.strip():
        args.append(cur.strip())
    return name, args


def pointer_like(t):
    t = t.strip()
    if t.startswith('const '):
        t = t[6:]
    return t.endswith('*') or t.endswith('*const') or t.endswith('* const') or \
        t.startswith(('boost::intrusive_ptr<', 'std::shared_ptr<', 'std::unique_ptr<'))


class CallGraph:
    def __init__(self, prog, skip_dead=True):
        self.prog = prog
        self.skip_dead = skip_dead
        self.out = {}      # caller key -> set(callee keys / pseudo nodes)
        self.qof = {}      # key -> qualified name (also for callees without a body)
        self._views = {}
        self._rev = None
        for key, fn in prog.fns.items():
            self.qof[key] = fn['q']
        for key, fn in prog.fns.items():
            self.out[key] = self._calls_of(fn)

    def view(self, fn):
        v = self._views.get(fn['key'])
        if v is None:
            v = FnView(fn)
            self._views[fn['key']] = v
        return v

    # -- per node ---------------------------------------------------------------------------------------------------
    def targets(self, n):
        """callee keys of one Call/New0/Lambda node"""
        k = n.get('k')
        if k == 'Lambda':
            return [n['fn']]
        c = n.get('c')
        if c is None:
            return [INDIRECT] if k == 'Call' else []
        q = c['q']
        key = c['n']
        self.qof.setdefault(key, q)
        last = q.rsplit('::', 1)[-1]
        if last == 'operator()' and q.startswith('std::function<'):
            return [FUNCTION_OBJ]
        if last == 'operator()' and q.startswith('simgrid::xbt::signal<'):
            return [SIGNAL]
        res = [key]
        if n.get('vcall') and c.get('cls'):
            for f in self.prog.overriders(c['cls'], last):
                if f['key'] != key and len(f['params']) == len(n.get('a') or ()):
                    res.append(f['key'])
        return res

    def _calls_of(self, fn, blocks=None):
        elems = fn.get('elems')
        if not elems:
            return set()
        out = set()
        live = None
        if fn.get('blocks') and (self.skip_dead or blocks is not None):
            try:
                v = self.view(fn)
                live = set()
                reach = reachable_blocks(v)
                for b in v.blocks:
                    if b['id'] not in reach:
                        continue     # statically pruned by clang (e.g. log levels compiled out)
                    if blocks is not None and b['id'] not in blocks:
                        continue
                    if self.skip_dead and v.dead(b['id']):
                        continue
                    live.update(b.get('e', []))
            except AnalysisBroken:
                live = None
        for eid, el in enumerate(elems):
            if live is not None and eid not in live:
                continue
            for n in ex.walk(el['x']):
                if n.get('k') in ('Call', 'New0', 'Lambda'):
                    out.update(self.targets(n))
        if live is None and blocks is None:
            pass
        return out

    def calls_in_blocks(self, fn, blocks):
        return self._calls_of(fn, blocks=set(blocks))

    # -- reachability -----------------------------------------------------------------------------------------------
    def rev(self):
        if self._rev is None:
            r = {}
            for a, bs in self.out.items():
                for b in bs:
                    r.setdefault(b, set()).add(a)
            self._rev = r
        return self._rev

    def reaching(self, targets):
        """all keys from which some key of `targets` is reachable (targets included)"""
        r = self.rev()
        seen = set(targets)
        work = list(targets)
        while work:
            x = work.pop()
            for y in r.get(x, ()):  # noqa
                if y not in seen:
                    seen.add(y)
                    work.append(y)
        return seen

    def path_to(self, start_keys, targets, limit=12):
        """one shortest call chain from any of start_keys to a key in targets (list of keys) or None"""
        targets = set(targets)
        prev = {}
        work = list(start_keys)
        for s in work:
            prev[s] = None
        i = 0
        while i < len(work):
            x = work[i]
            i += 1
            if x in targets:
                chain = []
                while x is not None:
                    chain.append(x)
                    x = prev[x]
                return list(reversed(chain))[:limit]
            for y in sorted(self.out.get(x, ())):
                if y not in prev:
                    prev[y] = x
                    work.append(y)
        return None

    def keys_named(self, pred):
        return set(k for k, q in self.qof.items() if pred(q))


def reachable_blocks(view):
    seen = set()
    work = [view.fn['entry']]
    while work:
        x = work.pop()
        if x in seen:
            continue
        seen.add(x)
        work.extend(view.succs(x))
    return seen


def dominators(view):
    """block id -> set of dominating block ids (reachable blocks only)"""
    d = getattr(view, '_dom', None)
    if d is not None:
        return d
    reach = reachable_blocks(view)
    entry = view.fn['entry']
    preds = {b: set() for b in reach}
    for b in reach:
        for s_ in view.succs(b):
            if s_ in reach:
                preds[s_].add(b)
    dom = {b: set(reach) for b in reach}
    dom[entry] = {entry}
    order = sorted(reach, reverse=True)      # clang numbers blocks in reverse: high ids first is close to reverse post-order
    changed = True
    while changed:
        changed = False
        for b in order:
            if b == entry:
                continue
            ps = [dom[p_] for p_ in preds[b]]
            nd = set.intersection(*ps) if ps else set()
            nd = nd | {b}
            if nd != dom[b]:
                dom[b] = nd
                changed = True
    view._dom = dom
    view._preds = preds
    return dom


def natural_loop(view, head):
    """blocks of the natural loop(s) whose header is `head` (header excluded): the sources of the back edges into `head` and every
    block that reaches them without passing through `head`"""
    dom = dominators(view)
    preds = view._preds
    if head not in dom:
        return set()
    tails = [p_ for p_ in preds.get(head, ()) if head in dom.get(p_, ())]
    body = set()
    work = list(tails)
    while work:
        x = work.pop()
        if x in body or x == head:
            continue
        body.add(x)
        work.extend(preds.get(x, ()))
    return body
