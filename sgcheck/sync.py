"""Helpers shared by the synchronisation properties (C04-C07, C14)."""
from . import ex, lib
from .core import where
from .ir import AnalysisBroken


def lambda_kernel_seqs(ctx, fn, wanted):
    """per normal path of fn: the sequence of calls (short name, pretty args) made inside the lambdas created on that path,
    restricted to callees whose qualified name is in `wanted`"""
    P, A = ctx.prog, ctx.analyzer
    v = A.view(fn)
    seqs = []
    for p in v.paths():
        if p.exit in ('noreturn', 'cut', 'throw'):
            continue
        evs = v.path_events(p)
        seq = []
        conds = []
        for e in evs:
            if e.kind == 'branch':
                conds.append((e.atom, e.pol))
            if e.kind == 'lambda':
                lf = P.fns.get(e.key)
                if lf is None:
                    raise AnalysisBroken('lambda body %s not found' % e.key)
                lv = A.view(lf)
                lps = [lp for lp in lv.paths() if lp.exit not in ('noreturn', 'cut', 'throw')]
                if len(lps) != 1:
                    # several paths in a lambda: take each call that is on all of them, in order of the first path
                    pass
                for lp in lps[:1]:
                    for le in lv.path_events(lp):
                        if le.kind == 'call' and le.q in wanted:
                            seq.append((le.q.rsplit('::', 1)[-1], tuple(ex.pretty(a) for a in le.args)))
        seqs.append((tuple(conds), tuple(seq)))
    return seqs


def arming_guards(ctx, rule, fn, timeout_parm, is_arming, label):
    """R 'sentinel': every event that arms a timeout must be reached exactly under `timeout >= 0` (P8 normal form
    `timeout < 0` false); returns number of arming sites decided"""
    A = ctx.analyzer
    v = A.view(fn)
    lt0 = ('bin', '<', timeout_parm, ('int', 0))
    lt0f = ('bin', '<', timeout_parm, ('float', 0.0))
    le0 = ('bin', '<=', timeout_parm, ('int', 0))
    le0f = ('bin', '<=', timeout_parm, ('float', 0.0))
    n = 0
    seen = set()
    for p in v.paths():
        if p.exit in ('noreturn', 'cut'):
            continue
        evs = v.path_events(p)
        for ev, facts in lib.facts_walk(evs):
            if is_arming(ev):
                if ev.line in seen:
                    continue
                seen.add(ev.line)
                n += 1
                ge0 = facts.get(lt0) is False or facts.get(lt0f) is False
                gt0 = facts.get(le0) is False or facts.get(le0f) is False
                if ge0:
                    ctx.holds(rule, '%s: timeout armed under timeout >= 0' % label, where(fn, ev.line), repr(ev))
                elif gt0:
                    ctx.violation(rule, '%s: timeout armed only under timeout > 0' % label, where(fn, ev.line),
                                  'a timeout of exactly 0 ("expires now", the value the S4U layer maps negative condvar timeouts to) is treated as "no timeout": '
                                  'the wait then blocks until granted; ActivityImpl::wait_for arms for timeout >= 0', key='%s|%s|timeout 0 not armed' % (rule, label))
                else:
                    ctx.unrecognised(rule, '%s: arming site at line %s is not guarded by a comparison of the timeout with 0' % (label, ev.line))
    return n
