"""Registry of claimed properties: what each check decides (feeds MANIFEST.json via tools/mkmanifest.py)."""

# id -> (technique, level text, level note, DESIGN ref)
CLAIMED = {
    'C04': ('path-sensitive CFG rules (guard dominance, co-update, container discipline, guard truth table) over clang AST/CFG',
            'Every path of MutexImpl::{lock_async,try_lock,unlock}, MutexAcquisitionImpl::wait_for, s4u::Mutex::lock and the '
            'sthread_mutex_* wrappers is enumerated from the clang CFG and checked against 8 structural rules (owner guard, single '
            'owner, FIFO queue discipline, owner/depth co-update, try_lock truth table, grant wakes the blocked owner, MC/non-MC '
            'agreement, sthread forwarding). A rule over all paths of the function holds for every program and schedule that can '
            'call it, which the fixed test scenarios cannot give.',
            'Trusts clang 14 AST/CFG and the real build flags; loops are unrolled once; pthread symbol interposition (link time) is not analysed.',
            'DESIGN.md §3 C04'),
    'C43': ('table extraction and agreement: per Transition::Type, Channel::pack<T> sequence of the writer paths vs Channel::unpack<T> sequence of the reader constructor (clang AST/CFG)',
            'For each of the ~30 transition types, every path of the observer serialize() that can pack it (helpers inlined, loops unrolled identically on both sides, '
            'paths specialised by the type value) yields a field sequence; it must equal, in length, order, size and kind, the unpack sequence of the constructor that '
            'deserialize_transition selects for that type. Covers all observer/transition classes at once, including those no test exercises under the model checker.',
            'Type constants reaching an observer are those passed literally to its constructor in units that name the observer class; signedness differences are notes only.',
            'DESIGN.md §3 C43'),
    'C46': ('affine conservation (Karr-style equalities) along every interprocedural CFG path, who-may-write, dataflow identity',
            'Every path of File::write/seek/unlink/move/constructor (update_position and simcall lambdas inlined, parameters bound by value) is interpreted over affine '
            'expressions of the entry values; at each normal exit delta(used size) must equal delta(file size), unlink must give back exactly size_, read must request '
            'min(size, size_-position), and every size change must rewrite the content entry. A per-operation identity on all paths implies the accounting invariant '
            'for every sequence of operations.',
            'Disk::read/write results are opaque amounts; unsigned wrap-around not modelled; the used size has no writer other than incr/decr_used_size and parse_content (checked).',
            'DESIGN.md §3 C46'),
    'C05': ('affine token conservation per CFG path, who-may-write, container discipline, guard dominance with linear normal form, sibling agreement',
            'Every path of SemaphoreImpl::{acquire_async,release} satisfies delta(value_)+grants = 0 resp. 1 and value_/granted_ have no other writer, so tokens granted never exceed '
            'capacity + releases for any program; the queue is inserted at the back only when no token is free and granted from the front; the timeout path of finish() cancels and '
            'moves no token; the timeout is armed exactly for timeout >= 0 (same sentinel as ActivityImpl::wait_for and the S4U layer); MC and non-MC branches run the same kernel sequence.',
            'Trusts clang AST/CFG; fairness among actors woken at the same date and the dates themselves are not decided.',
            'DESIGN.md §3 C05'),
    'C06': ('container discipline, must-pass-through on every CFG path, loop shape, guard dominance, sibling agreement of MC/non-MC branches',
            'signal grants exactly the front waiter or nothing, broadcast is the draining loop, waiting releases the mutex under the ownership assertion and enqueues at the back; '
            'every path of ConditionVariableAcquisitionImpl::finish that lets the waiter go outside MC mode passes through lock_async(..)->wait_for(..,-1) on the observer mutex, '
            'timeout path included; the timeout result/cancel pairing and the timeout>=0 sentinel (with the S4U mapping of negative durations to 0) are checked; all on every path, '
            'hence for every program and interleaving.',
            'Trusts clang AST/CFG; who gets woken among equal dates and the dates themselves are not decided.',
            'DESIGN.md §3 C06'),
    'C07': ('linear guard normal form (integer inequalities), container discipline, path rules, who-may-write',
            'The arriving actor is queued iff queue.size()+1 < expected (any equivalent spelling accepted through the linear normal form); the release path grants every queued '
            'acquisition in queue order, finishes the blocked ones, clears the queue once and grants the arriving one; granted_ has no other writer; wait_for finishes at once only '
            'when granted; MC and non-MC branches of Barrier::wait agree. Decides the group-of-n release for every n and every arrival order.',
            'Assumes expected_actors_ >= 1 (unsigned n-1 must not wrap).',
            'DESIGN.md §3 C07'),
    'C09': ('container discipline (FIFO), must-pass-through with inlining of base-class delegation, path rules on match/push exclusivity',
            'MessageQueueImpl::queue_ is inserted only at the back and searched begin()->end() with the type-equality predicate; the found element is erased exactly once; on every '
            'path of iput/iget exactly one of match/push happens and the observer gets that message; every path of MessImpl::wait_for (ActivityImpl::wait_for inlined) registers the '
            'simcall exactly once; finish stores the payload only in state DONE and answers each live registered simcall.',
            'User-level payload lifetime and the timing of puts/gets are not decided.',
            'DESIGN.md §3 C09'),
    'C18': ('who-may-write over every unit including System.hpp, pairing and must-pass-through on CFG paths, guard dominance',
            'concurrency_current_ has no writer but Element::increase/decrease_concurrency in any unit that can see it; enable_var/disable_var move every element between the '
            'enabled and disabled sets together with the matching counter update; every path of a System function that calls disable_var(v) (and every iteration of var_free) then '
            'offers the freed slots through on_disabled_var on each constraint of v; staging happens only at zero slack, enabling only under can_enable(); disable_var zeroes penalty, '
            'staged penalty and value together. These are the code-shape conditions of "limit respected, nobody starves" for every sequence of operations.',
            'The numeric slack computation and the order in which staged variables are tried are not decided.',
            'DESIGN.md §3 C18'),
    'C17': ('who-may-write over every unit including System.hpp; finite-state abstract exploration of all interprocedural CFG paths (co-update / must-pass-through)',
            'Decides the invalidation discipline that lazy=fresh needs: every solver input (variable penalty/bound, constraint bound/policy/callback/limit, element weight, '
            'enabled/disabled set membership) is written only inside the lmm classes; for every public System operation, every path (private helpers inlined, explored with a finite '
            'abstract state instead of a sample of scenarios) that writes an input raises modified_ and reaches update_modified_cnst_set* unless the variable is disabled or has no '
            'element on that path; solve() resets modified_ and clears the modified set only after do_solve(); visit stamps are compared with the current counter.',
            'Does not decide that the solved values are equal; pre-solve setters (set_sharing_policy, unshare, set_concurrency_limit, Variable::initialize) are listed exceptions.',
            'DESIGN.md §3 C17'),
    'C08': ('container discipline (FIFO), truth table of the match predicate by exhaustive evaluation of its expression tree, call-site argument rule, finite-state abstract exploration',
            'Both mailbox queues are inserted only at the back and searched begin()->end(); the match predicate extracted from the source is evaluated on all 32 assignments of its five atoms against type==wanted && (!mine||mine(..)) && (!theirs||theirs(..)) and its argument order is checked; the three consuming call sites pass remove_matching=true and the two probing ones false, and a found element is erased iff that flag; every path of isend/irecv either matches or pushes exactly once and hands that comm to the observer; copy_data copies at most once and at most min(src size, dst capacity); finish leaves the mailbox before any answer (all paths, abstractly explored).',
            'The network model timing and user-provided match/copy functions are not decided.',
            'DESIGN.md §3 C08'),
    'C28': ('guard truth table from CFG path conditions (512 rows), dataflow identity on matched paths, pairing, finite-state abstract exploration of Request::start',
            'Request::match_common is turned into a boolean function of its nine comparison atoms from the path conditions of its CFG and compared on all 512 rows with the MPI rule (communicator, source or ANY_SOURCE with sender in group, tag or ANY_TAG with non-negative tag); on matching paths the real source/tag are copied from the sender exactly under the wildcards and truncation is flagged iff not a probe and smaller buffer; match_recv erases the message id and increments the received counter together and only when neither side probes; match_send/match_recv pass (sender, receiver) in the right order; in Request::start every look-ahead iprobe runs under the temporary PROBE flag, which is cleared before the real simcall on every path, and one message id is recorded per send.',
            'End-to-end ordering across the small/large mailboxes and the timing are not decided; MPI constants are taken as the literals the code compares with.',
            'DESIGN.md §3 C28'),
    'C39': ('compile-time table read from the clang constant evaluator, table/cast agreement per cell, guard dominance in the dispatcher, symmetry of case expressions',
            'The consteval 30x30 dependency LUT is read from clang and, for each of its 465 upper-triangle cells, the classes that dispatch_depends casts t1/t2 to in the selected case are compared with the classes deserialize_transition builds for those two types; the dispatcher is checked to report equal actors dependent, unwrap ANY transitions and index the table with the smaller type as row (so that only the defined triangle is read, which makes the relation symmetric by construction); every action reachable on the diagonal must be invariant under swapping t1 and t2.',
            'Does not decide that pairs declared independent really commute (that is a property of the kernel semantics).',
            'DESIGN.md §3 C39'),
    'C31': ("finite abstract evaluation of each kernel branch's element statement (orderings / truth pairs / compound operator), table extraction and agreement (op->kernel, datatype->C type size, allowed flags->branches) from clang AST/CFG and constant evaluator",
            'All 14 predefined operator globals and all ~60 predefined datatype globals are read from the source with their constant-folded flag masks and sizes; every branch of every kernel is decoded from the CFG (datatype test, C element type, loop bounds 0..*length-1, element statement) and the statement is evaluated exhaustively on the finite domain that determines the MPI result (3 orderings for MAX/MIN, 9 orderings of (value,index) for MAXLOC/MINLOC with ties to the lowest index, 4 truth pairs for LAND/LOR/LXOR, the compound operator for SUM/PROD/BAND/BOR/BXOR with complex products required to use a complex C type, memcpy for REPLACE, empty NO_OP); sizeof(C type) must equal the registered datatype size; every (op, datatype) CHECK_OP accepts must have a branch; chains end in a no-return rejection. ~1500 obligations covering every (operator, datatype) pair rather than the SUM-on-int cases the tests run.',
            'NaN/unordered floats and integer overflow are not modelled; user-defined operators and derived datatypes are outside the statement; rejection by abort (xbt_die) in the final else counts as rejection only for pairs CHECK_OP does not accept.',
            'DESIGN.md §3 C31'),
    'C27': ('table extraction and agreement: generator tuples (literal arithmetic folded), switch cases and loop shape of the unit_scale constructor expanded by the checker and compared cell by cell with the SI/IEC reference; CFG path rules (rejection paths throw, result is strtod(string)*table[unit])',
            'The four unit tables (time, size, bandwidth, speed: 145 cells) are rebuilt from the source of the tuples and of the generator constructor, not from a run, and compared with the SI/IEC reference; every path of xbt_parse_get_value_with_unit is enumerated: the out-of-range, no-digits and unknown-unit paths throw and the returning paths return the unmodified strtod result times the table entry of the text after the number (default unit when empty); each wrapper passes its own table and a default unit worth 1. This covers every unit and prefix at once, where the examples use a handful.',
            'strtod and unordered_map::emplace/find are trusted (emplace keeps the first value: duplicates must agree, checked); locale is assumed C; the reference table is embedded in the checker and listed in the evidence assumptions.',
            'DESIGN.md §3 C27'),
    'C01': ('whole-library call graph (class-hierarchy resolution, lambdas, std::function/signal pseudo-nodes) + container-type classification: reachability from every address-ordered traversal to order-observable effects; declaration rule on heap comparators; container discipline on the run queues; who-may-call on ambient nondeterminism sources',
            'Over all 350 library units (9300 functions): every range-for, begin()/top() access or algorithm call over a container whose iteration order is a function of addresses (std::set/map keyed by raw or smart pointers with the default comparator, unordered containers keyed by pointers, heaps ordering pointer-carrying pairs generically), including orders copied into a local sequence that is traversed later, is located in the S4U core (src/kernel, src/s4u, src/xbt and their headers) and its loop body must not reach, in the call graph, a function that makes the order observable (run-queue insertion, simcall answer, signals, user callbacks, timers, action heap, LMM variable creation/expansion, resource events, activity finish/cancel/suspend/resume, actor kill, logging). Every heap declared in that scope must break ties without addresses; the run queues are only appended/swapped/cleared and simcalls handled by one forward loop; no wall-clock/random/pid source is called outside an enumerated list. A rule on code shape holds for every program and every address-space layout, which running a scenario once cannot show.',
            'Calls through std::function/signals/function pointers are unknown user code (treated as observable); implicit destructor calls are not in the call graph; a user-defined comparator or operator< that itself compares pointers is not recognised; plugins, DAG loaders, SMPI and tracing are analysed as callees only (their own traversals are listed as notes, not decided); floating-point reproducibility is not decided.',
            'DESIGN.md §3 C01'),
    'C10': ('CFG path rules and finite-state abstract exploration along the failure chain: must-pass-through (turn_off -> cancel_actions, run() -> handle_ended_actions, drains), guard truth table (cancel_actions state filter), exhaustiveness of the failure-state switch of every finish(), overwritten-state and sibling null-check contradiction rules',
            'Each link of the chain from a resource failure to the exception in the waiting actor is decided on all paths of the code that implements it: every Resource::turn_off override marks the resource off and fails its actions; cancel_actions fails exactly the INITED/STARTED/IGNORED actions of every variable of the constraint; EngineImpl::run handles ended actions after every sub-round and every timer batch, and handle_ended_actions drains failed and done actions of every model and finishes their activities; Comm/Exec/Io/Sleep/Mess finish() answer each live registered simcall exactly once, have a case storing an exception for every failure state the class can be put in, never kill the waiter instead, compute a failure state from a dead host/disk and never overwrite it; HostImpl::turn_off kills every hosted actor, exit() cancels and finishes what the victim waits for, on_exit callbacks get wannadie(); the issuer returned by unregister_first_simcall is null-tested before use in every finish(). Holds for every program, failure date and set of participants.',
            'Dates of the reports and global liveness are not decided; the CpuTi model is a recorded finding; the model-checking branch of ConditionVariableAcquisitionImpl::finish is a listed exception (reason in the checker).',
            'DESIGN.md §3 C10'),
    'C13': ('who-may-call / who-may-write over every unit that names the dependency members, guard dominance (forward must-dataflow of branch facts), container discipline, CFG path rules on release_dependencies and on every assignment setter',
            "do_start() has a single call site, in Activity::start, dominated by dependencies_solved() && is_assigned() (and dependencies_solved is dependencies_.empty()); the dependency set is erased only by release_dependencies/remove_successor and filled only by add_successor, release_dependencies is reached only under state == FINISHED in complete() and for detached DONE comms in CommImpl::finish; its loop erases this from each successor's set, starts the successor iff that set became empty and pops it; add/remove_successor update both sides on the same path; the seven S4U setters that write a field read by is_assigned() call start() on every path on which state_ may be STARTING. Together these are the code-shape conditions of 'starts only after all predecessors finished successfully and as soon as assigned', for every DAG and assignment order.",
            "Start dates and the DAG loaders are not decided; Comm/Io size-0 'cannot start yet' paths are an accepted idiom (the user must call start()); Task (s4u::Task tokens) is a different mechanism and not covered.",
            'DESIGN.md §3 C13'),
    'C12': ('CFG path rules with dataflow identity (timer date), guard truth table of the timeout callback, finite-state abstract exploration (disarming), exception-handler analysis, sibling rule on simcall registration (base-class delegation inlined)',
            "The timer of ActivityImpl::wait_for / wait_any_for is armed exactly for timeout >= 0 with date get_clock()+timeout and kept in the simcall's timeout_cb_; the timeout callback of wait_for times out only on paths that excluded a model action FINISHED or FAILED at the deadline (completion at the deadline counts as completed) and then unregisters, reports true and answers; completion disarms the timer in unregister_first_simcall; wait_for_or_cancel cancels inside its TimeoutException handler; the wait_any_for timeout unregisters the simcall from every activity and answers -1, which ActivitySet::wait_any_for maps to TimeoutException; all nine wait_for overrides register exactly one simcall per path; the S4U layer passes the user timeout unchanged and throws iff the simcall returns true. These hold for every timeout value and every completion date.",
            'That Timer::set fires at its date is C03; the relative order of a timer and an action ending at the same date is the one of EngineImpl::run (timers first), assumed; model-checking paths of wait_any_for are skipped (timeouts unsupported there, asserted by the code).',
            'DESIGN.md §3 C12'),
    'C03': ('who-may-write over every unit that can see the clock member; finite-state abstract exploration of EngineImpl::solve and ::run (guarded advance, save/restore pairing, solve argument); dataflow identity of dates/durations along the timer, kill-time and sleep chains; loop-condition normal form of Timer::execute_all',
            'EngineImpl::now_ has no writer outside EngineImpl::solve in any of the 78 units that can name it; in solve every path advances the clock only by now_ += time_delta after excluding time_delta < 0 since its last assignment, and every other write is a save/displace/restore triple closed before any exit; timers fire while clock >= date, the fired timer is the popped one, Timer::set and its template wrapper key the heap with the unmodified date; kill time and sleep durations reach Timer::set / set_max_duration unchanged (CpuCas01 only raises positive durations to the timing precision); run() never asks solve() to go beyond the next timer; finish times are stamped with the clock and copied to the activity. Valid for every program and every sequence of events.',
            'The value the models return as next event (hence the actual dates of completions) and sub-precision behaviour are not decided.',
            'DESIGN.md §3 C03'),
    'C11': ('container discipline on the on_exit vector, CFG path rules (join, kill timer, daemon set), dominator-based guard on the daemon-killing loop, finite-state abstract exploration of ActorImpl::yield, sibling agreement of suspend()/resume() (contradiction rule on null tests)',
            "on_exit callbacks are only appended, traversed only by cleanup_from_self with reverse iterators and reset under the same guard, hence run once in reverse order for every exit cause; join() finishes the sleep created with the caller's timeout both when the target is already dying and from a callback appended to the target's on_exit, and the S4U wrapper answers at once for a dead target; the kill timer calls exit() and reschedules; the daemon-killing loop is dominated by actor_list_.size() == daemons_.size() and the daemon set/flag change only together in daemonize/undaemonize; after every context switch yield() re-yields while suspended_, SleepImpl::finish re-suspends instead of answering, ActorImpl::suspend/resume visit every activity, and suspend()/resume() of each activity class agree on the null test of the model action.",
            'Dates (kill time, join timeout) are C03/C12; whether a sleep keeps elapsing while its actor is suspended is a modelling choice that is not decided.',
            'DESIGN.md §3 C11'),
    'C02': ('sibling agreement of the run_all / suspend implementations (loop shape, index chain in linear form), dataflow identity of the run list, who-may-call over all library units with guard dominance on the maestro branch',
            'The four hand-off implementations (serial thread, parallel thread, swapped sequential, swapped parallel) are decoded from their CFGs: each gives every actor of the run list exactly one turn (list order in the sequential variants: release+wait per actor; i = process_index_++ starting from 1 with the first actor resumed by run_all, next actor = run list[i] while i < count), returns to maestro only when all yielded, and maestro passes actors_to_run_ itself. simcall_handle has exactly three kinds of callers in the 350 units: the sequential loop of EngineImpl::run, the simcall entry point dominated by is_maestro(self) (every other actor takes the yield branch), and the model-checking side; no function of src/kernel/context or xbt/parmap.hpp calls simcall_handle, simcall_answer or the run-list insertion. Hence whatever factory or thread count runs the actors, the kernel sees the same sequence of simcalls.',
            'Data races in user code or in kernel counters touched from actor context and the memory ordering of the synchro primitives are not decided; raw and boost differ only by the stack switch; exactly-once hand-out by the parallel map is C49.',
            'DESIGN.md §3 C02'),
}

NOT_APPLICABLE = {
    'C15': 'capacity inequalities over floating-point rates produced by iterative filling; no code-shape clause implies them',
    'C21': 'conservation of work and load <= capacity over time are numeric integrals of solver output',
    'C22': 'profile dates and piecewise integration are runtime arithmetic; the only shape clause is part of C03',
    'C26': 'torus/fat-tree/dragonfly routes are index arithmetic over runtime dimensions',
    'C29': 'correctness of ~100 collective algorithms is data-flow across ranks at runtime',
    'C33': 'coordinates/ranks/shift are modular arithmetic over runtime dimensions',
    'C34': 'RMA effects depend on the runtime order of requests inside epochs',
    'C38': 'soundness of DPOR/SDPOR/ODPOR/UDPOR is a property of the exploration over all programs',
    'C40': 'optimality counts equivalence classes of runtime executions',
    'C42': 'happens-before equals transitive dependency over runtime executions (clock-vector arithmetic)',
    'C44': 'set-algebra results over runtime unfoldings; iterator completeness is combinatorial',
    'C50': 'dynar/dict equivalence to list/map models is behavioural; a bounds lint would not decide the statement',
}

NOT_YET = 'static rule set designed (DESIGN.md §3) but not built yet; not claimed until the check exists'
