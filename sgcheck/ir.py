"""IR production and loading: compile database, per-unit cache, parallel extraction, de-duplicating loader.

Nothing here runs SimGrid; it only parses /repo's current sources with the real build's flags (see DESIGN.md 2.1)."""
import hashlib
import json
import os
import shlex
import subprocess
import sys
import time
from concurrent.futures import ThreadPoolExecutor

VERIF = os.path.dirname(os.path.dirname(os.path.abspath(__file__)))
REPO = os.environ.get('SG_REPO', '/repo')
BUILD = os.path.join(REPO, '_build')
CACHE = os.path.join(VERIF, '.cache', 'ir')
SGX = os.path.join(VERIF, 'sgx', 'sgx')

FALLBACK_FLAGS = ['-DBOOST_CONTEXT_DYN_LINK', '-DBOOST_CONTEXT_NO_LIB', '-Dsimgrid_EXPORTS',
                  '-I' + BUILD + '/include', '-I' + REPO + '/include', '-I/usr/include/eigen3', '-I' + BUILD,
                  '-I' + REPO, '-I' + REPO + '/src/smpi/include', '-I/usr/lib/jvm/default-java/include',
                  '-I/usr/lib/jvm/default-java/include/linux', '-isystem', '/root/miniconda/include', '-DNDEBUG']


class AnalysisBroken(Exception):
    """The analysis could not be carried out (exit 2): never a pass, never a violation."""


_resdir = None


def resource_dir():
    global _resdir
    if _resdir is None:
        _resdir = subprocess.check_output(['clang++', '-print-resource-dir'], text=True).strip()
    return _resdir


def ensure_sgx():
    src = os.path.join(VERIF, 'sgx', 'sgx.cc')
    if os.path.exists(SGX) and os.path.getmtime(SGX) >= os.path.getmtime(src):
        return
    flags = subprocess.check_output(['llvm-config-14', '--cxxflags'], text=True).split()
    cmd = ['clang++'] + flags + ['-fno-rtti', '-O1', src, '-o', SGX + '.new',
                                 '/usr/lib/llvm-14/lib/libclang-cpp.so.14', '/usr/lib/llvm-14/lib/libLLVM-14.so']
    r = subprocess.run(cmd, capture_output=True, text=True)
    if r.returncode != 0:
        raise AnalysisBroken('cannot build sgx: ' + r.stderr[-2000:])
    os.replace(SGX + '.new', SGX)


_compdb = None


def _clean_args(cmd, is_c):
    toks = shlex.split(cmd)[1:]
    out = []
    i = 0
    while i < len(toks):
        t = toks[i]
        if t in ('-o', '-MT', '-MF'):
            i += 2
            continue
        if t in ('-c', '-MD', '-MMD', '-fno-fat-lto-objects', '-funroll-loops', '-finline-functions'):
            i += 1
            continue
        if t.startswith(('-flto', '-ffile-prefix-map', '-g', '-O', '-W')):
            i += 1
            continue
        if t in ('-isystem', '-include'):
            out += [t, toks[i + 1]]
            i += 2
            continue
        if t.startswith(('-D', '-I', '-U', '-std', '-f', '-isystem', '-m', '-pthread')):
            out.append(t)
            i += 1
            continue
        if t.startswith('/repo') or t.endswith(('.cpp', '.c')):
            i += 1
            continue
        i += 1
    if not any(a.startswith('-std') for a in out):
        out.append('-std=gnu11' if is_c else '-std=gnu++20')
    return out


def compdb():
    """file -> clang argument list, for every library unit under /repo/src (unit tests excluded)."""
    global _compdb
    if _compdb is not None:
        return _compdb
    db = {}
    if os.path.exists(os.path.join(BUILD, 'build.ninja')):
        try:
            raw = subprocess.run(['ninja', '-C', BUILD, '-t', 'compdb'], capture_output=True, text=True, check=True).stdout
            for e in json.loads(raw):
                f = e['file']
                if not f.startswith(REPO + '/src/') or not f.endswith(('.cpp', '.c')):
                    continue
                if f.endswith('_test.cpp') or '/unit-tests' in f or '_unit.cpp' in f:
                    continue
                out = e.get('output', '')
                # prefer the libsimgrid object when a file is compiled several times
                if f in db and 'simgrid.dir' not in out:
                    continue
                db[f] = _clean_args(e['command'], f.endswith('.c'))
        except Exception as ex:  # fall through to the synthetic database
            sys.stderr.write('compdb: ninja failed (%s), using fallback flags\n' % ex)
            db = {}
    if not db:
        if not os.path.exists(os.path.join(BUILD, 'include', 'simgrid', 'config.h')):
            raise AnalysisBroken('no generated headers: ' + BUILD + '/include/simgrid/config.h is missing')
        for root, _, files in os.walk(REPO + '/src'):
            for fn in files:
                if fn.endswith('.cpp') and not fn.endswith('_test.cpp') and not fn.endswith('_unit.cpp'):
                    db[os.path.join(root, fn)] = FALLBACK_FLAGS + ['-std=gnu++20']
    _compdb = db
    return db


_hash_memo = {}
_overlay = {}      # /repo path -> replacement file (self-test mutants are analysed through a clang VFS overlay)
_overlay_sig = ''


def set_overlay(mapping):
    """analyse `mapping[path]` in place of /repo file `path` (nothing under /repo is touched)"""
    global _overlay, _overlay_sig
    _hash_memo.clear()
    _overlay = {}
    h = hashlib.sha256(b'v3')
    odir = os.path.join(CACHE, 'overlay')
    for k in sorted(mapping or {}):
        data = open(mapping[k], 'rb').read()
        h.update(k.encode())
        h.update(data)
        # keep a content-addressed copy so that cached overlay descriptions never point to a vanished file
        os.makedirs(odir, exist_ok=True)
        dst = os.path.join(odir, hashlib.sha256(data).hexdigest()[:20] + '_' + os.path.basename(k))
        if not os.path.exists(dst):
            with open(dst + '.%d' % os.getpid(), 'wb') as f:
                f.write(data)
            os.replace(dst + '.%d' % os.getpid(), dst)
        _overlay[k] = dst
    _overlay_sig = h.hexdigest()[:16] if _overlay else ''


def real_path(p):
    return _overlay.get(p, p)


def file_hash(p):
    h = _hash_memo.get(p)
    if h is None:
        try:
            with open(real_path(p), 'rb') as f:
                h = hashlib.sha256(f.read()).hexdigest()
        except OSError:
            h = 'missing'
        _hash_memo[p] = h
    return h


def _sgx_stamp():
    return file_hash(os.path.join(VERIF, 'sgx', 'sgx.cc'))


def _key_paths(unit, args, sig):
    k = hashlib.sha256((unit + '\0' + '\0'.join(args) + '\0' + _sgx_stamp() + '\0' + sig).encode()).hexdigest()[:24]
    base = os.path.join(CACHE, k)
    return base + '.ir', base + '.deps'


_affected_memo = {}


def cache_paths(unit, args):
    """cache entry of a unit.  Under a self-test overlay only the units that (in the unmodified tree) depend on an
    overlaid file get a separate entry; the others share the entry of the unmodified tree."""
    if not _overlay:
        return _key_paths(unit, args, '')
    mk = (unit, _overlay_sig)
    aff = _affected_memo.get(mk)
    if aff is None:
        aff = True
        if unit not in _overlay:
            _, depp = _key_paths(unit, args, '')
            try:
                deps = json.load(open(depp))
                aff = any(k in deps for k in _overlay)
            except Exception:
                aff = True
        _affected_memo[mk] = aff
    return _key_paths(unit, args, _overlay_sig if aff else '')


def is_fresh(unit, args):
    irp, depp = cache_paths(unit, args)
    if not (os.path.exists(irp) and os.path.exists(depp)):
        return False
    try:
        deps = json.load(open(depp))
    except Exception:
        return False
    for p, h in deps.items():
        if file_hash(p) != h:
            return False
    return True


def extract(unit, args):
    """run sgx on one unit; returns (ok, message)"""
    irp, depp = cache_paths(unit, args)
    os.makedirs(CACHE, exist_ok=True)
    tmp = irp + '.%d.tmp' % os.getpid()
    ovl = []
    if _overlay:
        yml = os.path.join(CACHE, 'overlay_%s.yaml' % _overlay_sig)
        if not os.path.exists(yml):
            roots = [{'name': k, 'type': 'file', 'external-contents': v} for k, v in sorted(_overlay.items())]
            import threading
            tmpy = yml + '.%d.%d' % (os.getpid(), threading.get_ident())
            with open(tmpy, 'w') as f:
                json.dump({'version': 0, 'case-sensitive': 'true', 'use-external-names': False, 'roots': roots}, f)
            os.replace(tmpy, yml)
        ovl = ['--overlay=' + yml]
    cmd = [SGX, tmp, '--root=' + REPO + '/'] + ovl + ['--'] + args + ['-w', '-resource-dir', resource_dir(), unit]
    r = subprocess.run(cmd, capture_output=True, text=True)
    if r.returncode != 0 or not os.path.exists(tmp):
        return False, (r.stderr or r.stdout)[-3000:]
    # read deps from the T record (last line)
    with open(tmp, 'rb') as f:
        f.seek(0, 2)
        size = f.tell()
        back = min(size, 4 << 20)
        f.seek(size - back)
        tail = f.read().decode('utf-8', 'replace')
    last = tail.rstrip('\n').rsplit('\n', 1)[-1]
    if not last.startswith('T\t'):
        return False, 'no T record in ' + tmp
    head = json.loads(last.split('\t', 2)[2])
    deps = {p: file_hash(p) for p in head['deps']}
    deps[unit] = file_hash(unit)
    with open(depp + '.tmp%d' % os.getpid(), 'w') as f:
        json.dump(deps, f)
    os.replace(tmp, irp)
    os.replace(depp + '.tmp%d' % os.getpid(), depp)
    return True, ''


def refresh(units, jobs=16, verbose=False):
    """make sure the IR of `units` is up to date with /repo's working tree; returns count of re-extracted units"""
    ensure_sgx()
    db = compdb()
    todo = []
    for u in units:
        if u not in db:
            raise AnalysisBroken('unit %s is not in the compilation database' % u)
        if not is_fresh(u, db[u]):
            todo.append(u)
    if not todo:
        return 0
    t0 = time.time()
    errs = []
    with ThreadPoolExecutor(max_workers=jobs) as ex:
        for u, (ok, msg) in zip(todo, ex.map(lambda u: extract(u, db[u]), todo)):
            if not ok:
                errs.append((u, msg))
    if verbose:
        sys.stderr.write('sgx: %d unit(s) extracted in %.1fs\n' % (len(todo), time.time() - t0))
    if errs:
        raise AnalysisBroken('sgx failed on %d unit(s); first: %s\n%s' % (len(errs), errs[0][0], errs[0][1]))
    return len(todo)


def units_including(headers, refresh_first=True):
    """library units whose translation unit includes one of `headers` (repo-relative), from the recorded dependency lists
    of up-to-date IR files.  Sound pre-filter for who-may-write rules on members declared in those headers."""
    db = compdb()
    from .core import EXCLUDED_UNITS
    units = [u for u in sorted(db) if u not in EXCLUDED_UNITS]
    if refresh_first:
        refresh(units)
    hs = set(os.path.join(REPO, h) for h in headers)
    res = []
    for u in units:
        _, depp = cache_paths(u, db[u])
        try:
            deps = json.load(open(depp))
        except Exception:
            raise AnalysisBroken('no dependency record for ' + u)
        if hs & set(deps):
            res.append(u)
    return res


def all_units():
    return sorted(compdb().keys())


def units_mentioning(words, under=None):
    """sound pre-filter for who-may-call/write rules: units whose text or (repo) dependencies mention any of
    `words`.  A unit cannot name a member without spelling it in its own text or in a header it includes."""
    res = []
    db = compdb()
    hdr_hit = {}
    for u in sorted(db):
        if under and not any(u.startswith(REPO + '/' + p) for p in under):
            continue
        try:
            txt = open(real_path(u), errors='replace').read()
        except OSError:
            continue
        if any(w in txt for w in words):
            res.append(u)
    return res


class Fn(dict):
    """function record; self['types'] is the unit's type table"""
    __slots__ = ('types', 'tsz', 'tpt')

    def sizeof(self, node_or_id):
        """size in bytes of the (canonical) type of a node / type id; -1 when unknown"""
        i = node_or_id if isinstance(node_or_id, int) else node_or_id.get('t', -1)
        return self.tsz[i] if self.tsz and i is not None and 0 <= i < len(self.tsz) else -1

    def pointee(self, node_or_id):
        """type id of the pointee / referee / element type; -1 when none"""
        i = node_or_id if isinstance(node_or_id, int) else node_or_id.get('t', -1)
        return self.tpt[i] if self.tpt and i is not None and 0 <= i < len(self.tpt) else -1

    def tstr(self, node_or_id):
        i = node_or_id if isinstance(node_or_id, int) else node_or_id.get('t', -1)
        return self.types[i] if i is not None and 0 <= i < len(self.types) else ''


class Program:
    def __init__(self):
        self.fns = {}       # key -> Fn
        self.byq = {}       # qualified name -> [Fn]
        self.classes = {}   # qname -> record
        self.enums = {}
        self.consts = {}
        self.globals = {}   # qualified name -> global variable record with its initialiser tree
        self.units = []
        self.nrecords = 0
        self._sub = None

    def load(self, units):
        db = compdb()
        for u in units:
            irp, _ = cache_paths(u, db[u])
            self._load_file(irp, u)
        return self

    def _load_file(self, path, unit):
        with open(path, encoding='utf-8') as f:
            lines = f.read().split('\n')
        head = None
        for ln in reversed(lines):
            if ln.startswith('T\t'):
                head = json.loads(ln.split('\t', 2)[2])
                break
        if head is None:
            raise AnalysisBroken('bad IR file ' + path)
        types = head['types']
        tsz = head.get('tsz')
        tpt = head.get('tpt')
        self.units.append(unit)
        for ln in lines:
            if not ln:
                continue
            tag, key, js = ln.split('\t', 2)
            if tag == 'F':
                if key in self.fns:
                    continue
                fn = Fn(json.loads(js))
                fn.types = types
                fn.tsz = tsz
                fn.tpt = tpt
                self.fns[key] = fn
                self.byq.setdefault(fn['q'], []).append(fn)
                self.nrecords += 1
            elif tag == 'C':
                if key not in self.classes:
                    c = json.loads(js)
                    c['_types'] = types
                    self.classes[key] = c
            elif tag == 'E':
                if key not in self.enums:
                    self.enums[key] = json.loads(js)
            elif tag == 'G':
                if key not in self.globals:
                    g = Fn(json.loads(js))
                    g.types = types
                    g.tsz = tsz
                    g.tpt = tpt
                    self.globals[key] = g
            elif tag == 'K':
                if key not in self.consts:
                    c = json.loads(js)
                    c['_types'] = types
                    self.consts[key] = c

    # -- lookups --------------------------------------------------------------------------------------------
    def fn(self, q, nparams=None):
        """the unique function with qualified name q (AnalysisBroken if absent/ambiguous)"""
        c = self.byq.get(q, [])
        if nparams is not None:
            c = [f for f in c if len(f['params']) == nparams]
        if len(c) != 1:
            raise AnalysisBroken('anchor %s: %d definitions found (expected 1)' % (q, len(c)))
        return c[0]

    def fns_named(self, q):
        return list(self.byq.get(q, []))

    def methods_of(self, cls):
        return [f for f in self.fns.values() if f.get('cls') == cls]

    def subclasses(self, base):
        """transitive subclasses (including base) by qualified name"""
        if self._sub is None:
            self._sub = {}
            for q, c in self.classes.items():
                for b in c['bases']:
                    self._sub.setdefault(b, set()).add(q)
        out = set([base])
        work = [base]
        while work:
            b = work.pop()
            for s in self._sub.get(b, ()):  # noqa
                if s not in out:
                    out.add(s)
                    work.append(s)
        return out

    def overriders(self, cls, name):
        """definitions of method `name` in cls and its subclasses"""
        res = []
        for c in sorted(self.subclasses(cls)):
            for f in self.byq.get(c + '::' + name, []):
                res.append(f)
        return res


def load_units(units, jobs=16, verbose=False):
    refresh(units, jobs=jobs, verbose=verbose)
    return Program().load(units)


def src_units(*rel):
    return [os.path.join(REPO, r) for r in rel]
