"""Rule primitives shared by the property modules (DESIGN.md 2.3)."""
import itertools

from . import ex
from .core import where
from .ir import AnalysisBroken
from .cfg import kills as cfg_kills

SMART_WRITE = ('operator=', 'reset', 'swap')
CONTAINER_OPS = {
    # method -> class of operation on a sequence container
    'push_back': 'insert_back', 'emplace_back': 'insert_back', 'push': 'insert_back',
    'push_front': 'insert_front', 'emplace_front': 'insert_front',
    'insert': 'insert_at', 'emplace': 'insert_at',
    'front': 'read_front', 'top': 'read_front', 'back': 'read_back',
    'pop_front': 'remove_front', 'pop': 'remove_front', 'pop_back': 'remove_back',
    'erase': 'erase', 'erase_range': 'erase_range', 'remove': 'erase_value', 'remove_if': 'erase_value', 'clear': 'clear',
    'begin': 'scan', 'end': 'scan', 'cbegin': 'scan', 'cend': 'scan', 'rbegin': 'rscan', 'rend': 'rscan',
    'empty': 'query', 'size': 'query', 'operator[]': 'index', 'at': 'index', 'swap': 'swap', 'operator=': 'assign',
    'reserve': 'query', 'resize': 'resize', 'iterator_to': 'scan', 'assign': 'assign', 'splice': 'insert_at',
    'find': 'lookup', 'count': 'lookup', 'contains': 'lookup',
}


class Use:
    __slots__ = ('fn', 'eid', 'kind', 'method', 'node', 'parent', 'line', 'op', 'callee')

    def __init__(self, **kw):
        for s in self.__slots__:
            setattr(self, s, kw.get(s))

    def __repr__(self):
        return '%s %s%s in %s @%s' % (self.kind, self.method or '', self.op or '', self.fn['q'], self.line)


def class_of(prog, q):
    c = prog.classes.get(q)
    if c is None:
        raise AnalysisBroken('class %s not found' % q)
    return c


def fields(prog, cls):
    c = class_of(prog, cls)
    return [(f['n'], c['_types'][f['t']], cls + '::' + f['n']) for f in c['fields']]


def field_where(prog, cls, pred, what):
    """the unique field of cls whose (name, type) satisfies pred; AnalysisBroken otherwise (anchors are roles)"""
    c = [f for f in fields(prog, cls) if pred(f[0], f[1])]
    if len(c) != 1:
        raise AnalysisBroken('%s: expected exactly one field of %s playing this role, found %s' % (what, cls, [x[0] for x in c]))
    return c[0][2]


def field_uses(prog, fieldq, fns=None):
    """every syntactic use of a field (by resolved declaration) in the loaded program"""
    out = []
    for fn in (fns if fns is not None else prog.fns.values()):
        elems = fn.get('elems')
        if not elems:
            continue
        for eid, el in enumerate(elems):
            x = el['x']
            # cheap pre-filter
            stack = [(x, None, None)]
            while stack:
                n, parent, slot = stack.pop()
                if not isinstance(n, dict):
                    continue
                k = n.get('k')
                if k == 'Mem' and n['d'].get('n') == fieldq:
                    out.append(_classify(fn, eid, el, n, parent, slot))
                elif k == 'CtorInit' and n.get('d', {}).get('n') == fieldq:
                    out.append(Use(fn=fn, eid=eid, kind='write', node=n, parent=None, line=el.get('l', 0), op='init'))
                if n.get('obj') is not None:
                    stack.append((n['obj'], n, 'obj'))
                if n.get('callee') is not None:
                    stack.append((n['callee'], n, 'callee'))
                for i, a in enumerate(n.get('a') or ()):
                    stack.append((a, n, i))
                if k == 'Decl':
                    for d in n.get('decls', ()):
                        if d.get('init') is not None:
                            stack.append((d['init'], {'k': 'DeclInit', 'd': d}, 'init'))
        # a local reference bound to the field (`auto& q = obj->field_;`) is the field under another name: its uses are uses of the field
        for al in [u for u in out if u.fn is fn and u.kind == 'alias' and u.parent is not None]:
            dv = al.parent['d'].get('d') or {}
            name, at = dv.get('n'), dv.get('at')
            if not name:
                continue
            found = 0
            for eid, el in enumerate(elems):
                stack = [(el['x'], None, None)]
                while stack:
                    n, parent, slot = stack.pop()
                    if not isinstance(n, dict):
                        continue
                    k = n.get('k')
                    if k == 'Ref' and (n.get('d') or {}).get('n') == name and (n.get('d') or {}).get('at') == at:
                        out.append(_classify(fn, eid, el, n, parent, slot))
                        found += 1
                    if n.get('obj') is not None:
                        stack.append((n['obj'], n, 'obj'))
                    if n.get('callee') is not None:
                        stack.append((n['callee'], n, 'callee'))
                    for i, a in enumerate(n.get('a') or ()):
                        stack.append((a, n, i))
                    if k == 'Decl':
                        for d in n.get('decls', ()):
                            if d.get('init') is not None:
                                stack.append((d['init'], {'k': 'DeclInit', 'd': d}, 'init'))
            al.kind = 'query'          # the binding itself does nothing to the field; what is done through the name is listed above
            al.method = 'reference %s (%d use(s) followed)' % (name, found)
    return out


def _classify(fn, eid, el, n, parent, slot):
    line = el.get('l', 0)
    base = dict(fn=fn, eid=eid, node=n, parent=parent, line=line)
    if parent is None:
        return Use(kind='read', **base)
    pk = parent.get('k')
    if pk == 'Call' and slot == 'obj':
        c = parent.get('c') or {}
        m = c.get('q', '?').rsplit('::', 1)[-1]
        tstr = fn.tstr(n)
        if ex.is_smart(tstr):
            if m in SMART_WRITE:
                return Use(kind='write', method=m, op='=', **base)
            return Use(kind='read', method=m, **base)
        if m == 'erase' and len(parent.get('a') or ()) == 2:
            a0 = parent['a'][0]
            while isinstance(a0, dict) and a0.get('k') == 'R':
                a0 = fn['elems'][a0['r']]['x']
            while isinstance(a0, dict) and a0.get('k') in ('Cast', 'Conv', 'Ctor', 'Temp') and a0.get('a'):
                a0 = a0['a'][0]
                while isinstance(a0, dict) and a0.get('k') == 'R':
                    a0 = fn['elems'][a0['r']]['x']
            if isinstance(a0, dict) and a0.get('k') == 'Call' and (a0.get('c') or {}).get('q') in ('std::remove_if', 'std::remove'):
                m = 'remove_if'      # the erase-remove idiom
            else:
                m = 'erase_range'    # erase(first, last) removes other elements than the one found
        return Use(kind='call', method=m, callee=c.get('q'), **base)
    if pk == 'Bin' and parent.get('op') in ex.ASSIGN_OPS and slot == 0:
        return Use(kind='write', op=parent['op'], **base)
    if pk == 'Un' and parent.get('op') in ('++', '--'):
        return Use(kind='write', op=parent['op'], **base)
    if pk == 'Un' and parent.get('op') == '&':
        return Use(kind='addr', **base)
    if pk == 'Call' and isinstance(slot, int):
        c = parent.get('c') or {}
        return Use(kind='arg', callee=c.get('q'), op=str(slot), **base)
    if pk == 'New0' and isinstance(slot, int):
        c = parent.get('c') or {}
        return Use(kind='arg', callee=c.get('q'), op=str(slot), **base)
    if pk == 'DeclInit':
        d = parent['d']
        t = fn.tstr(d.get('t', -1))
        name = d.get('d', {}).get('n', '')
        if name.startswith('__range'):
            return Use(kind='iter', **base)
        if t.endswith('&') or t.endswith('&&'):
            return Use(kind='alias', method=name, **base)
        return Use(kind='read', **base)
    if pk == 'Mem':
        return Use(kind='member', method=parent['d'].get('n'), **base)
    return Use(kind='read', **base)


def facts_walk(evs):
    """iterate events with the set of branch facts {atom: truth} known to hold before each event"""
    facts = {}
    for ev in evs:
        yield ev, facts
        if ev.kind == 'branch':
            facts = dict(facts)
            facts[ev.atom] = ev.pol
        else:
            ws = cfg_kills(ev)
            if ws and facts:
                nf = {}
                for a, t in facts.items():
                    if not any(ex.mentions(a, w) for w in ws):
                        nf[a] = t
                facts = nf


def eq_atom(a, b):
    """the atom of `a == b` in canonical operand order"""
    t = ex.mkbin('==', a, b)
    return ex.atom(t)[0]


def truthy(a):
    return ('truthy', a)


def this_field(q):
    return ('field', ('this',), q)


def parm(fn, name):
    for i, p in enumerate(fn['params']):
        if p['n'] == name:
            return ('var', 'parm', name, 0)
    raise AnalysisBroken('%s has no parameter %s' % (fn['key'], name))


def parm_i(fn, i):
    if i >= len(fn['params']):
        raise AnalysisBroken('%s has no parameter #%d' % (fn['key'], i))
    return ('var', 'parm', fn['params'][i]['n'], 0)


def truth_table(view, paths, atoms, outcome, ignore_unknown=False):
    """P11.  atoms: list of atom normal forms.  outcome(path, events) -> hashable or None (ignore path).
    Returns {assignment tuple: set(outcomes)}; raises AnalysisBroken when a path branches on an atom outside `atoms`
    (after ignoring constant atoms)."""
    table = {}
    rows = list(itertools.product((False, True), repeat=len(atoms)))
    for p in paths:
        evs = view.path_events(p)
        lits = {}
        for ev in evs:
            if ev.kind == 'branch':
                if ev.atom[0] == 'truthy' and ev.atom[1][0] in ('int', 'bool'):
                    continue
                if ev.atom not in atoms and ignore_unknown:
                    continue
                if ev.atom not in atoms:
                    raise AnalysisBroken('%s branches on an atom outside the rule\'s vocabulary: %s (line %s)' %
                                         (view.fn['q'], ex.pretty(ev.atom), ev.line))
                # first decision on the path for this atom is the one that selects the path from the entry state
                lits.setdefault(ev.atom, ev.pol)
        o = outcome(p, evs)
        if o is None:
            continue
        for row in rows:
            if all(row[atoms.index(a)] == v for a, v in lits.items()):
                table.setdefault(row, set()).add(o)
    return table


def calls(evs, *names, last=None):
    """call events whose callee qualified name (or last component) matches"""
    for ev in evs:
        if ev.kind != 'call':
            continue
        if ev.q in names or (ev.q.rsplit('::', 1)[-1] in names):
            yield ev


def fmt_path(evs, limit=12):
    s = [('%s: %r' % (e.line, e)) for e in evs if e.kind in ('branch', 'assign', 'incdec', 'call', 'return', 'case')]
    if len(s) > limit:
        s = s[:limit // 2] + ['...'] + s[-limit // 2:]
    return ' ; '.join(s)


def enum_values(prog, q):
    e = prog.enums.get(q)
    if e is None:
        raise AnalysisBroken('enum %s not found' % q)
    return {c['n']: c['v'] for c in e['consts']}


# ---- P12 affine conservation --------------------------------------------------------------------------------------------
class Affine:
    """affine expression over symbols: {symbol: coefficient}; the symbol 1 is the constant term"""
    __slots__ = ('c',)

    def __init__(self, c=None):
        self.c = {k: v for k, v in (c or {}).items() if v != 0}

    @staticmethod
    def const(v):
        return Affine({1: v})

    @staticmethod
    def sym(s):
        return Affine({s: 1})

    def __add__(self, o):
        c = dict(self.c)
        for k, v in o.c.items():
            c[k] = c.get(k, 0) + v
        return Affine(c)

    def __sub__(self, o):
        c = dict(self.c)
        for k, v in o.c.items():
            c[k] = c.get(k, 0) - v
        return Affine(c)

    def scale(self, f):
        return Affine({k: v * f for k, v in self.c.items()})

    def is_zero(self):
        return not self.c

    def is_const(self):
        return all(k == 1 for k in self.c)

    def __eq__(self, o):
        return isinstance(o, Affine) and self.c == o.c

    def __hash__(self):
        return hash(tuple(sorted(self.c.items(), key=repr)))

    def __repr__(self):
        if not self.c:
            return '0'
        parts = []
        for k, v in sorted(self.c.items(), key=lambda kv: repr(kv[0])):
            name = '' if k == 1 else (ex.pretty(k[1]) + "'" * 0 if isinstance(k, tuple) and k[0] == 'init' else
                                      ('<%s#%d>' % (ex.pretty(k[1]), k[2]) if isinstance(k, tuple) and k[0] == 'opaque' else str(k)))
            if k == 1:
                parts.append('%+g' % v)
            elif v == 1:
                parts.append('+' + name)
            elif v == -1:
                parts.append('-' + name)
            else:
                parts.append('%+g*%s' % (v, name))
        s = ' '.join(parts)
        return s[1:] if s.startswith('+') else s


class AffineInterp:
    """evaluates the events of one (interprocedural, by-value) path over affine expressions.
    env maps lvalue normal forms to Affine; reading an unassigned lvalue yields the symbol ('init', lvalue)."""

    def __init__(self):
        self.env = {}
        self.nopaque = 0
        self.opaque_memo = {}

    def fresh(self, nf):
        self.nopaque += 1
        return Affine.sym(('opaque', nf, self.nopaque))

    def read(self, lv):
        v = self.env.get(lv)
        if v is None:
            v = Affine.sym(('init', lv))
        return v

    def eval(self, t):
        k = t[0]
        if k == 'int':
            return Affine.const(t[1])
        if k == 'float' and float(t[1]).is_integer():
            return Affine.const(int(t[1]))
        if k in ('field', 'var'):
            return self.read(t)
        if k == 'cast':
            return self.eval(t[2])
        if k == 'conv':
            return self.eval(t[2])
        if k == 'bin':
            op = t[1]
            if op == '+':
                return self.eval(t[2]) + self.eval(t[3])
            if op == '-':
                return self.eval(t[2]) - self.eval(t[3])
            if op == '*':
                a, b = self.eval(t[2]), self.eval(t[3])
                if a.is_const():
                    return b.scale(a.c.get(1, 0))
                if b.is_const():
                    return a.scale(b.c.get(1, 0))
        if k == 'un' and t[1] == '-':
            return self.eval(t[2]).scale(-1)
        # anything else is an opaque value; the same term evaluated in the same state denotes the same value
        key = (t, tuple(sorted(((repr(a), repr(b)) for a, b in self.env.items() if mentions_any(t, a)))))
        v = self.opaque_memo.get(key)
        if v is None:
            v = self.fresh(t)
            self.opaque_memo[key] = v
        return v

    def step(self, ev):
        if ev.kind == 'assign':
            if ev.op == '=':
                self.env[ev.lhs] = self.eval(ev.rhs)
            elif ev.op == '+=':
                self.env[ev.lhs] = self.read(ev.lhs) + self.eval(ev.rhs)
            elif ev.op == '-=':
                self.env[ev.lhs] = self.read(ev.lhs) - self.eval(ev.rhs)
            else:
                self.env[ev.lhs] = self.fresh(('bin', ev.op, ev.lhs, ev.rhs))
        elif ev.kind == 'incdec':
            d = Affine.const(1 if ev.op == '++' else -1)
            self.env[ev.lhs] = self.read(ev.lhs) + d
        elif ev.kind == 'enter' and ev.lhs:
            vals = [self.eval(a) for a in ev.args]
            for pv, val in zip(ev.lhs, vals):
                self.env[pv] = val


def mentions_any(t, lv):
    return ex.mentions(t, lv)


# ---- P8 linear guard normal form ---------------------------------------------------------------------------------------------
def linear_form(t, leaf=None):
    """(coeffs: {term: int}, const) of an integer expression built from +, -, literals, casts and opaque leaves; None if
    not linear (multiplication by a literal is accepted)"""
    k = t[0]
    if k == 'int':
        return {}, t[1]
    if k == 'float' and float(t[1]).is_integer():
        return {}, int(t[1])
    if k in ('cast', 'conv'):
        return linear_form(t[2], leaf)
    if k == 'bin' and t[1] in ('+', '-'):
        a = linear_form(t[2], leaf)
        b = linear_form(t[3], leaf)
        if a is None or b is None:
            return None
        sgn = 1 if t[1] == '+' else -1
        c = dict(a[0])
        for x, v in b[0].items():
            c[x] = c.get(x, 0) + sgn * v
        return {x: v for x, v in c.items() if v != 0}, a[1] + sgn * b[1]
    if k == 'bin' and t[1] == '*':
        a = linear_form(t[2], leaf)
        b = linear_form(t[3], leaf)
        if a is None or b is None:
            return None
        if not a[0]:
            return {x: v * a[1] for x, v in b[0].items()}, b[1] * a[1]
        if not b[0]:
            return {x: v * b[1] for x, v in a[0].items()}, a[1] * b[1]
        return None
    if k == 'un' and t[1] == '-':
        a = linear_form(t[2], leaf)
        if a is None:
            return None
        return {x: -v for x, v in a[0].items()}, -a[1]
    if k in ('field', 'var', 'call'):
        return {t: 1}, 0
    return None


def int_lt0(atom_, pol):
    """normalise an integer comparison atom with polarity to `L < 0` (returns (coeffs frozenset, const)) using
    a <= b  <=>  a - b - 1 < 0 and !(L < 0) <=> -L - 1 < 0; None if not a linear comparison"""
    if atom_[0] != 'bin' or atom_[1] not in ('<', '<=', '=='):
        return None
    if atom_[1] == '==':
        return None
    a = linear_form(atom_[2])
    b = linear_form(atom_[3])
    if a is None or b is None:
        return None
    c = dict(a[0])
    for x, v in b[0].items():
        c[x] = c.get(x, 0) - v
    k = a[1] - b[1]
    if atom_[1] == '<=':
        k -= 1
    if not pol:
        c = {x: -v for x, v in c.items()}
        k = -k - 1
    return frozenset((x, v) for x, v in c.items() if v != 0), k


# ---- boolean expression tables (P11 on expressions) -------------------------------------------------------------------------------
def bool_atoms(t, acc=None):
    """atoms of a boolean normal form built from &&, ||, !"""
    if acc is None:
        acc = []
    if t[0] == 'bin' and t[1] in ('&&', '||'):
        bool_atoms(t[2], acc)
        bool_atoms(t[3], acc)
    elif t[0] == 'not':
        bool_atoms(t[1], acc)
    else:
        a, _ = ex.atom(t)
        if a not in acc:
            acc.append(a)
    return acc


def bool_eval(t, val):
    """evaluate a boolean normal form under val: {atom: bool}"""
    if t[0] == 'bin' and t[1] == '&&':
        return bool_eval(t[2], val) and bool_eval(t[3], val)
    if t[0] == 'bin' and t[1] == '||':
        return bool_eval(t[2], val) or bool_eval(t[3], val)
    if t[0] == 'not':
        return not bool_eval(t[1], val)
    a, pol = ex.atom(t)
    return val[a] == pol


# ---- P2 guard dominance by forward must-dataflow ---------------------------------------------------------------------------------------------
def dominating_facts(A, fn, node, with_lines=False, all_blocks=False, with_preds=False):
    """facts {(atom, truth)} holding on every path from entry to the element containing `node` (P2), computed by forward dataflow on the CFG.
    with_lines: facts are (atom, truth, line of the branch); all_blocks: return (IN map, target block)"""
    v = A.view(fn)
    target = None
    for b in v.blocks:
        for eid in b.get('e', []):
            if any(n is node for n in ex.walk(fn['elems'][eid]['x'])):
                target = b['id']
    if target is None:
        return set()
    # forward must-analysis: IN[b] = intersection over predecessors of OUT[p] + edge fact (no kill: facts about fields are trusted between tests)
    preds = {}
    for b in v.blocks:
        ss = b.get('s', [])
        for i, s_ in enumerate(ss):
            if s_ is None:
                continue
            fact = None
            t = b.get('t')
            if t and len(ss) == 2 and t.get('k') != 'SwitchStmt':
                ap = v.cond_atom(b['id'])
                if ap is not None:
                    fact = (ap[0], (i == 0) == ap[1], t.get('l', 0)) if with_lines else (ap[0], (i == 0) == ap[1])
            preds.setdefault(s_, []).append((b['id'], fact))
    IN = {}
    entry = fn['entry']
    IN[entry] = set()
    changed = True
    order = sorted((b['id'] for b in v.blocks), reverse=True)
    while changed:
        changed = False
        for b in order:
            if b == entry:
                continue
            acc = None
            for p, fact in preds.get(b, ()):  # noqa
                if p not in IN:
                    continue
                s_ = set(IN[p])
                if fact:
                    s_.add(fact)
                acc = s_ if acc is None else (acc & s_)
            if acc is None:
                continue
            if IN.get(b) != acc:
                IN[b] = acc
                changed = True
    if with_preds:
        return IN, target, preds
    if all_blocks:
        return IN, target
    return IN.get(target, set())


# ---- P17 extremum-update coherence ------------------------------------------------------------------------------------------------------------
def commut_eq(a, b):
    """structural equality of two terms modulo commutativity of + and * and transparent casts"""
    if a == b:
        return True
    if a[0] in ('cast', 'conv'):
        return commut_eq(a[2], b)
    if b[0] in ('cast', 'conv'):
        return commut_eq(a, b[2])
    if a[0] == 'bin' and b[0] == 'bin' and a[1] == b[1] and a[1] in ('+', '*'):
        return (commut_eq(a[2], b[2]) and commut_eq(a[3], b[3])) or (commut_eq(a[2], b[3]) and commut_eq(a[3], b[2]))
    if a[0] == b[0] and len(a) == len(b) and a[0] in ('bin', 'idx', 'un'):
        return all(commut_eq(x, y) if isinstance(x, tuple) and x and isinstance(x[0], str) else x == y for x, y in zip(a[1:], b[1:]))
    return False


def rel_to(atom_, truth, acc):
    """relation of the other operand e to the accumulator established by a comparison atom with its truth value:
    (e, 'lt'|'le'|'gt'|'ge') or None when the atom does not compare something with `acc`"""
    if atom_[0] == 'bin' and atom_[1] == '==' and truth and acc in (atom_[2], atom_[3]):
        other = atom_[3] if atom_[2] == acc else atom_[2]
        if other[0] in ('int', 'float'):
            return other, 'eq'          # accumulator still holds its 'unset' sentinel
    if atom_[0] != 'bin' or atom_[1] not in ('<', '<='):
        return None
    if atom_[3] == acc:      # e op acc
        return atom_[2], {('<', True): 'lt', ('<', False): 'ge', ('<=', True): 'le', ('<=', False): 'gt'}[(atom_[1], truth)]
    if atom_[2] == acc:      # acc op e
        return atom_[3], {('<', True): 'gt', ('<', False): 'le', ('<=', True): 'ge', ('<=', False): 'lt'}[(atom_[1], truth)]
    return None


def extremum_updates(analyzer, fn, is_acc):
    """every update of an accumulator selected by is_acc(lhs normal form) in fn, decoded as an extremum idiom.
    Returns dicts: acc, line, form ('min-call' | 'max-call' | 'guarded' | 'plain'), stored, compared, rel, sentinel (a dominating
    test of the accumulator against a literal, e.g. `acc < 0`), eid"""
    v = analyzer.view(fn)
    out = []
    for eid in range(len(fn['elems'])):
        for e in v.events_of(eid):
            if e.kind != 'assign' or e.op != '=' or not is_acc(e.lhs) or e.eid != eid:
                continue
            acc = e.lhs
            rhs = e.rhs
            while rhs[0] in ('cast', 'conv'):
                rhs = rhs[2]
            d = {'acc': acc, 'line': e.line, 'eid': eid, 'stored': rhs, 'compared': None, 'rel': None, 'sentinel': None, 'decl': bool(e.decl)}
            if rhs[0] == 'call' and rhs[1] in ('std::min', 'std::max') and len(rhs[3]) == 2 and acc in rhs[3]:
                other = [x for x in rhs[3] if x != acc]
                d['form'] = 'min-call' if rhs[1] == 'std::min' else 'max-call'
                d['stored'] = d['compared'] = other[0] if other else acc
                d['rel'] = 'lt' if rhs[1] == 'std::min' else 'gt'
                out.append(d)
                continue
            IN, tgt, preds = dominating_facts(analyzer, fn, fn['elems'][eid]['x'], with_lines=True, with_preds=True)
            # one justification per incoming edge of the block (a short-circuit `a || b` reaches it by two edges)
            edges = []
            for p_, fact in preds.get(tgt, ()):
                if p_ not in IN:
                    continue
                fs = set(IN[p_])
                if fact:
                    fs.add(fact)
                cands = []
                for a_, t_, l_ in fs:
                    r = rel_to(a_, t_, acc)
                    if r is None:
                        continue
                    kind = 'sentinel' if r[0][0] in ('int', 'float') else 'cmp'
                    cands.append((((a_, t_, l_) == fact, l_), kind, r[0], r[1]))
                if cands:
                    cands.sort(key=lambda c: c[0])
                    _, kind, e_, rel_ = cands[-1]      # the closest test (the edge's own test wins a tie) justifies this edge
                    edges.append((kind, e_, rel_))
                else:
                    edges.append(None)
            cmps = [x for x in edges if x and x[0] == 'cmp']
            sents = [x for x in edges if x and x[0] == 'sentinel']
            d['edges'] = edges
            if cmps:
                d['form'] = 'guarded'
                d['compared'], d['rel'] = cmps[0][1], cmps[0][2]
                d['coherent_edges'] = all(commut_eq(c[1], cmps[0][1]) and c[2] == cmps[0][2] for c in cmps) and None not in edges
            elif sents:
                d['form'] = 'sentinel'
                d['coherent_edges'] = None not in edges
            else:
                d['form'] = 'plain'
            if sents:
                d['sentinel'] = (sents[0][1], sents[0][2])
            out.append(d)
    return out


# ---- guards over values touched only through comparisons: decide them on a finite set of sample points -----------------------------------------
def concrete_eval(t, env):
    """numeric value of a term under env {key(term): number} (key = variable/field name), or None"""
    k = t[0]
    if k in ('int', 'float'):
        return t[1]
    if k in ('cast', 'conv'):
        return concrete_eval(t[2], env)
    if k == 'un' and t[1] == '-':
        v = concrete_eval(t[2], env)
        return None if v is None else -v
    if k == 'un' and t[1] in ('post--', 'post++', 'pre--', 'pre++'):
        # the increment itself is an event of the path, already applied when the enclosing test is evaluated: a post-form reads the value before it
        v = concrete_eval(t[2], env)
        if v is None:
            return None
        return v + 1 if t[1] == 'post--' else (v - 1 if t[1] == 'post++' else v)
    if k == 'var':
        return env.get(t[2].rsplit('::', 1)[-1])
    if k == 'field':
        return env.get(t[2].rsplit('::', 1)[-1])
    if k == 'call' and not t[3]:
        return env.get(t[1].rsplit('::', 1)[-1])       # a getter, bound by its short name
    if k == 'bin' and t[1] in ('+', '-', '*'):
        a, b = concrete_eval(t[2], env), concrete_eval(t[3], env)
        if a is None or b is None:
            return None
        return a + b if t[1] == '+' else (a - b if t[1] == '-' else a * b)
    return None


def concrete_atom(a, env):
    """truth of a branch atom (or of a boolean combination of atoms) under env, or None when it mentions something env does not bind"""
    if a[0] == 'bin' and a[1] in ('&&', '||'):
        l, r = concrete_atom(a[2], env), concrete_atom(a[3], env)
        if a[1] == '&&':
            return False if (l is False or r is False) else (None if (l is None or r is None) else True)
        return True if (l is True or r is True) else (None if (l is None or r is None) else False)
    if a[0] == 'not' or (a[0] == 'un' and a[1] == '!'):
        v = concrete_atom(a[1] if a[0] == 'not' else a[2], env)
        return None if v is None else not v
    if a[0] == 'truthy' and a[1][0] in ('bin', 'not', 'un') and (a[1][0] != 'bin' or a[1][1] in ('&&', '||', '<', '<=', '>', '>=', '==', '!=')):
        return concrete_atom(a[1], env)
    if a[0] == 'bin' and a[1] in ('<', '<=', '>', '>=', '==', '!='):
        l, r = concrete_eval(a[2], env), concrete_eval(a[3], env)
        if l is None or r is None:
            return None
        return {'<': l < r, '<=': l <= r, '>': l > r, '>=': l >= r, '==': l == r, '!=': l != r}[a[1]]
    if a[0] == 'truthy':
        v = concrete_eval(a[1], env)
        return None if v is None else bool(v)
    return None


def reaches_under(view, start, target, env, stop=()):
    """does control starting at block `start` reach block `target` when every branch whose atom env decides is taken accordingly (the others both
    ways), without going through a block of `stop`"""
    seen, work = set(), [start]
    while work:
        b = work.pop()
        if b is None or b in seen:
            continue
        seen.add(b)
        if b == target:
            return True
        if b in stop:
            continue
        blk = view.blocks[b]
        ss = blk.get('s', [])
        ap = view.cond_atom(b) if len(ss) == 2 else None
        if ap is not None and not view.is_log_branch(b):
            tv = concrete_atom(ap[0], env)
            if tv is not None:
                work.append(ss[0] if tv == ap[1] else ss[1])
                continue
        work.extend(x for x in ss if x is not None)
    return False


# ---- helper extraction: effects of a private helper belong to the entry points that call it -------------------------------------------------------
def class_call_closure(prog, analyzer, prefix):
    """{function q: set of q of the functions of `prefix` (a class or namespace) it calls directly}"""
    out = {}
    for f in prog.fns.values():
        if not f.get('blocks') or not f['q'].startswith(prefix):
            continue
        v = analyzer.view(f)
        cs = set()
        for eid in range(len(f['elems'])):
            for e in v.events_of(eid):
                if e.kind == 'call' and e.q.startswith(prefix) and e.q != f['q']:
                    cs.add(e.q)
        out.setdefault(f['q'], set()).update(cs)
    return out


def effective_allowed(allowed, calls):
    """an operation table keyed by entry point, closed under the calls between functions of the class: an entry point may also do what the table
    functions it (transitively) calls may do; owners(f) of a helper that is not in the table = the table functions that (transitively) call it"""
    def callees(f, seen=None):
        seen = set() if seen is None else seen
        for g in calls.get(f, ()):
            if g not in seen:
                seen.add(g)
                callees(g, seen)
        return seen
    eff = {}
    for f in allowed:
        eff[f] = set(allowed[f])
        for g in callees(f):
            if g in allowed:
                eff[f] |= allowed[g]

    def owners(fq):
        if fq in allowed:
            return {fq}
        return set(f for f in allowed if fq in callees(f))
    return eff, owners


def path_is_feasible(evs, env=None):
    """constant propagation along one (possibly inlined) path: scalar variables bound to literals (parameters bound by value at an 'enter' event,
    assignments, ++/--) decide the branch atoms that only mention them; False iff some decided atom contradicts the polarity taken"""
    env = dict(env or {})
    for e in evs:
        if e.kind == 'enter' and e.lhs:
            for pv, a in zip(e.lhs, e.args or ()):
                v = concrete_eval(a, env)
                if v is not None:
                    env[pv[2].rsplit('::', 1)[-1]] = v
                else:
                    env.pop(pv[2].rsplit('::', 1)[-1], None)
        elif e.kind == 'assign' and e.lhs is not None and e.lhs[0] == 'var':
            k = e.lhs[2].rsplit('::', 1)[-1]
            v = concrete_eval(e.rhs, env) if e.op == '=' else None
            if v is not None:
                env[k] = v
            else:
                env.pop(k, None)
        elif e.kind == 'incdec' and e.lhs is not None and e.lhs[0] == 'var':
            k = e.lhs[2].rsplit('::', 1)[-1]
            if k in env:
                env[k] = env[k] + (1 if '++' in e.op else -1)
        elif e.kind == 'call' and e.args:
            for a in e.args:       # a scalar passed by address or reference may change
                for t in ((a[2],) if a[0] == 'un' and a[1] == '&' else ()):
                    if t[0] == 'var':
                        env.pop(t[2].rsplit('::', 1)[-1], None)
        elif e.kind == 'branch':
            tv = concrete_atom(e.atom, env)
            if tv is not None and tv != e.pol:
                return False
    return True
