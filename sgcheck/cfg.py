"""Paths and events over the clang CFG of the function IR (DESIGN.md 2.3: P2, P3, P4, P11, P12 are built on this)."""
from . import ex
from .ir import AnalysisBroken

LOG_MACROS = {'XBT_DEBUG', 'XBT_VERB', 'XBT_INFO', 'XBT_WARN', 'XBT_ERROR', 'XBT_CRITICAL', 'XBT_CDEBUG', 'XBT_CVERB',
              'XBT_CINFO', 'XBT_CWARN', 'XBT_CERROR', 'XBT_CCRITICAL', 'XBT_IN', 'XBT_OUT', 'XBT_HERE', 'XBT_LOG',
              'XBT_CLOG', 'XBT_HELP'}


class TooManyPaths(AnalysisBroken):
    pass


def kills(ev):
    """terms whose value an event may change (facts mentioning them are forgotten): the assigned lvalue; for a call to a
    non-const function its receiver and every object passed by pointer or reference"""
    if ev.kind in ('assign', 'incdec'):
        return [ev.lhs]
    if ev.kind == 'call' and not (ev.key or '').endswith(')const'):
        w = []
        if ev.obj is not None:
            w.append(ev.obj)
        for a in ev.args or ():
            if a[0] == 'un' and a[1] == '&':
                a = a[2]
            if a[0] in ('var', 'field', 'this'):
                w.append(a)
        return w
    return []


class Ev:
    """one event of a path, in normal form"""
    __slots__ = ('kind', 'op', 'lhs', 'rhs', 'q', 'key', 'obj', 'args', 'atom', 'pol', 'val', 'eid', 'line', 'fn',
                 'node', 'nf', 'decl', 'bid', 'virtual', 'labels', 'depth')

    def __init__(self, kind, **kw):
        self.kind = kind
        for s in self.__slots__[1:]:
            setattr(self, s, kw.get(s))

    def where(self):
        return '%s:%s' % (self.fn['file'] if self.fn else '?', self.line)

    def __repr__(self):
        if self.kind == 'call':
            return 'call %s' % ex.pretty(self.nf)
        if self.kind == 'assign':
            return '%s %s %s' % (ex.pretty(self.lhs), self.op, ex.pretty(self.rhs))
        if self.kind == 'incdec':
            return '%s%s' % (ex.pretty(self.lhs), self.op)
        if self.kind == 'branch':
            return 'assume %s%s' % ('' if self.pol else '!', ex.pretty(self.atom))
        if self.kind == 'case':
            return 'case %s' % (self.labels,)
        if self.kind in ('return', 'throw'):
            return '%s %s' % (self.kind, ex.pretty(self.val) if self.val else '')
        return self.kind


class Path:
    __slots__ = ('steps', 'exit', 'last_block')

    def __init__(self, steps, exit_kind, last_block):
        self.steps = steps          # list of ('e', eid) | ('b', bid, polarity) | ('c', bid, succ_index)
        self.exit = exit_kind       # 'return' | 'end' | 'noreturn' | 'throw' | 'cut'
        self.last_block = last_block


class FnView:
    """per-function derived data: successor lists, dead-end blocks, branch atoms, element events"""

    def __init__(self, fn):
        self.fn = fn
        self.blocks = fn.get('blocks') or []
        self.elems = fn.get('elems') or []
        if fn.get('nocfg') or not self.blocks:
            raise AnalysisBroken('no CFG for ' + fn['key'])
        self.norm = ex.Norm(fn)
        self._dead = None
        self._atom = {}
        self._writes = {}

    def block(self, b):
        return self.blocks[b]

    def succs(self, b):
        return [s for s in self.blocks[b].get('s', []) if s is not None]

    def dead(self, b):
        if self._dead is None:
            n = len(self.blocks)
            dead = [bool(self.blocks[i].get('noreturn')) for i in range(n)]
            changed = True
            while changed:
                changed = False
                for i in range(n):
                    if dead[i] or i == self.fn['exit']:
                        continue
                    ss = self.succs(i)
                    if ss and all(dead[s] for s in ss):
                        dead[i] = True
                        changed = True
            self._dead = dead
        return self._dead[b]

    def cond_elem(self, b):
        t = self.blocks[b].get('t')
        if not t:
            return None
        if 'c' in t:
            return self.elems[t['c']]['x']
        return t.get('cx')

    def cond_atom(self, b):
        if b not in self._atom:
            c = self.cond_elem(b)
            if c is None:
                self._atom[b] = None
            else:
                self._atom[b] = ex.atom(self.norm(c))
        return self._atom[b]

    def is_log_branch(self, b):
        t = self.blocks[b].get('t')
        return bool(t) and t.get('m') in LOG_MACROS and len(self.blocks[b].get('s', [])) == 2

    def elem_line(self, eid):
        return self.elems[eid].get('l', 0)

    def writes(self, eid):
        """normal-form terms (possibly) modified by element eid"""
        w = self._writes.get(eid)
        if w is None:
            w = []
            for ev in self.events_of(eid):
                w.extend(kills(ev))
            self._writes[eid] = w
        return w

    # -- events ---------------------------------------------------------------------------------------------
    def events_of(self, eid, norm=None):
        norm = norm or self.norm
        fn = self.fn
        x = self.elems[eid]['x']
        line = self.elems[eid].get('l', 0)
        out = []
        order = []

        def post(n):
            for c in ex.kids(n):
                post(c)
            order.append(n)
        post(x)
        for n in order:
            k = n.get('k')
            if k == 'Call':
                nf = norm(n)
                c = n.get('c') or {}
                if nf[0] == 'call' and nf[1] == c.get('q', '<indirect>'):
                    out.append(Ev('call', q=nf[1], key=c.get('n'), obj=nf[2], args=nf[3], nf=nf, eid=eid,
                                  line=n.get('l', line), fn=fn, node=n, virtual=bool(n.get('vcall'))))
                elif nf[0] == 'bin' and nf[1] in ex.ASSIGN_OPS:
                    out.append(Ev('assign', op=nf[1], lhs=nf[2], rhs=nf[3], eid=eid, line=n.get('l', line), fn=fn, node=n))
            elif k == 'New0':
                nf = norm(n)
                if nf[0] == 'ctor':
                    c = n.get('c') or {}
                    out.append(Ev('call', q=nf[1], key=c.get('n'), obj=None, args=nf[2], nf=('call', nf[1], None, nf[2]),
                                  eid=eid, line=n.get('l', line), fn=fn, node=n))
            elif k == 'Bin' and n.get('op') in ex.ASSIGN_OPS:
                nf = norm(n)
                out.append(Ev('assign', op=nf[1], lhs=nf[2], rhs=nf[3], eid=eid, line=line, fn=fn, node=n))
            elif k == 'Un' and n.get('op') in ('++', '--'):
                out.append(Ev('incdec', op=n['op'], lhs=norm(n['a'][0]), eid=eid, line=line, fn=fn, node=n))
            elif k == 'Decl':
                for d in n.get('decls', ()):
                    if 'd' in d:
                        v = ('var', d['d']['dk'], d['d']['n'], d['d'].get('at', 0))
                        rhs = norm(d['init']) if d.get('init') is not None else ('none',)
                        out.append(Ev('assign', op='=', lhs=v, rhs=rhs, eid=eid, line=line, fn=fn, node=n, decl=True))
            elif k == 'CtorInit':
                nf = norm(n)
                out.append(Ev('assign', op='=', lhs=nf[2], rhs=nf[3], eid=eid, line=line, fn=fn, node=n, decl=True))
            elif k == 'Return':
                out.append(Ev('return', val=norm(n)[1], eid=eid, line=line, fn=fn, node=n))
            elif k == 'Throw':
                out.append(Ev('throw', val=norm(n)[1], eid=eid, line=line, fn=fn, node=n))
            elif k == 'New':
                out.append(Ev('new', nf=norm(n), eid=eid, line=n.get('l', line), fn=fn, node=n))
            elif k == 'Delete':
                out.append(Ev('delete', nf=norm(n), eid=eid, line=line, fn=fn, node=n))
            elif k == 'Lambda':
                out.append(Ev('lambda', key=n['fn'], eid=eid, line=line, fn=fn, node=n))
        return out

    # -- paths ----------------------------------------------------------------------------------------------
    def paths(self, start=None, max_paths=20000, max_visits=2, elide_logs=True, prune=True):
        fn = self.fn
        exit_b = fn['exit']
        start = fn['entry'] if start is None else start
        out = []
        # iterative DFS; state: (block, steps, visits, facts)
        stack = [(start, [], {}, {})]
        while stack:
            b, steps, visits, facts = stack.pop()
            if b == exit_b:
                out.append(Path(steps, 'end', b))
                continue
            if self.dead(b):
                out.append(Path(steps + [('dead', b)], 'noreturn', b))
                if len(out) > max_paths:
                    raise TooManyPaths('%s: more than %d paths' % (fn['key'], max_paths))
                continue
            v = visits.get(b, 0)
            if v >= max_visits:
                out.append(Path(steps, 'cut', b))
                continue
            visits = dict(visits)
            visits[b] = v + 1
            blk = self.blocks[b]
            steps = list(steps)
            facts = dict(facts)
            for eid in blk.get('e', []):
                steps.append(('e', eid))
                if prune and facts:
                    ws = self.writes(eid)
                    if ws:
                        for a in list(facts):
                            if any(ex.mentions(a, w) for w in ws):
                                del facts[a]
            ss = blk.get('s', [])
            t = blk.get('t')
            if not ss:
                out.append(Path(steps, 'end', b))
                continue
            if len(ss) == 1 or not t:
                nxt = [s for s in ss if s is not None]
                if not nxt:
                    out.append(Path(steps, 'cut', b))
                    continue
                if nxt[0] == exit_b:
                    kind = 'end'
                    es = blk.get('e', [])
                    if es:
                        lk = self.elems[es[-1]]['x'].get('k')
                        if lk == 'Return':
                            kind = 'return'
                        elif lk == 'Throw':
                            kind = 'throw'
                    if blk.get('noreturn'):
                        kind = 'noreturn'
                    out.append(Path(steps, kind, b))
                    if len(out) > max_paths:
                        raise TooManyPaths('%s: more than %d paths' % (fn['key'], max_paths))
                    continue
                # a throw inside a try goes to the handler: treat as a throw exit of this path
                es = blk.get('e', [])
                if es and self.elems[es[-1]]['x'].get('k') == 'Throw':
                    out.append(Path(steps, 'throw', b))
                    continue
                stack.append((nxt[0], steps, visits, facts))
                continue
            tk = t.get('k')
            if tk == 'SwitchStmt':
                for i, s in enumerate(ss):
                    if s is None:
                        continue
                    stack.append((s, steps + [('c', b, i)], visits, facts))
                continue
            if tk == 'CXXTryStmt':
                # handlers are entered only by exceptions; not part of normal paths
                continue
            if len(ss) == 2:
                if elide_logs and self.is_log_branch(b):
                    s = ss[1] if ss[1] is not None else ss[0]
                    stack.append((s, steps, visits, facts))
                    continue
                ap = self.cond_atom(b)
                for i, s in enumerate(ss):
                    if s is None:
                        continue
                    pol = (i == 0)
                    if ap is not None:
                        a, p0 = ap
                        truth = (pol == p0)
                        if prune:
                            if a in facts and facts[a] != truth:
                                continue
                            if a == ('truthy', ('bool', True)) and not truth:
                                continue
                            if a == ('truthy', ('bool', False)) and truth:
                                continue
                        f2 = dict(facts)
                        f2[a] = truth
                    else:
                        f2 = facts
                    stack.append((s, steps + [('b', b, pol)], visits, f2))
                continue
            # other multi-way terminators (indirect goto...)
            for i, s in enumerate(ss):
                if s is not None:
                    stack.append((s, steps + [('c', b, i)], visits, facts))
        if len(out) > max_paths:
            raise TooManyPaths('%s: more than %d paths' % (fn['key'], max_paths))
        out.reverse()
        return out

    def path_events(self, path, norm=None):
        """flat list of events of one path (branch decisions included)"""
        norm = norm or self.norm
        evs = []
        for st in path.steps:
            if st[0] == 'e':
                evs.extend(self.events_of(st[1], norm))
            elif st[0] == 'b':
                b, pol = st[1], st[2]
                c = self.cond_elem(b)
                if c is None:
                    continue
                a, p0 = ex.atom(norm(c))
                t = self.blocks[b].get('t', {})
                evs.append(Ev('branch', atom=a, pol=(pol == p0), bid=b, line=t.get('l', 0), fn=self.fn))
            elif st[0] == 'c':
                b, i = st[1], st[2]
                s = self.blocks[b]['s'][i]
                lab = self.blocks[s].get('label') if s is not None else None
                c = self.cond_elem(b)
                evs.append(Ev('case', labels=lab, bid=b, val=norm(c) if c is not None else None,
                              line=self.blocks[b].get('t', {}).get('l', 0), fn=self.fn))
        return evs

    def loop_heads(self):
        """blocks terminated by a source-level loop (the do{}while(0) of log/assert macros excluded)"""
        res = []
        for b in self.blocks:
            t = b.get('t')
            if t and t.get('k') in ('WhileStmt', 'ForStmt', 'DoStmt', 'CXXForRangeStmt'):
                if t.get('m') in LOG_MACROS or t.get('m') in ('xbt_assert', 'xbt_enforce', 'THROW_IMPOSSIBLE', 'THROW_UNIMPLEMENTED'):
                    continue
                if t.get('k') == 'DoStmt' and self.cond_atom(b['id']) and self.cond_atom(b['id'])[0] == ('truthy', ('int', 0)):
                    continue
                res.append(b)
        return res

    def catch_blocks(self):
        return [b['id'] for b in self.blocks if b.get('label', {}).get('k') == 'catch']

    def case_blocks(self):
        """switch dispatch: list of (switch block id, [(label dict or None, successor id)])"""
        res = []
        for b in self.blocks:
            t = b.get('t')
            if t and t.get('k') == 'SwitchStmt':
                res.append((b['id'], [(self.blocks[s].get('label') if s is not None else None, s) for s in b['s']]))
        return res


class Analyzer:
    def __init__(self, prog):
        self.prog = prog
        self._views = {}

    def view(self, fn):
        v = self._views.get(fn['key'])
        if v is None:
            v = FnView(fn)
            self._views[fn['key']] = v
        return v

    def resolve(self, ev):
        """definition of the callee of a call event, or None"""
        if ev.key and ev.key in self.prog.fns:
            return self.prog.fns[ev.key]
        return None

    IMMEDIATE = ('simgrid::kernel::actor::simcall_answered', 'simgrid::kernel::actor::simcall_blocking',
                 'simgrid::kernel::actor::simcall_object_access')

    def ipaths(self, fn, inline=None, depth=2, max_paths=20000, start=None, this=('this',), params=None, byvalue=False,
               lambdas=False, _stack=(), _tag=''):
        """interprocedural paths: list of (events, exit_kind).  `inline(ev, callee_fn)` says whether a resolved call is
        expanded.  The callee's `this` becomes the receiver's normal form.  Parameters are substituted by name
        (byvalue=False: the caller's argument terms) or bound by value (byvalue=True: the 'enter' event carries
        .lhs = tuple of fresh parameter variables and .args = the caller-side terms, to be assigned by the
        interpreter).  With lambdas=True a lambda passed to simcall_answered/simcall_blocking is expanded in place
        (the kernel runs it before the caller continues)."""
        v = self.view(fn)
        norm = ex.Norm(fn, this=this, params=params) if (this != ('this',) or params) else v.norm
        res = []
        for p in v.paths(start=start, max_paths=max_paths):
            evs = v.path_events(p, norm)
            alts = [([], None)]
            for ev in evs:
                targets = []
                if ev.kind == 'call' and depth > 0:
                    if inline is not None:
                        callee = self.resolve(ev)
                        if callee is not None and callee['key'] not in _stack and inline(ev, callee):
                            targets.append((callee, ev.obj if ev.obj is not None else ('this',), ev.args, True))
                    if lambdas and ev.q in self.IMMEDIATE:
                        for a in ev.args:
                            if a[0] == 'lambda' and a[1] in self.prog.fns and a[1] not in _stack:
                                targets.append((self.prog.fns[a[1]], this, (), False))
                if not targets:
                    for a in alts:
                        if a[1] is None:
                            a[0].append(ev)
                    continue
                for (callee, cthis, cargs, is_call) in targets:
                    if byvalue:
                        tag = '%s#%d' % (callee['q'].rsplit('::', 1)[-1], len(_stack) + 1)
                        pvars = tuple(('var', 'iparm', tag + '.' + pp['n'], 0) for pp in callee['params'])
                        pm = {i: pv for i, pv in enumerate(pvars)}
                    else:
                        pvars = ()
                        pm = {i: a for i, a in enumerate(cargs)}
                    sub = self.ipaths(callee, inline, depth - 1, max_paths, this=cthis, params=pm, byvalue=byvalue,
                                      lambdas=lambdas, _stack=_stack + (fn['key'],))
                    nalts = []
                    for a in alts:
                        if a[1] is not None:
                            nalts.append(a)
                            continue
                        for sevs, sexit in sub:
                            pre = [] if not is_call else []
                            ne = a[0] + ([ev] if not is_call else []) + \
                                [Ev('enter', q=callee['q'], key=callee['key'], fn=ev.fn, line=ev.line, obj=cthis, lhs=pvars,
                                    args=tuple(cargs), eid=ev.eid, node=ev.node)] + sevs + \
                                [Ev('leave', q=callee['q'], key=callee['key'], fn=ev.fn, line=ev.line)]
                            nalts.append((ne, sexit if sexit in ('noreturn', 'throw') else None))
                            if len(nalts) > max_paths:
                                raise TooManyPaths('%s: more than %d interprocedural paths' % (fn['key'], max_paths))
                    alts = nalts
            for a in alts:
                res.append((a[0], a[1] if a[1] is not None else p.exit))
        return res


def abstract_run(analyzer, fn, init, transfer, inline=None, depth=3, _memo=None, _stack=()):
    """Abstract exploration of all CFG paths with a finite state (P3/P4 without path enumeration).
    transfer(state, ev) -> state or iterable of states, called on every event (calls, assignments, branch decisions...).
    Calls for which inline(ev, callee) holds are expanded through the callee's exit states (memoised per entry state;
    callee events are in the callee's own vocabulary).  Returns {exit_kind: set(states)} with exit kinds
    'return'/'end' merged as 'normal', plus 'noreturn' and 'throw'.  Log-macro branches are elided as in paths()."""
    if _memo is None:
        _memo = {}
    mk = (fn['key'], init)
    if mk in _memo:
        return _memo[mk]
    v = analyzer.view(fn)
    exits = {'normal': set(), 'noreturn': set(), 'throw': set()}
    _memo[mk] = exits      # recursion: treat a recursive call as producing what is known so far
    seen = set()
    work = [(fn['entry'], init)]

    def apply(states, ev):
        out = set()
        for st in states:
            r = transfer(st, ev)
            if r is None:
                out.add(st)
            elif isinstance(r, (set, list, frozenset)) and not (isinstance(r, tuple)):
                out.update(r)
            else:
                out.add(r)
        return out

    while work:
        b, st = work.pop()
        if (b, st) in seen:
            continue
        seen.add((b, st))
        if b == fn['exit']:
            exits['normal'].add(st)
            continue
        if v.dead(b):
            exits['noreturn'].add(st)
            continue
        blk = v.blocks[b]
        states = {st}
        thrown = False
        for eid in blk.get('e', []):
            for ev in v.events_of(eid):
                if ev.kind == 'call' and inline is not None and depth > 0:
                    callee = analyzer.resolve(ev)
                    if callee is not None and callee['key'] not in _stack and callee.get('blocks') and inline(ev, callee):
                        states = apply(states, Ev('enter', q=callee['q'], key=callee['key'], fn=fn, line=ev.line, obj=ev.obj, args=ev.args))
                        nstates = set()
                        for s1 in states:
                            ex_ = abstract_run(analyzer, callee, s1, transfer, inline, depth - 1, _memo, _stack + (fn['key'],))
                            nstates |= ex_['normal']
                            exits['noreturn'] |= ex_['noreturn']
                            exits['throw'] |= ex_['throw']
                        states = apply(nstates, Ev('leave', q=callee['q'], key=callee['key'], fn=fn, line=ev.line))
                        continue
                states = apply(states, ev)
                if ev.kind == 'throw':
                    thrown = True
        if thrown:
            exits['throw'] |= states
            continue
        ss = blk.get('s', [])
        t = blk.get('t')
        if not ss:
            exits['normal'] |= states
            continue
        if t and t.get('k') == 'CXXTryStmt':
            continue
        if len(ss) == 2 and t and t.get('k') != 'SwitchStmt':
            if v.is_log_branch(b):
                tgt = ss[1] if ss[1] is not None else ss[0]
                for s1 in states:
                    work.append((tgt, s1))
                continue
            ap = v.cond_atom(b)
            for i, tgt in enumerate(ss):
                if tgt is None:
                    continue
                if ap is not None:
                    a, p0 = ap
                    if a == ('truthy', ('bool', True)) and (i == 0) != p0:
                        continue
                    if a == ('truthy', ('int', 0)) and (i == 0) == p0:
                        continue
                    bev = Ev('branch', atom=a, pol=((i == 0) == p0), bid=b, line=t.get('l', 0), fn=fn)
                    for s2 in apply(states, bev):
                        work.append((tgt, s2))
                else:
                    for s1 in states:
                        work.append((tgt, s1))
            continue
        for i, tgt in enumerate(ss):
            if tgt is None:
                continue
            if t and t.get('k') == 'SwitchStmt':
                lab = v.blocks[tgt].get('label')
                c = v.cond_elem(b)
                cev = Ev('case', labels=lab, bid=b, val=v.norm(c) if c is not None else None, line=t.get('l', 0), fn=fn)
                for s2 in apply(states, cev):
                    work.append((tgt, s2))
            else:
                for s1 in states:
                    work.append((tgt, s1))
    return exits


def dominators_guard(view, target_eid):
    """set of (atom, truth) facts that hold on every path from entry to element target_eid (P2, path-based)"""
    common = None
    for p in view.paths():
        facts = {}
        hit = False
        for st in p.steps:
            if st[0] == 'e':
                if st[1] == target_eid:
                    hit = True
                    break
                for w in view.writes(st[1]):
                    for a in list(facts):
                        if ex.mentions(a, w):
                            del facts[a]
            elif st[0] == 'b':
                ap = view.cond_atom(st[1])
                if ap is not None:
                    facts[ap[0]] = (st[2] == ap[1])
        if hit:
            s = set(facts.items())
            common = s if common is None else (common & s)
    return common
