"""Expression trees of the function IR: traversal, reference expansion, semantic normal form, pretty printing.

Normal form (hashable nested tuples):
  ('this',) ('null',) ('int', v) ('float', v) ('bool', v) ('str', s)
  ('field', base, qname)        member access, base is a normal form (('this',) for implicit this)
  ('var', kind, name, at)       local / parameter / global
  ('enum', qname, v)
  ('fn', key)
  ('bin', op, a, b) ('un', op, a) ('cond', c, a, b) ('idx', a, i)
  ('call', qname, obj|None, (args...))
  ('new', type, (args...)) ('ctor', qname, (args...)) ('lambda', key) ('cast', type, a)
  ('?', kind, (...))
Smart-pointer plumbing (get(), operator->, operator*, operator bool, comparison operators, operator=) is erased so that
`owner_.get() == issuer`, `owner_ == issuer` and `issuer == owner_.get()` are the same term up to argument order.
"""

SMART = ('boost::intrusive_ptr<', 'std::unique_ptr<', 'std::shared_ptr<', 'std::__shared_ptr<', 'std::optional<')
CMP = ('==', '!=', '<', '>', '<=', '>=')
FLIP = {'==': '==', '!=': '!=', '<': '>', '>': '<', '<=': '>=', '>=': '<='}
NEG = {'==': '!=', '!=': '==', '<': '>=', '>=': '<', '>': '<=', '<=': '>'}
ASSIGN_OPS = ('=', '+=', '-=', '*=', '/=', '%=', '|=', '&=', '^=', '<<=', '>>=')


def kids(n):
    """direct children of a node (not following R references)"""
    if not isinstance(n, dict):
        return
    o = n.get('obj')
    if o is not None:
        yield o
    c = n.get('callee')
    if c is not None:
        yield c
    for a in n.get('a') or ():
        if a is not None:
            yield a
    if n.get('k') == 'Decl':
        for d in n.get('decls', ()):
            if d.get('init') is not None:
                yield d['init']
    if isinstance(n.get('n'), dict):
        yield n['n']


def walk(n):
    """pre-order traversal of a node's own tree (R references are yielded but not followed)"""
    if not isinstance(n, dict):
        return
    stack = [n]
    while stack:
        x = stack.pop()
        yield x
        ks = list(kids(x))
        ks.reverse()
        stack.extend(ks)


def expand(fn, n, depth=0):
    """copy of the tree with every R reference replaced by the referenced element's tree"""
    if not isinstance(n, dict):
        return n
    if n.get('k') == 'R':
        if depth > 50:
            return n
        return expand(fn, fn['elems'][n['r']]['x'], depth + 1)
    out = dict(n)
    if n.get('obj') is not None:
        out['obj'] = expand(fn, n['obj'], depth + 1)
    if n.get('callee') is not None:
        out['callee'] = expand(fn, n['callee'], depth + 1)
    if n.get('a') is not None:
        out['a'] = [expand(fn, a, depth + 1) for a in n['a']]
    if n.get('k') == 'Decl':
        ds = []
        for d in n.get('decls', ()):
            d2 = dict(d)
            if d.get('init') is not None:
                d2['init'] = expand(fn, d['init'], depth + 1)
            ds.append(d2)
        out['decls'] = ds
    return out


def callee_q(n):
    c = n.get('c')
    return c['q'] if c else None


def callee_key(n):
    c = n.get('c')
    return c['n'] if c else None


def is_call(n, *qnames):
    if not isinstance(n, dict) or n.get('k') != 'Call':
        return False
    if not qnames:
        return True
    q = callee_q(n)
    return q in qnames


def is_smart(tstr):
    t = tstr
    if t.startswith('const '):
        t = t[6:]
    return t.startswith(SMART)


class Norm:
    """normaliser bound to one function (for R references and type strings) and an optional substitution"""

    def __init__(self, fn, this=('this',), params=None):
        self.fn = fn
        self.this = this
        self.params = params  # index -> normal form, when the function is inlined at a call site

    def t(self, n):
        return self.fn.tstr(n)

    def ref_alias(self, d):
        """a local *reference* initialised with a pure member path (`auto& q = sem_->queue_;`, `auto& l = list_;`) is that object under another
        name for its whole life (a C++ reference cannot be re-bound): it is replaced by the path, so that introducing or removing such a name changes no
        normal form.  References to anything computed (`*it`, `f()`, `v[i]`) are left alone."""
        tab = getattr(self, '_refalias', None)
        if tab is None:
            if getattr(self, '_refalias_busy', False):
                return None
            tab = {}
            self._refalias_busy = True
            try:
                for el in self.fn.get('elems') or ():
                    x = el['x']
                    if x.get('k') != 'Decl':
                        continue
                    for dd in x.get('decls', ()):
                        v = dd.get('d') or {}
                        if dd.get('init') is None or v.get('dk') != 'local' or v.get('n', '').startswith('__'):
                            continue
                        ty = self.fn.tstr(dd.get('t', -1))
                        if not ty.endswith('&') or ty.endswith('&&'):
                            continue
                        t = self.norm(dd['init'])
                        while t[0] in ('cast', 'conv'):
                            t = t[2]
                        ok = t[0] == 'field'
                        for sub in subterms(t):
                            if sub[0] not in ('field', 'this', 'var'):
                                ok = False
                        if ok:
                            tab[(v['n'], v.get('at', 0))] = t
            finally:
                self._refalias_busy = False
            self._refalias = tab
        return tab.get((d['n'], d.get('at', 0)))

    def __call__(self, n):
        return self.norm(n)

    def norm(self, n):
        if n is None:
            return ('none',)
        k = n.get('k')
        if k == 'R':
            return self.norm(self.fn['elems'][n['r']]['x'])
        if k == 'This':
            return self.this
        if k == 'Null':
            return ('null',)
        if k == 'Int':
            return ('int', n['v'])
        if k == 'Float':
            return ('float', n['v'])
        if k == 'Bool':
            return ('bool', n['v'])
        if k == 'Char':
            return ('int', n['v'])
        if k == 'Str':
            return ('str', n['v'])
        if k == 'Ref':
            d = n['d']
            dk = d['dk']
            if dk == 'enumc':
                return ('enum', d['n'], d.get('v'))
            if dk == 'fn':
                return ('fn', d['n'])
            if dk == 'parm' and self.params is not None and d.get('i') in self.params:
                return self.params[d['i']]
            if 'cv' in n and dk in ('global', 'smember', 'slocal', 'local') and self.t(n).startswith('const '):
                v = n['cv']
                return ('float', v) if isinstance(v, float) else ('int', v)
            if dk == 'local' and not d['n'].startswith('__'):
                r = self.ref_alias(d)
                if r is not None:
                    return r
            return ('var', dk, d['n'], d.get('at', 0))
        if k == 'Mem':
            d = n['d']
            base = self.norm(n['a'][0]) if n.get('a') else ('none',)
            if d['dk'] == 'fn':
                return ('fn', d['n'])
            return ('field', base, d['n'])
        if k == 'Un':
            a = self.norm(n['a'][0])
            op = n['op']
            if op == '!':
                return neg(a)
            if op in ('++', '--'):
                return ('un', ('post' if n.get('post') else 'pre') + op, a)
            if op == '-' and a[0] in ('int', 'float'):
                return (a[0], -a[1])
            if op == '+':
                return a
            return ('un', op, a)
        if k == 'Bin':
            a = self.norm(n['a'][0])
            b = self.norm(n['a'][1])
            return mkbin(n['op'], a, b)
        if k == 'Cond':
            return ('cond', self.norm(n['a'][0]), self.norm(n['a'][1]), self.norm(n['a'][2]))
        if k == 'Idx':
            return ('idx', self.norm(n['a'][0]), self.norm(n['a'][1]))
        if k == 'Cast':
            a = self.norm(n['a'][0])
            return ('cast', self.t(n), a)
        if k in ('DefArg', 'DefInit'):
            return self.norm(n['a'][0])
        if k == 'ZeroInit':
            return ('int', 0)
        if k == 'SizeOf':
            if 'cv' in n:
                return ('int', n['cv'])
            return ('?', 'sizeof', ())
        if k == 'Call':
            return self.norm_call(n)
        if k == 'New0':
            args = tuple(self.norm(a) for a in n.get('a', ()))
            q = callee_q(n) or '?'
            # copy/move/converting construction of a smart pointer from a pointer: identity
            if is_smart(self.t(n)) and len(args) == 1:
                return args[0]
            if is_smart(self.t(n)) and len(args) == 2 and args[1][0] == 'bool':
                return args[0]      # boost::intrusive_ptr(p, add_ref)
            if len(args) == 1 and 'iterator' in q.rsplit('::', 1)[-1]:
                return args[0]      # iterator -> const_iterator conversions
            if is_smart(self.t(n)) and len(args) == 0:
                return ('null',)
            return ('ctor', q, args)
        if k == 'New':
            args = tuple(self.norm(a) for a in n.get('a', ()))
            return ('new', self.fn.tstr(n.get('ty', -1)), args)
        if k == 'Lambda':
            return ('lambda', n['fn'])
        if k == 'Return':
            return ('return', self.norm(n['a'][0]) if n.get('a') and n['a'][0] is not None else ('none',))
        if k == 'Throw':
            return ('throw', self.norm(n['a'][0]) if n.get('a') and n['a'][0] is not None else ('none',))
        if k == 'InitList':
            return ('initlist', tuple(self.norm(a) for a in n.get('a', ())))
        if k == 'Delete':
            return ('delete', self.norm(n['a'][0]))
        if k == 'Decl':
            ds = []
            for d in n.get('decls', ()):
                if 'd' in d:
                    v = ('var', d['d']['dk'], d['d']['n'], d['d'].get('at', 0))
                    ds.append(('decl', v, self.norm(d['init']) if d.get('init') is not None else ('none',)))
            return ds[0] if len(ds) == 1 else ('decls', tuple(ds))
        if k == 'CtorInit':
            tgt = ('field', self.this, n['d']['n']) if 'd' in n else ('base', self.fn.tstr(n.get('base', -1)))
            return ('bin', '=', tgt, self.norm(n['a'][0]) if n.get('a') else ('none',))
        return ('?', k, tuple(self.norm(a) for a in (n.get('a') or ()) if a is not None))

    def norm_call(self, n):
        c = n.get('c')
        args = [self.norm(a) for a in n.get('a', ())]
        obj = self.norm(n['obj']) if n.get('obj') is not None else None
        if c is None:
            callee = self.norm(n['callee']) if n.get('callee') is not None else ('none',)
            return ('call', '<indirect>', callee, tuple(args))
        q = c['q']
        op = n.get('op')
        objt = self.t(n['obj']) if n.get('obj') is not None and isinstance(n['obj'], dict) else ''
        if n.get('obj') is not None and n['obj'].get('k') == 'R':
            objt = self.fn.tstr(self.fn['elems'][n['obj']['r']]['x'])
        last = q.rsplit('::', 1)[-1]
        # smart pointer plumbing
        if obj is not None and is_smart(objt):
            if last in ('get', 'operator->', 'operator*', 'operator bool', 'value') and not args:
                return obj
            if last == 'operator=' and len(args) == 1:
                return mkbin('=', obj, args[0])
            if last == 'reset' and len(args) <= 1:
                return mkbin('=', obj, args[0] if args else ('null',))
        if op in CMP:
            ops = ([obj] if obj is not None else []) + args
            if len(ops) == 2:
                return mkbin(op, ops[0], ops[1])
        if op == '!' and obj is not None and not args:
            return neg(obj)
        if op == '!' and obj is None and len(args) == 1:
            return neg(args[0])
        if last.startswith('operator ') and obj is not None and not args:
            # conversion operator
            return ('conv', last[9:], obj)
        if q in ('boost::get_pointer', 'std::move', 'std::forward', 'std::as_const', 'boost::intrusive_ptr::get') and len(args) == 1:
            return args[0]
        return ('call', q, obj, tuple(args))


def mkbin(op, a, b):
    if op in CMP:
        # canonical operand order: literals/null to the right, otherwise by repr
        if a[0] in ('null', 'int', 'float', 'bool', 'enum') and b[0] not in ('null', 'int', 'float', 'bool', 'enum'):
            a, b, op = b, a, FLIP[op]
        elif op in ('==', '!=') and a[0] not in ('null', 'int', 'float', 'bool', 'enum') \
                and b[0] not in ('null', 'int', 'float', 'bool', 'enum') and repr(b) < repr(a):
            a, b = b, a
    return ('bin', op, a, b)


def neg(a):
    if a[0] == 'not':
        return a[1]
    if a[0] == 'bool':
        return ('bool', not a[1])
    if a[0] == 'bin' and a[1] in NEG:
        return ('bin', NEG[a[1]], a[2], a[3])
    return ('not', a)


def atom(t):
    """(atom, polarity) of a boolean normal form: negations folded, `x != y` is the negative of `x == y`,
    `>=` the negative of `<`, `>` the negative of `<=`; a bare pointer/integer is `x != null/0`"""
    pol = True
    while True:
        if t[0] == 'not':
            t = t[1]
            pol = not pol
            continue
        if t[0] == 'bin' and t[1] in ('!=', '>=', '>'):
            t = ('bin', NEG[t[1]], t[2], t[3])
            pol = not pol
            continue
        break
    if t[0] == 'bin' and t[1] == '==' and t[3] in (('null',), ('int', 0), ('bool', False)):
        return ('truthy', t[2]), not pol
    if t[0] == 'bin' and t[1] == '==' and t[3] == ('bool', True):
        return ('truthy', t[2]), pol
    if t[0] == 'bin' and t[1] in CMP:
        return t, pol
    if t[0] == 'conv' and t[1] == 'bool':
        return ('truthy', t[2]), pol
    return ('truthy', t), pol


def subterms(t):
    yield t
    for x in t[1:]:
        if isinstance(x, tuple):
            if x and isinstance(x[0], str):
                yield from subterms(x)
            else:
                for y in x:
                    if isinstance(y, tuple):
                        yield from subterms(y)


def mentions(t, sub):
    for s in subterms(t):
        if s == sub:
            return True
    return False


def short(q):
    """drop namespaces for display"""
    parts = q.split('::')
    return '::'.join(parts[-2:]) if len(parts) > 1 else q


def pretty(t):
    if not isinstance(t, tuple) or not t:
        return repr(t)
    k = t[0]
    if k == 'this':
        return 'this'
    if k == 'null':
        return 'nullptr'
    if k in ('int', 'float'):
        return repr(t[1])
    if k == 'bool':
        return 'true' if t[1] else 'false'
    if k == 'str':
        return repr(t[1])
    if k == 'field':
        name = t[2].rsplit('::', 1)[-1]
        return name if t[1] == ('this',) else pretty(t[1]) + '.' + name
    if k == 'var':
        return t[2].rsplit('::', 1)[-1]
    if k == 'enum':
        return short(t[1])
    if k == 'fn':
        return short(t[1].split('(')[0])
    if k == 'bin':
        return '(' + pretty(t[2]) + ' ' + t[1] + ' ' + pretty(t[3]) + ')'
    if k == 'un':
        return t[1] + pretty(t[2])
    if k == 'not':
        return '!' + pretty(t[1])
    if k == 'truthy':
        return pretty(t[1])
    if k == 'cond':
        return '(' + pretty(t[1]) + ' ? ' + pretty(t[2]) + ' : ' + pretty(t[3]) + ')'
    if k == 'idx':
        return pretty(t[1]) + '[' + pretty(t[2]) + ']'
    if k == 'call':
        args = ', '.join(pretty(a) for a in t[3])
        name = t[1].rsplit('::', 1)[-1]
        if t[2] is not None and t[1] != '<indirect>':
            return pretty(t[2]) + '.' + name + '(' + args + ')'
        if t[1] == '<indirect>':
            return '(*' + pretty(t[2]) + ')(' + args + ')'
        return short(t[1]) + '(' + args + ')'
    if k == 'ctor':
        return short(t[1]).split('::')[0] + '{' + ', '.join(pretty(a) for a in t[2]) + '}'
    if k == 'new':
        return 'new ' + t[1] + '(' + ', '.join(pretty(a) for a in t[2]) + ')'
    if k == 'cast':
        return '(' + t[1] + ')' + pretty(t[2])
    if k == 'conv':
        return '(' + t[1] + ')' + pretty(t[2])
    if k == 'lambda':
        return '[lambda ' + t[1].rsplit('<lambda@', 1)[-1].split('>')[0] + ']'
    if k == 'return':
        return 'return ' + pretty(t[1])
    if k == 'throw':
        return 'throw ' + pretty(t[1])
    if k == 'decl':
        return pretty(t[1]) + ' := ' + pretty(t[2])
    if k == 'none':
        return ''
    if k == 'initlist':
        return '{' + ', '.join(pretty(a) for a in t[1]) + '}'
    if k == 'delete':
        return 'delete ' + pretty(t[1])
    return k + '(' + ', '.join(pretty(a) if isinstance(a, tuple) and a and isinstance(a[0], str) else repr(a) for a in t[1:]) + ')'
