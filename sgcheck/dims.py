"""Dimension (unit) inference over normal forms (DESIGN.md 2.7).

A dimension is a vector of integer exponents over a few base units declared by the rule (for the sharing solvers: rate, penalty, weight).
Field dimensions come from a frozen table confirmed by reading; locals and parameters are inferred by unification (a local takes the dimension of
what is stored in it; the parameters of a helper take those of the arguments at its call sites).  Literals take the dimension of their context in
sums, comparisons and stores, and are pure numbers in products.  A *site* is an assignment, a compound assignment, a comparison, a std::min/max, or a
call of a listed "same unit" helper (double_update(&a, b, .), double_equals(a, b, .)).  A site whose two sides have known, different dimensions is a
conflict; a site with an unknown side is counted as undecided and never alarms.  No arithmetic is evaluated: the verdict depends only on which
quantities are combined with which operators."""
from . import ex

POLY = 'poly'       # a literal: any dimension
BOOL = 'bool'
ARITH_CMP = ('<', '>', '<=', '>=', '==', '!=')


def mul(a, b):
    return tuple(x + y for x, y in zip(a, b))


def div(a, b):
    return tuple(x - y for x, y in zip(a, b))


class Dims:
    def __init__(self, base, fields, globals_one=(), same_unit_calls=None, passthrough_calls=(), getters=None, indirect_fields=None, overrides=None):
        self.base = base
        self.one = tuple(0 for _ in base)
        self.fields = fields                       # field q -> dim
        self.overrides = overrides or {}           # function q prefix -> {field q: dim}
        self.globals_one = set(globals_one)
        self.same_unit = same_unit_calls or {}     # callee q -> (i, j): argument i and argument j carry the same unit (pointer arguments: the pointee)
        self.passthrough = set(passthrough_calls)  # callee q whose result has the unit of its (unified) arguments
        self.getters = getters or {}               # callee q -> dim of the result
        self.indirect_fields = indirect_fields or {}   # field q of a callback -> index of the argument whose unit the result has
        self.param_names = {}                      # parameter name -> unit (a convention of the code base, e.g. now / delta)
        self.param_units = {}                      # (function q, parameter name) -> unit, where the convention does not hold
        self.skip_vars = set()                     # (function q, variable name) reused for two quantities
        self.arg_units = {}                        # callee q -> {argument index: unit}
        self.ret_units = {}                        # function q -> unit of what it returns
        self.env = {}                              # (fn key, var name, var id) -> dim
        self.votes = {}
        self.scope = {}                            # callee q -> fn (helpers whose parameters are inferred from call sites)
        self.conflicts = []
        self.decided = []
        self.undecided = []

    def unit(self, **kw):
        return tuple(kw.get(b, 0) for b in self.base)

    def affine_ix(self):
        """indices of the *affine* bases (names starting with '@', e.g. '@date'): a quantity with exponent 1 there is a point (a date), with exponent 0 a
        difference (a duration).  Points and differences follow torsor arithmetic: point + difference = point, point - point = difference; two points
        cannot be added, and stores, comparisons, min/max need both or neither to be points.  Products and quotients of points have no unit."""
        return [i for i, b in enumerate(self.base) if b.startswith('@')]

    def add_dims(self, da, db, op):
        """unit of a (+|-) b for known units, or None when the combination is not allowed"""
        ax = self.affine_ix()
        for i, (x, y) in enumerate(zip(da, db)):
            if i not in ax and x != y:
                return None
        out = list(da)
        for i in ax:
            out[i] = da[i] + db[i] if op == '+' else da[i] - db[i]
            if out[i] not in (0, 1):
                return None
        return tuple(out)

    def show(self, d):
        if d in (POLY, BOOL, None):
            return str(d)
        num = [(b.lstrip('@') if e == 1 else '%s^%d' % (b.lstrip('@'), e)) for b, e in zip(self.base, d) if e > 0]
        den = [b if e == -1 else '%s^%d' % (b, -e) for b, e in zip(self.base, d) if e < 0]
        s = '·'.join(num) or '1'
        return s + ('/' + '/'.join(den) if den else '')

    # -- expression dimension --------------------------------------------------------------------------------------------------------------------
    def field_dim(self, fn, q):
        for pre, tab in self.overrides.items():
            if fn['q'].startswith(pre) and q in tab:
                return tab[q]
        return self.fields.get(q)

    def var_key(self, fn, t):
        return (fn['key'], t[2], 0 if t[1] == 'parm' else t[3])

    def dim(self, fn, t, sites=None, line=0):
        """dimension of term t (None = unknown); records the sites met inside t when `sites` is a list"""
        k = t[0]
        if k in ('int', 'float'):
            return POLY
        if k in ('bool', 'null', 'str', 'enum', 'none'):
            return BOOL if k == 'bool' else None
        if k in ('cast', 'conv'):
            return self.dim(fn, t[2], sites, line)
        if k == 'var':
            if t[1] == 'global':
                if isinstance(self.globals_one, dict):
                    return self.globals_one.get(t[2])
                return self.one if t[2] in self.globals_one else None
            if (fn['q'], t[2]) in self.skip_vars:
                return None               # a variable reused for quantities of different units: its sites are not decided
            if t[1] == 'parm' and (fn['q'], t[2]) in self.param_units:
                return self.param_units[(fn['q'], t[2])]
            if t[1] == 'parm' and t[2] in self.param_names:
                return self.param_names[t[2]]
            return self.env.get(self.var_key(fn, t))
        if k == 'field':
            d = self.field_dim(fn, t[2])
            if d is None and t[1] is not None:
                self.dim(fn, t[1], sites, line) if t[1][0] not in ('var', 'this', 'field') else None
            return d
        if k == 'idx':
            self.dim(fn, t[2], sites, line)
            return self.dim(fn, t[1], sites, line)
        if k == 'un':
            op = t[1]
            if op in ('*', '&', '-', '+', 'pre++', 'pre--', 'post++', 'post--'):
                return self.dim(fn, t[2], sites, line)
            if op == '!':
                self.dim(fn, t[2], sites, line)
                return BOOL
            return None
        if k == 'not':
            self.dim(fn, t[1], sites, line)
            return BOOL
        if k == 'truthy':
            self.dim(fn, t[1], sites, line)
            return BOOL
        if k == 'cond':
            self.dim(fn, t[1], sites, line)
            return self.unify(fn, t[2], t[3], sites, line, '?:')
        if k == 'bin':
            op, a, b = t[1], t[2], t[3]
            if op in ('&&', '||'):
                self.dim(fn, a, sites, line)
                self.dim(fn, b, sites, line)
                return BOOL
            if op in ARITH_CMP:
                self.unify(fn, a, b, sites, line, op)
                return BOOL
            if op in ('+', '-'):
                if self.affine_ix():
                    return self.addsub(fn, op, a, b, sites, line)
                return self.unify(fn, a, b, sites, line, op)
            if op in ('*', '/'):
                da, db = self.dim(fn, a, sites, line), self.dim(fn, b, sites, line)
                if da == POLY:
                    da = self.one
                if db == POLY:
                    db = self.one
                if da in (None, BOOL) or db in (None, BOOL):
                    return None
                if any(da[i] or db[i] for i in self.affine_ix()):
                    return None          # a point has no product
                return mul(da, db) if op == '*' else div(da, db)
            if op in ex.ASSIGN_OPS:
                return self.assign(fn, op, a, b, sites, line)
            return None
        if k == 'call':
            return self.call(fn, t, sites, line)
        return None

    def addsub(self, fn, op, a, b, sites, line):
        da, db = self.dim(fn, a, sites, line), self.dim(fn, b, sites, line)
        if da == POLY and db == POLY:
            return POLY
        if da == POLY or db == POLY:
            # a literal added to a quantity is a difference in the unit of that quantity
            d = db if da == POLY else da
            return d if d not in (None, BOOL) else None
        if da in (None, BOOL) or db in (None, BOOL):
            # a sum with one known difference: the other side has the same unit
            if da is None and db not in (None, BOOL) and not any(db[i] for i in self.affine_ix()):
                self.solve_for(fn, a, db, line)
            if db is None and da not in (None, BOOL) and not any(da[i] for i in self.affine_ix()):
                self.solve_for(fn, b, da, line)
            return None
        r = self.add_dims(da, db, op)
        if sites is not None:
            rec = {'line': line, 'what': op, 'a': ex.pretty(a), 'b': ex.pretty(b), 'da': da, 'db': db, 'fn': fn['q']}
            sites.append(('ok' if r is not None else 'conflict', rec))
        return r

    def call(self, fn, t, sites, line):
        q, obj, args = t[1], t[2], t[3]
        if q in ('std::min', 'std::max') and len(args) == 2:
            return self.unify(fn, args[0], args[1], sites, line, q)
        if q in self.passthrough and args:
            return self.dim(fn, args[0], sites, line)
        if q in self.same_unit:
            i, j = self.same_unit[q]
            if len(args) > max(i, j):
                self.unify(fn, args[i], args[j], sites, line, q.rsplit('::', 1)[-1])
            for n, a in enumerate(args):
                if n not in (i, j):
                    self.dim(fn, a, sites, line)
            return None
        if q in self.arg_units:
            for i, u in self.arg_units[q].items():
                if len(args) > i:
                    da = self.dim(fn, args[i], sites, line)
                    if da is None:
                        self.solve_for(fn, args[i], u, line)
                    elif da not in (POLY, BOOL) and sites is not None:
                        sites.append(('ok' if da == u else 'conflict', {'line': line, 'what': 'argument %d of %s' % (i, q.rsplit('::', 1)[-1]), 'a': ex.pretty(args[i]), 'b': '[%s]' % self.show(u), 'da': da, 'db': u, 'fn': fn['q']}))
            for i, a in enumerate(args):
                if i not in self.arg_units[q]:
                    self.dim(fn, a, sites, line)
            return self.getters.get(q)
        if q in self.getters:
            callee = self.scope.get((q, len(args)))
            if callee is not None:
                for p, a in zip(callee['params'], args):
                    if not p['n']:
                        self.dim(fn, a, sites, line)
                        continue
                    pv = ('var', 'parm', p['n'], p.get('at', 0))
                    self.unify_dims(fn, self.dim(fn, a, sites, line), a, callee, pv, sites, line, 'argument %s of %s' % (p['n'], q.rsplit('::', 1)[-1]))
            else:
                for a in args:
                    self.dim(fn, a, sites, line)
            return self.getters[q]
        if q == '<indirect>' and obj is not None and obj[0] == 'field' and obj[2] in self.indirect_fields:
            i = self.indirect_fields[obj[2]]
            return self.dim(fn, args[i], sites, line) if len(args) > i else None
        if q.endswith('::operator()') and obj is not None and obj[0] == 'field' and obj[2] in self.indirect_fields:
            i = self.indirect_fields[obj[2]]
            return self.dim(fn, args[i], sites, line) if len(args) > i else None
        callee = self.scope.get((q, len(args)))
        if callee is not None:
            for p, a in zip(callee['params'], args):
                if not p['n']:
                    self.dim(fn, a, sites, line)
                    continue             # unnamed parameter: nothing to unify with
                pv = ('var', 'parm', p['n'], p.get('at', 0))
                self.unify_dims(fn, self.dim(fn, a, sites, line), a, callee, pv, sites, line, 'argument %s of %s' % (p['n'], q.rsplit('::', 1)[-1]))
            return None
        for a in args:
            self.dim(fn, a, sites, line)
        return None

    # -- unification ----------------------------------------------------------------------------------------------------------------------------
    def bindable(self, t):
        while t[0] in ('cast', 'conv') or (t[0] == 'un' and t[1] in ('*', '&')):
            t = t[2]
        return t if t[0] == 'var' and t[1] in ('local', 'parm') else None

    def bind(self, fn, t, d, line=0):
        """a site with one known side votes for the unit of the local or parameter on the other side; the votes are settled between rounds
        (settle), so that a report lands on the minority site and not on whichever site was met first"""
        v = self.bindable(t)
        if v is not None and (fn['q'], v[2]) in self.skip_vars:
            return True
        if v is not None and d not in (None, POLY, BOOL):
            key = self.var_key(fn, v)
            if key not in self.env:
                self.votes.setdefault(key, {}).setdefault(d, []).append(line)
            return True
        return False

    def solve_for(self, fn, t, d, line):
        """t has no unit yet and must have unit d: when t is `x * k`, `x / k` or `k / x` with k known and x a local, vote for x"""
        while t[0] in ('cast', 'conv'):
            t = t[2]
        if self.bind(fn, t, d, line) and self.bindable(t) is not None:
            return
        if t[0] == 'bin' and t[1] in ('*', '/'):
            da, db = self.dim(fn, t[2]), self.dim(fn, t[3])
            da = self.one if da == POLY else da
            db = self.one if db == POLY else db
            if da is None and db not in (None, BOOL):
                self.solve_for(fn, t[2], div(d, db) if t[1] == '*' else mul(d, db), line)
            elif db is None and da not in (None, BOOL):
                self.solve_for(fn, t[3], div(d, da) if t[1] == '*' else div(da, d), line)

    def settle(self, final):
        n = 0
        for key, tally in self.votes.items():
            ranked = sorted(tally.items(), key=lambda kv: (-len(kv[1]), min(kv[1]), kv[0]))
            if len(ranked) == 1 or len(ranked[0][1]) > len(ranked[1][1]) or final:
                self.env[key] = ranked[0][0]
                n += 1
        self.votes = {}
        return n

    def unify(self, fn, a, b, sites, line, what):
        da, db = self.dim(fn, a, sites, line), self.dim(fn, b, sites, line)
        return self.unify_known(fn, da, a, fn, db, b, sites, line, what)

    def unify_dims(self, fn_a, da, a, fn_b, b, sites, line, what):
        db = self.dim(fn_b, b)
        return self.unify_known(fn_a, da, a, fn_b, db, b, sites, line, what)

    def unify_known(self, fn_a, da, a, fn_b, db, b, sites, line, what):
        if da is None and db not in (None, POLY, BOOL):
            self.solve_for(fn_a, a, db, line)
        if db is None and da not in (None, POLY, BOOL):
            self.solve_for(fn_b, b, da, line)
        if da == POLY and db == POLY:
            return POLY
        if da == POLY:
            return db
        if db == POLY:
            return da
        if sites is not None:
            rec = {'line': line, 'what': what, 'a': ex.pretty(a), 'b': ex.pretty(b), 'da': da, 'db': db, 'fn': fn_a['q']}
            if da is None or db is None or BOOL in (da, db):
                known = [d for d in (da, db) if d not in (None, BOOL)]
                if len(known) == 1:           # one side carries a unit, the other is not understood
                    sites.append(('undecided', rec))
                return None
            sites.append(('ok' if da == db else 'conflict', rec))
        if da is None or db is None:
            return None
        return da if da == db else None

    def assign(self, fn, op, lhs, rhs, sites, line):
        if op == '=':
            return self.unify(fn, lhs, rhs, sites, line, '=')
        if op in ('+=', '-='):
            if self.affine_ix():
                dl, dr = self.dim(fn, lhs, sites, line), self.dim(fn, rhs, sites, line)
                if dl in (None, BOOL, POLY) or dr in (None, BOOL):
                    return dl if dl not in (POLY,) else None
                if dr == POLY:
                    return dl
                r = self.add_dims(dl, dr, op[0])
                if sites is not None:
                    sites.append(('ok' if r == dl else 'conflict', {'line': line, 'what': op, 'a': ex.pretty(lhs), 'b': ex.pretty(rhs), 'da': dl, 'db': dr, 'fn': fn['q']}))
                return dl
            return self.unify(fn, lhs, rhs, sites, line, op)
        if op in ('*=', '/='):
            dl, dr = self.dim(fn, lhs, sites, line), self.dim(fn, rhs, sites, line)
            if dr not in (POLY, None) and dr != self.one and dl not in (None, POLY, BOOL) and sites is not None:
                sites.append(('conflict', {'line': line, 'what': op, 'a': ex.pretty(lhs), 'b': ex.pretty(rhs), 'da': dl, 'db': dr, 'fn': fn['q']}))
            return dl
        return None

    # -- driver ---------------------------------------------------------------------------------------------------------------------------------
    def run(self, analyzer, fns, skip_macros=()):
        """two inference rounds (so that uses before definitions and helper parameters resolve), then one recording round"""
        self.scope = {(f['q'], len(f['params'])): f for f in fns}      # overloads are told apart by their arity
        self.votes = {}
        ROUNDS = 6
        for rnd in range(ROUNDS):
            record = rnd == ROUNDS - 1
            if rnd:
                self.settle(final=(rnd >= ROUNDS - 2))
            for f in fns:
                v = analyzer.view(f)
                for b in v.blocks:
                    t = b.get('t') or {}
                    logb = t.get('m') in skip_macros
                    for eid in b.get('e', []):
                        if v.elems[eid].get('m') in skip_macros:
                            continue
                        for e in v.events_of(eid):
                            sites = [] if record else None
                            if e.kind == 'assign' and e.eid == eid:
                                if e.rhs[0] == 'none':
                                    continue
                                self.assign(f, e.op, e.lhs, e.rhs, sites, e.line)
                            elif e.kind == 'call' and e.eid == eid:
                                self.call(f, e.nf, sites, e.line)
                            elif e.kind == 'return' and e.val is not None:
                                dv = self.dim(f, e.val, sites, e.line)
                                ru = self.ret_units.get(f['q'])
                                if ru is not None:
                                    if dv is None:
                                        self.solve_for(f, e.val, ru, e.line)
                                    elif dv not in (POLY, BOOL) and sites is not None:
                                        sites.append(('ok' if dv == ru else 'conflict', {'line': e.line, 'what': 'return', 'a': ex.pretty(e.val), 'b': '[%s]' % self.show(ru), 'da': dv, 'db': ru, 'fn': f['q']}))
                            self._collect(f, sites)
                    if not logb:
                        c = v.cond_atom(b['id'])
                        if c is not None:
                            sites = [] if record else None
                            self.dim(f, c[0], sites, (v.elem_line(t['c']) if 'c' in t else 0))
                            self._collect(f, sites)
        return self

    def _collect(self, f, sites):
        if not sites:
            return
        seen = self.__dict__.setdefault('_seen', set())
        for kind, rec in sites:
            k = (f['key'], kind, rec['line'], rec['what'], rec['a'], rec['b'])
            if k in seen:
                continue
            seen.add(k)
            {'ok': self.decided, 'conflict': self.conflicts, 'undecided': self.undecided}[kind].append(rec)
