"""C16 — Max-min allocations are fair (DESIGN.md 3, C16, thin): the bottleneck selected at every filling round is the minimum."""
from .. import cfg, dims, ex, lib
from ..core import where
from ..ir import AnalysisBroken

UNITS = ['src/kernel/lmm/maxmin.cpp', 'src/kernel/lmm/System.cpp', 'src/kernel/lmm/fair_bottleneck.cpp']
L = 'simgrid::kernel::lmm::'
EXPLANATION = ('Extremum-update coherence of the four "keep the smallest" accumulators of progressive filling: *min_usage in '
               'saturated_constraints_update (the constraint saturated next is the one with the smallest remaining/usage), min_bound in '
               'MaxMin::maxmin_solve (a variable is frozen at its bound only when that bound is the smallest candidate), minslack in '
               'Variable::get_min_concurrency_slack and min_inc in FairBottleneck::do_solve.  Every update stores the value it compares, in the '
               'direction "smaller", or stores it because the accumulator still holds its unset sentinel; resets only write the sentinel.  Ties with '
               'the current minimum are added to the saturated set, a new minimum resets it.')

SITES = [
    (L + 'saturated_constraints_update', lambda t: t[0] == 'un' and t[1] == '*' and t[2][0] == 'var' and t[2][2] == 'min_usage', '*min_usage'),
    (L + 'MaxMin::maxmin_solve', lambda t: t[0] == 'var' and t[2] == 'min_bound', 'min_bound'),
    (L + 'Variable::get_min_concurrency_slack', lambda t: t[0] == 'var' and t[2] == 'minslack', 'minslack'),
    (L + 'FairBottleneck::do_solve', lambda t: t[0] == 'var' and t[2] == 'min_inc', 'min_inc'),
]


def is_sentinel_value(t):
    t0 = t
    while t0[0] in ('cast', 'conv'):
        t0 = t0[2]
    if t0[0] in ('int', 'float'):
        return True
    return t0[0] == 'call' and t0[1].endswith('::max') and 'numeric_limits' in t0[1]


def check_min_accumulator(ctx, A, f, pred, name, rule, role='min', same_candidate=True):
    """shared with C20: every update of the accumulator is coherent with the role"""
    ups = lib.extremum_updates(A, f, pred)
    want = 'lt' if role == 'min' else 'gt'
    stored = []
    n = 0
    v = A.view(f)
    blk_of = {}
    for b in v.blocks:
        for eid in b.get('e', []):
            blk_of[eid] = b['id']

    def first_candidate(d):
        """an unconditional store is the first candidate when no other non-sentinel store of the same accumulator can reach it without
        passing through a reset of the accumulator to its sentinel"""
        resets = set(blk_of[x['eid']] for x in ups if x['acc'] == d['acc'] and x['form'] == 'plain' and is_sentinel_value(x['stored']))
        target = blk_of[d['eid']]
        for o in ups:
            if o is d or o['acc'] != d['acc'] or (o['form'] == 'plain' and is_sentinel_value(o['stored'])):
                continue
            seen = set()
            work = [s_ for s_ in v.succs(blk_of[o['eid']])]
            if blk_of[o['eid']] == target and o['eid'] < d['eid']:
                return False
            while work:
                x = work.pop()
                if x in seen or x in resets:
                    continue
                seen.add(x)
                if x == target:
                    return False
                work.extend(v.succs(x))
        return True
    for d in ups:
        inst = '%s: %s update at line %s' % (f['q'].replace(L, '').replace('simgrid::kernel::', ''), name, d['line'])
        key = '%s|%s|%s' % (rule, f['q'].rsplit('::', 1)[-1], name)
        if d['form'] == 'plain':
            ok = is_sentinel_value(d['stored'])
            if not ok and first_candidate(d):
                ctx.holds(rule, inst, where(f, d['line']), 'first candidate after the reset: %s' % ex.pretty(d['stored']))
                stored.append(d['stored'])
                n += 1
                continue
            ctx.check(ok, rule, inst, where(f, d['line']), 'reset to %s' % ex.pretty(d['stored']) if ok else
                      'unconditional store of %s: the accumulator no longer holds the %s of what was compared' % (ex.pretty(d['stored']), role), key=key + ' reset')
            continue
        n += 1
        if d['form'] in ('min-call', 'max-call'):
            ok = d['form'] == ('min-call' if role == 'min' else 'max-call')
            ctx.check(ok, rule, inst, where(f, d['line']), 'std::%s(%s, %s)' % ('min' if d['form'] == 'min-call' else 'max', name, ex.pretty(d['stored'])), key=key + ' direction')
            stored.append(d['stored'])
        elif d['form'] == 'sentinel':
            ctx.check(bool(d.get('coherent_edges')), rule, inst, where(f, d['line']), 'first candidate (accumulator unset: %s %s)' % (ex.pretty(d['sentinel'][0]), d['sentinel'][1]), key=key + ' unset')
            stored.append(d['stored'])
        else:
            same = lib.commut_eq(d['stored'], d['compared'])
            ok = same and d['rel'] == want and bool(d.get('coherent_edges'))
            detail = 'compares %s %s %s, stores %s' % (ex.pretty(d['compared']), {'lt': '<', 'gt': '>', 'le': '<=', 'ge': '>='}.get(d['rel'], d['rel']), name, ex.pretty(d['stored']))
            if not same:
                detail += ': the value kept is not the compared one'
            elif d['rel'] != want:
                detail += ': keeps the %s, the role is %s' % ('larger' if d['rel'] in ('gt', 'ge') else 'smaller-or-equal', role)
            ctx.check(ok, rule, inst, where(f, d['line']), detail, key=key + ' coherence')
            stored.append(d['stored'])
    # all branches keep the same quantity
    if len(stored) > 1 and same_candidate and name not in ('min_inc',):
        ctx.check(all(lib.commut_eq(s, stored[0]) for s in stored), rule, '%s: every branch stores the same candidate expression' % name, where(f),
                  ' / '.join(sorted(set(ex.pretty(s) for s in stored))), key='%s|%s|%s same candidate' % (rule, f['q'].rsplit('::', 1)[-1], name))
    return n


# ---- R3: an accumulation never continues from a consumed value ---------------------------------------------------------------------------------
def strip(t):
    while t[0] in ('cast', 'conv'):
        t = t[2]
    return t


def acc_touch(acc, ev, helpers):
    """how event ev touches the accumulator `acc` (a local variable term): 'reset' | 'update' (store that depends on the old value, or a helper taking
    its address) | 'fresh' (store of a new value that does not read it) | 'read' | None"""
    if ev.kind == 'assign':
        lhs = strip(ev.lhs)
        if lhs == acc or lhs == ('un', '*', acc):
            rhs = strip(ev.rhs)
            if ev.op != '=':
                return 'update'
            if rhs[0] == 'none':
                return None
            if is_sentinel_value(rhs):
                return 'reset'
            return 'update' if ex.mentions(rhs, acc) else 'fresh'
        if ex.mentions(ev.rhs, acc) or ex.mentions(ev.lhs, acc):
            return 'read'
        return None
    if ev.kind == 'call':
        if ev.q in ('std::min', 'std::max'):
            return None          # classified with the store that uses it
        for a in ev.args:
            a0 = strip(a)
            if a0 == ('un', '&', acc) and ev.q in helpers:
                return 'update'
        if any(ex.mentions(a, acc) for a in ev.args) or (ev.obj is not None and ex.mentions(ev.obj, acc)):
            return 'read'
        return None
    if ev.kind == 'return' and ev.val is not None and ex.mentions(ev.val, acc):
        return 'read'
    return None


def internal_guards(v, acc, helpers):
    """branch blocks testing acc from which a store to acc (update or first candidate) is the next thing that touches acc on some path: the test belongs
    to the update idiom (if (acc < 0) acc = x; if (x < acc) acc = x;), it does not consume the accumulated value"""
    def first_touch(b, seen):
        if b in seen:
            return set()
        seen.add(b)
        for eid in v.blocks[b].get('e', []):
            for ev in v.events_of(eid):
                k = acc_touch(acc, ev, helpers)
                if k:
                    return {k}
        c = v.cond_atom(b)
        if c is not None and ex.mentions(c[0], acc) and not v.is_log_branch(b):
            return {'read'}
        out = set()
        ss = v.blocks[b].get('s', [])
        if v.is_log_branch(b):
            ss = [ss[1] if ss[1] is not None else ss[0]]
        for s_ in ss:
            if s_ is not None:
                out |= first_touch(s_, seen)
        return out
    res = set()
    for b in v.blocks:
        c = v.cond_atom(b['id'])
        if c is None or not ex.mentions(c[0], acc) or v.is_log_branch(b['id']):
            continue
        for s_ in b.get('s', []):
            if s_ is not None and first_touch(s_, set()) & {'update', 'fresh'}:
                res.add(b['id'])
    return res


def accumulators_of(A, f, helpers):
    """local accumulators of f: locals with an extremum update (R1) or whose address goes to an extremum helper"""
    v = A.view(f)
    accs = {}
    for eid in range(len(f['elems'])):
        for ev in v.events_of(eid):
            if ev.kind == 'assign' and strip(ev.lhs)[0] == 'var' and strip(ev.lhs)[1] == 'local':
                a = strip(ev.lhs)
                rhs = strip(ev.rhs)
                if rhs[0] == 'call' and rhs[1] in ('std::min', 'std::max') and a in rhs[3]:
                    accs[a] = a[2]
            elif ev.kind == 'call' and ev.q in helpers:
                for a in ev.args:
                    a0 = strip(a)
                    if a0[0] == 'un' and a0[1] == '&' and a0[2][0] == 'var' and a0[2][1] == 'local':
                        accs[a0[2]] = a0[2][2]
    return accs


def run_rounds(ctx, P, A):
    ctx.rule('R3', 'an accumulation never continues from a value that was already consumed: between the use of a minimum and the next update of the same '
             'accumulator, the accumulator is reset to its sentinel (or overwritten by a first candidate)', 4)
    helpers = {L + 'saturated_constraints_update'}
    targets = [L + 'MaxMin::maxmin_solve', L + 'Variable::get_min_concurrency_slack', L + 'FairBottleneck::do_solve']
    for q in targets:
        fs = [f for f in P.fns.values() if f['q'] == q and f.get('blocks')]
        if not fs:
            raise AnalysisBroken('anchor %s not found' % q)
        f = fs[0]
        v = A.view(f)
        accs = accumulators_of(A, f, helpers)
        # the guarded form `if (x < acc) acc = x` has no std::min: add the R1 sites of this function
        for sq, pred, name in SITES:
            if sq == q:
                for d in lib.extremum_updates(A, f, pred):
                    a = strip(d['acc'])
                    if a[0] == 'var' and a[1] == 'local':
                        accs[a] = a[2]
        ctx.require(bool(accs), 'R3', '%s: no local accumulator recognised' % q)
        for acc, name in sorted(accs.items(), key=lambda kv: kv[1]):
            guards = internal_guards(v, acc, helpers)
            bad = []
            seen_upd = [0]

            def transfer(st, ev, acc=acc, guards=guards, bad=bad, seen_upd=seen_upd):
                if ev.kind == 'branch':
                    if not ex.mentions(ev.atom, acc):
                        return st
                    if ev.bid in guards:
                        if st == 'C':
                            bad.append((ev.line or v.elem_line(v.blocks[ev.bid].get('t', {}).get('c', 0)), 'the update test reads'))
                        return st
                    return 'C' if st == 'V' else st
                k = acc_touch(acc, ev, helpers)
                if k is None:
                    return st
                if k == 'reset':
                    return 'S'
                if k == 'fresh':
                    return 'V'
                if k == 'update':
                    seen_upd[0] += 1
                    if st == 'C':
                        bad.append((ev.line, 'the update reads'))
                    return 'V'
                return 'C' if st == 'V' else st
            cfg.abstract_run(A, f, 'S', transfer)
            ctx.require(seen_upd[0] > 0 or bool(guards), 'R3', '%s: no update of %s met' % (q, name))
            inst = '%s: %s is reset between its use and its next update' % (q.replace(L, ''), name)
            if bad:
                line, what = sorted(set(bad))[0]
                ctx.violation('R3', inst, where(f, line), '%s %s after it was consumed, with no reset in between: the next round starts from the previous '
                              'round\'s minimum' % (what, name), key='R3|%s|%s' % (q.rsplit('::', 1)[-1], name))
            else:
                ctx.holds('R3', inst, where(f), 'typestate sentinel -> accumulating -> consumed over every path; %d internal test(s)' % len(guards))


# ---- R4: units ------------------------------------------------------------------------------------------------------------------------------------
def lmm_dims():
    D = dims.Dims(('rate', 'penalty', 'weight'), {})
    u = D.unit
    D.fields = {
        L + 'Variable::value_': u(rate=1), L + 'Variable::bound_': u(rate=1), L + 'Variable::mu_': u(rate=1),
        L + 'Variable::sharing_penalty_': u(penalty=1), L + 'Variable::staged_sharing_penalty_': u(penalty=1),
        L + 'Element::consumption_weight': u(weight=1), L + 'Element::max_consumption_weight': u(weight=1),
        L + 'Constraint::bound_': u(weight=1, rate=1), L + 'Constraint::dynamic_bound_': u(weight=1, rate=1), L + 'Constraint::remaining_': u(weight=1, rate=1),
        L + 'Constraint::usage_': u(weight=1, penalty=-1),       # maxmin: sum (or max) of weight/penalty over the enabled elements
        L + 'ConstraintLight::remaining_over_usage': u(rate=1, penalty=1),
    }
    # fair bottleneck keeps the share of the constraint (remaining_/nb) in usage_
    D.overrides = {L + 'FairBottleneck::': {L + 'Constraint::usage_': u(weight=1, rate=1)}}
    D.globals_one = {'sg_precision_workamount', 'sg_precision_timing'}
    D.same_unit = {'double_update': (0, 1), 'double_equals': (0, 1)}
    D.passthrough = {'std::fabs', 'fabs', 'std::abs'}
    D.indirect_fields = {L + 'Constraint::dyn_constraint_cb_': 0}
    D.getters = {L + 'Variable::get_value': u(rate=1), L + 'Variable::get_bound': u(rate=1), L + 'Variable::get_penalty': u(penalty=1),
                 L + 'Constraint::get_bound': u(weight=1, rate=1), L + 'Constraint::get_load': u(weight=1, rate=1)}
    return D


def run_dimensions(ctx, P, A):
    ctx.rule('R4', 'units of the filling arithmetic: with value_/bound_ in [rate], sharing_penalty_ in [penalty], consumption_weight in [weight], capacities '
             '(bound_, dynamic_bound_, remaining_) in [weight·rate], usage_ in [weight/penalty] and the saturation ratios in [rate·penalty], both sides '
             'of every store, comparison, min/max and double_update/double_equals of the lmm classes carry the same unit', 60)
    D = lmm_dims()
    fns = [f for f in P.fns.values() if f['q'].startswith(L) and f.get('blocks') and 'Bmf' not in f['q']]
    D.run(A, sorted(fns, key=lambda f: f['key']))
    byfn = {}
    for r in D.decided:
        byfn.setdefault(r['fn'], []).append(r)
    for r in D.decided:
        ctx.holds('R4', '%s: %s %s %s' % (r['fn'].replace(L, ''), r['a'][:70], r['what'], r['b'][:70]), '', '[%s]' % D.show(r['da']))
    for r in D.conflicts:
        f = [x for x in fns if x['q'] == r['fn']][0]
        ctx.violation('R4', '%s: %s %s %s' % (r['fn'].replace(L, ''), r['a'][:70], r['what'], r['b'][:70]), where(f, r['line']),
                      'left side in [%s], right side in [%s]' % (D.show(r['da']), D.show(r['db'])),
                      key='R4|%s|%s %s %s' % (r['fn'].rsplit('::', 1)[-1].split('<')[0], r['a'][:60], r['what'], r['b'][:60]))
    ctx.count('unit sites with one side not understood (not decided)', len(D.undecided))
    for r in D.undecided[:40]:
        ctx.holds('R4', 'not decided: %s: %s %s %s' % (r['fn'].replace(L, ''), r['a'][:70], r['what'], r['b'][:70]), '', 'one side has no unit in the table')
    # the sites that carry the fairness argument must be among the decided ones
    must = [('MaxMin::maxmin_solve', 'value_'), ('MaxMin::maxmin_solve', 'remaining_over_usage'), ('MaxMin::maxmin_solve', 'double_update'),
            ('saturated_constraints_update', 'min_usage'), ('FairBottleneck::do_solve', 'min_inc')]
    for fq, frag in must:
        ok = any(fq in r['fn'] and (frag in r['a'] or frag in r['b'] or frag == r['what']) for r in D.decided + D.conflicts)
        ctx.require(ok, 'R4', 'no decided unit site mentions %s in %s' % (frag, fq))


# ---- R5..R9: structure of the filling rounds --------------------------------------------------------------------------------------------------------
def fld(t, name):
    return t[0] == 'field' and t[2].endswith('::' + name)


def run_fill_structure(ctx, P, A):
    fs = sorted([f for f in P.fns.values() if f['q'] == L + 'MaxMin::maxmin_solve' and f.get('blocks')], key=lambda f: f['key'])
    if not fs:
        raise AnalysisBroken('anchor MaxMin::maxmin_solve not found')
    f = fs[0]
    v = A.view(f)
    # ---- R5 the "already fixed" marker ----------------------------------------------------------------------------------------------------------
    ctx.rule('R5', 'value_ > 0 marks the variables fixed in this solve: INIT zeroes value_ of every enabled element of the constraints it processes '
             '(not only of the consuming ones), and the recomputation of a FATPIPE usage_ keeps only variables whose value_ is not positive', 2)
    zero = recomputed = 0
    for eid in range(len(f['elems'])):
        for ev in v.events_of(eid):
            if ev.kind != 'assign':
                continue
            lhs, rhs = strip(ev.lhs), strip(ev.rhs)
            if fld(lhs, 'value_') and ev.op == '=' and rhs in (('int', 0), ('float', 0.0)):
                IN, tgt, _ = lib.dominating_facts(A, f, f['elems'][eid]['x'], with_lines=True, with_preds=True)
                facts = IN.get(tgt, set())
                weight = [a for a, t_, l_ in facts if 'consumption_weight' in repr(a)]
                zero += 1
                ctx.check(not weight, 'R5', 'maxmin_solve: INIT zeroes value_ of every enabled element', where(f, ev.line),
                          'the store is %s' % ('under a test of consumption_weight: variables that do not consume keep the value of the previous solve and read as fixed' if weight else 'unconditional in the loop over enabled_element_set_'),
                          key='R5|maxmin_solve|value_ zeroed')
            if fld(lhs, 'usage_') and rhs[0] == 'call' and rhs[1] == 'std::max' and any(fld(strip(a), 'usage_') for a in rhs[3]):
                IN, tgt, _ = lib.dominating_facts(A, f, f['elems'][eid]['x'], with_lines=True, with_preds=True)
                facts = IN.get(tgt, set())
                skip = False
                for a, t_, l_ in facts:
                    if a[0] == 'bin' and fld(strip(a[2]), 'value_') and strip(a[3]) in (('int', 0), ('float', 0.0)):
                        if (a[1] == '<=' and t_) or (a[1] == '>' and not t_) or (a[1] == '==' and t_):
                            skip = True
                recomputed += 1
                ctx.check(skip, 'R5', 'maxmin_solve: the FATPIPE usage_ is recomputed over the variables not yet fixed', where(f, ev.line),
                          'the candidate is taken %s' % ('only when value_ <= 0' if skip else 'whatever value_ is: a fixed variable keeps the constraint in the table'),
                          key='R5|maxmin_solve|fatpipe recompute skips fixed')
    if recomputed >= 1 and zero == 0:
        ctx.violation('R5', 'maxmin_solve: INIT zeroes value_ of every enabled element', where(f), 'value_ > 0 is tested as the "fixed" marker but maxmin_solve never '
                      'stores 0 to value_: the values of the previous solve read as fixed', key='R5|maxmin_solve|value_ zeroed')
    else:
        ctx.require(zero >= 1, 'R5', 'no store value_ = 0 in maxmin_solve')
    ctx.require(recomputed >= 1, 'R5', 'no std::max recomputation of usage_ in maxmin_solve')

    # ---- R6 swap-remove of the light table ------------------------------------------------------------------------------------------------------
    ctx.rule('R6', 'removal of a constraint from cnst_light_tab: the last entry is copied into the freed slot before the count is decremented, the moved '
             'entry\'s back pointer is re-pointed after the copy, and the removed constraint\'s back pointer is cleared after that (the removed entry may '
             'be the last one)', 2)
    nrem = 0
    for b in v.blocks:
        seq = []
        for eid in b.get('e', []):
            for ev in v.events_of(eid):
                if ev.kind == 'call' and ev.q.endswith('ConstraintLight::operator='):
                    seq.append(('copy', ev))
                elif ev.kind == 'assign' and fld(strip(ev.lhs), 'cnst_light_'):
                    rhs = strip(ev.rhs)
                    seq.append(('clear' if rhs[0] == 'null' or rhs == ('int', 0) else 'repoint', ev))
                elif ev.kind == 'incdec' and ev.lhs[0] == 'var' and ev.lhs[2] == 'cnst_light_num' and '--' in ev.op:
                    seq.append(('dec', ev))
                elif ev.kind == 'assign' and ev.lhs[0] == 'var' and ev.lhs[2] == 'cnst_light_num' and ev.op in ('-=', '='):
                    seq.append(('dec', ev))
        kinds = [k for k, _ in seq]
        if 'clear' not in kinds:
            continue
        nrem += 1
        line = seq[0][1].line
        pos = {k: kinds.index(k) for k in set(kinds)}
        ok = all(k in pos for k in ('copy', 'repoint', 'clear', 'dec')) and pos['copy'] < pos['dec'] and pos['copy'] < pos['repoint'] < pos['clear']
        ctx.check(ok, 'R6', 'maxmin_solve: removal sequence at line %s' % line, where(f, line), 'order: %s' % ' ; '.join(kinds),
                  key='R6|maxmin_solve|removal order')
    ctx.require(nrem >= 2, 'R6', 'fewer than two removal sequences recognised in maxmin_solve (%d)' % nrem)

    # ---- R7 the ratio of a kept constraint follows its remaining_/usage_ -----------------------------------------------------------------------------
    ctx.rule('R7', 'after the capacity or the usage of a constraint is debited for a fixed variable, the constraint either leaves the light table or its '
             'remaining_over_usage is recomputed as remaining_/usage_ before the next element is handled', 1)
    bad = []
    debits = [0]

    def transfer(st, ev):
        if ev.kind == 'assign':
            lhs, rhs = strip(ev.lhs), strip(ev.rhs)
            if lhs[0] == 'var' and lhs[2].startswith('__range') and fld(rhs, 'cnsts_'):
                return ('in', lhs[2][7:], False)
            if st[0] != 'in':
                return st
            if fld(lhs, 'usage_') or fld(lhs, 'remaining_'):
                debits[0] += 1
                return (st[0], st[1], True)
            if fld(lhs, 'remaining_over_usage'):
                good = rhs[0] == 'bin' and rhs[1] == '/' and fld(strip(rhs[2]), 'remaining_') and fld(strip(rhs[3]), 'usage_')
                return (st[0], st[1], st[2] and not good)
            if fld(lhs, 'cnst_light_') and (rhs[0] == 'null' or rhs == ('int', 0)):
                return (st[0], st[1], False)
            return st
        if st[0] != 'in':
            return st
        if ev.kind == 'call':
            if ev.q == 'double_update' and ev.args and strip(ev.args[0])[0] == 'un' and (fld(strip(ev.args[0])[2], 'usage_') or fld(strip(ev.args[0])[2], 'remaining_')):
                debits[0] += 1
                return (st[0], st[1], True)
            if ev.q.endswith('::operator++') and ev.obj is not None and ev.obj[0] == 'var' and ev.obj[2] == '__begin' + st[1]:
                if st[2]:
                    bad.append(ev.line)
                return (st[0], st[1], False)
            return st
        if ev.kind == 'branch' and ev.atom[0] == 'truthy' and fld(strip(ev.atom[1]), 'cnst_light_') and not ev.pol:
            return (st[0], st[1], False)
        return st
    cfg.abstract_run(A, f, ('out', '', False), transfer)
    ctx.require(debits[0] >= 2, 'R7', 'no debit of remaining_/usage_ recognised in the loop over the elements of a fixed variable')
    ctx.check(not bad, 'R7', 'maxmin_solve: every debited constraint leaves the table or gets its ratio recomputed', where(f, bad[0] if bad else None),
              'a path reaches the next element with remaining_/usage_ changed and remaining_over_usage stale: the next round picks its bottleneck from an old ratio' if bad
              else '%d debit event(s) followed on every path' % debits[0], key='R7|maxmin_solve|ratio refreshed')

    # ---- R8 the capacity used by the filling is the adjusted one -------------------------------------------------------------------------------------
    ctx.rule('R8', 'MaxMin reads Constraint::bound_ only to initialise dynamic_bound_ (directly or through dyn_constraint_cb_): every later capacity '
             'comes from dynamic_bound_', 1)
    nb = 0
    for g in [f]:
        gv = A.view(g)
        for eid in range(len(g['elems'])):
            for ev in gv.events_of(eid):
                if ev.kind != 'assign':
                    continue
                rhs = strip(ev.rhs)
                reads = [t for t in ex.subterms(rhs) if t[0] == 'field' and t[2] == L + 'Constraint::bound_']
                if not reads:
                    continue
                nb += 1
                ctx.check(fld(strip(ev.lhs), 'dynamic_bound_'), 'R8', 'maxmin_solve: bound_ feeds %s' % ex.pretty(ev.lhs), where(g, ev.line),
                          'bound_ is the unadjusted capacity' if not fld(strip(ev.lhs), 'dynamic_bound_') else 'initialisation of the adjusted capacity',
                          key='R8|maxmin_solve|bound_ feeds %s' % ex.pretty(ev.lhs)[-30:])
    ctx.require(nb >= 1, 'R8', 'no read of Constraint::bound_ in MaxMin')

    # ---- R9 one activity test ----------------------------------------------------------------------------------------------------------------------
    ctx.rule('R9', 'every test of consumption_weight in the maxmin and fair-bottleneck filling compares it with 0 ("consumes"): the sets of active elements, '
             'saturated variables and usage contributors are defined by the same predicate', 4)
    nt = 0
    for g in sorted([x for x in P.fns.values() if x.get('blocks') and (x['q'] in (L + 'MaxMin::maxmin_solve', L + 'saturated_variable_set_update', L + 'FairBottleneck::do_solve') or x['q'].startswith(L + 'FairBottleneck::do_solve'))], key=lambda x: x['key']):
        if g['q'] == L + 'MaxMin::maxmin_solve' and g is not f:
            continue
        gv = A.view(g)
        for b in g['blocks']:
            c = gv.cond_atom(b['id'])
            if c is None:
                continue
            for t in ex.subterms(c[0]):
                if t[0] == 'bin' and t[1] in dims.ARITH_CMP and (fld(strip(t[2]), 'consumption_weight') or fld(strip(t[3]), 'consumption_weight')):
                    other = strip(t[3]) if fld(strip(t[2]), 'consumption_weight') else strip(t[2])
                    if other[0] not in ('int', 'float'):
                        continue
                    nt += 1
                    line = gv.elem_line(b['t']['c']) if 'c' in (b.get('t') or {}) else g['line']
                    ctx.check(other[1] == 0, 'R9', '%s: %s' % (g['q'].replace(L, '').split('<')[0], ex.pretty(t)), where(g, line),
                              'threshold %s' % other[1], key='R9|%s|%s' % (g['q'].rsplit('::', 1)[-1].split('<')[0], ex.pretty(t)))
    ctx.require(nt >= 4, 'R9', 'fewer than 4 tests of consumption_weight recognised (%d)' % nt)


def run(ctx):
    P = ctx.load(UNITS)
    A = ctx.analyzer
    ctx.rule('R1', 'each "keep the smallest" accumulator of the filling algorithms stores the value it compares, in the direction smaller (or fills the unset sentinel)', 8)
    for q, pred, name in SITES:
        fs = [f for f in P.fns.values() if f['q'] == q and f.get('blocks')]
        if not fs:
            raise AnalysisBroken('anchor %s not found' % q)
        done = 0
        for f in fs[:1]:
            done = check_min_accumulator(ctx, A, f, pred, name, 'R1')
        ctx.require(done >= 1, 'R1', '%s: no update of %s recognised' % (q, name))
    # ---- R2 ties -------------------------------------------------------------------------------------------------------------------------------
    ctx.rule('R2', 'saturated_constraints_update: a new minimum resets the saturated set to that constraint; a tie appends it; a larger ratio leaves it unchanged', 1)
    f = P.fn(L + 'saturated_constraints_update')
    v = A.view(f)
    shapes = set()
    for p in v.paths():
        if p.exit in ('noreturn', 'cut'):
            continue
        evs = v.path_events(p)
        eq = [e.pol for e in evs if e.kind == 'branch' and e.atom[0] == 'bin' and e.atom[1] == '==' and 'min_usage' in repr(e.atom) and 'usage' in repr(e.atom[3] if e.atom[2][0] == 'un' else e.atom[2])]
        newmin = any(e.kind == 'assign' and e.lhs[0] == 'un' and 'min_usage' in repr(e.lhs) for e in evs)
        assign = [e for e in evs if e.kind == 'call' and e.q.endswith('::assign') and 'saturated_constraints' in repr(e.obj)]
        app = [e for e in evs if e.kind == 'call' and e.q.rsplit('::', 1)[-1] in ('emplace_back', 'push_back') and 'saturated_constraints' in repr(e.obj)]
        shapes.add((newmin, tuple(eq), len(assign), len(app), bool(assign) and assign[0].args[0] == ('int', 1)))
    want = {(True, (), 1, 0, True), (False, (True,), 0, 1, False), (False, (False,), 0, 0, False)}
    ctx.check(shapes == want, 'R2', 'saturated_constraints_update path shapes', where(f), 'shapes (new minimum, tie test, assign, append, assign(1,..)) %s' % sorted(shapes, key=repr), key='R2|saturated_constraints_update|ties')
    run_rounds(ctx, P, A)
    run_dimensions(ctx, P, A)
    run_fill_structure(ctx, P, A)
    ctx.assume('everything numeric (the values of the rates, the precision handling, the BMF fixed point) is not decided')
    return EXPLANATION
