"""C16 — Max-min allocations are fair (DESIGN.md 3, C16, thin): the bottleneck selected at every filling round is the minimum."""
from .. import ex, lib
from ..core import where
from ..ir import AnalysisBroken

UNITS = ['src/kernel/lmm/maxmin.cpp', 'src/kernel/lmm/System.cpp', 'src/kernel/lmm/fair_bottleneck.cpp']
L = 'simgrid::kernel::lmm::'
EXPLANATION = ('Extremum-update coherence of the four "keep the smallest" accumulators of progressive filling: *min_usage in '
               'saturated_constraints_update (the constraint saturated next is the one with the smallest remaining/usage), min_bound in '
               'MaxMin::maxmin_solve (a variable is frozen at its bound only when that bound is the smallest candidate), minslack in '
               'Variable::get_min_concurrency_slack and min_inc in FairBottleneck::do_solve.  Every update stores the value it compares, in the '
               'direction "smaller", or stores it because the accumulator still holds its unset sentinel; resets only write the sentinel.  Ties with '
               'the current minimum are added to the saturated set, a new minimum resets it.')

SITES = [
    (L + 'saturated_constraints_update', lambda t: t[0] == 'un' and t[1] == '*' and t[2][0] == 'var' and t[2][2] == 'min_usage', '*min_usage'),
    (L + 'MaxMin::maxmin_solve', lambda t: t[0] == 'var' and t[2] == 'min_bound', 'min_bound'),
    (L + 'Variable::get_min_concurrency_slack', lambda t: t[0] == 'var' and t[2] == 'minslack', 'minslack'),
    (L + 'FairBottleneck::do_solve', lambda t: t[0] == 'var' and t[2] == 'min_inc', 'min_inc'),
]


def is_sentinel_value(t):
    t0 = t
    while t0[0] in ('cast', 'conv'):
        t0 = t0[2]
    if t0[0] in ('int', 'float'):
        return True
    return t0[0] == 'call' and t0[1].endswith('::max') and 'numeric_limits' in t0[1]


def check_min_accumulator(ctx, A, f, pred, name, rule, role='min', same_candidate=True):
    """shared with C20: every update of the accumulator is coherent with the role"""
    ups = lib.extremum_updates(A, f, pred)
    want = 'lt' if role == 'min' else 'gt'
    stored = []
    n = 0
    v = A.view(f)
    blk_of = {}
    for b in v.blocks:
        for eid in b.get('e', []):
            blk_of[eid] = b['id']

    def first_candidate(d):
        """an unconditional store is the first candidate when no other non-sentinel store of the same accumulator can reach it without
        passing through a reset of the accumulator to its sentinel"""
        resets = set(blk_of[x['eid']] for x in ups if x['acc'] == d['acc'] and x['form'] == 'plain' and is_sentinel_value(x['stored']))
        target = blk_of[d['eid']]
        for o in ups:
            if o is d or o['acc'] != d['acc'] or (o['form'] == 'plain' and is_sentinel_value(o['stored'])):
                continue
            seen = set()
            work = [s_ for s_ in v.succs(blk_of[o['eid']])]
            if blk_of[o['eid']] == target and o['eid'] < d['eid']:
                return False
            while work:
                x = work.pop()
                if x in seen or x in resets:
                    continue
                seen.add(x)
                if x == target:
                    return False
                work.extend(v.succs(x))
        return True
    for d in ups:
        inst = '%s: %s update at line %s' % (f['q'].replace(L, '').replace('simgrid::kernel::', ''), name, d['line'])
        key = '%s|%s|%s' % (rule, f['q'].rsplit('::', 1)[-1], name)
        if d['form'] == 'plain':
            ok = is_sentinel_value(d['stored'])
            if not ok and first_candidate(d):
                ctx.holds(rule, inst, where(f, d['line']), 'first candidate after the reset: %s' % ex.pretty(d['stored']))
                stored.append(d['stored'])
                n += 1
                continue
            ctx.check(ok, rule, inst, where(f, d['line']), 'reset to %s' % ex.pretty(d['stored']) if ok else
                      'unconditional store of %s: the accumulator no longer holds the %s of what was compared' % (ex.pretty(d['stored']), role), key=key + ' reset')
            continue
        n += 1
        if d['form'] in ('min-call', 'max-call'):
            ok = d['form'] == ('min-call' if role == 'min' else 'max-call')
            ctx.check(ok, rule, inst, where(f, d['line']), 'std::%s(%s, %s)' % ('min' if d['form'] == 'min-call' else 'max', name, ex.pretty(d['stored'])), key=key + ' direction')
            stored.append(d['stored'])
        elif d['form'] == 'sentinel':
            ctx.check(bool(d.get('coherent_edges')), rule, inst, where(f, d['line']), 'first candidate (accumulator unset: %s %s)' % (ex.pretty(d['sentinel'][0]), d['sentinel'][1]), key=key + ' unset')
            stored.append(d['stored'])
        else:
            same = lib.commut_eq(d['stored'], d['compared'])
            ok = same and d['rel'] == want and bool(d.get('coherent_edges'))
            detail = 'compares %s %s %s, stores %s' % (ex.pretty(d['compared']), {'lt': '<', 'gt': '>', 'le': '<=', 'ge': '>='}.get(d['rel'], d['rel']), name, ex.pretty(d['stored']))
            if not same:
                detail += ': the value kept is not the compared one'
            elif d['rel'] != want:
                detail += ': keeps the %s, the role is %s' % ('larger' if d['rel'] in ('gt', 'ge') else 'smaller-or-equal', role)
            ctx.check(ok, rule, inst, where(f, d['line']), detail, key=key + ' coherence')
            stored.append(d['stored'])
    # all branches keep the same quantity
    if len(stored) > 1 and same_candidate and name not in ('min_inc',):
        ctx.check(all(lib.commut_eq(s, stored[0]) for s in stored), rule, '%s: every branch stores the same candidate expression' % name, where(f),
                  ' / '.join(sorted(set(ex.pretty(s) for s in stored))), key='%s|%s|%s same candidate' % (rule, f['q'].rsplit('::', 1)[-1], name))
    return n


def run(ctx):
    P = ctx.load(UNITS)
    A = ctx.analyzer
    ctx.rule('R1', 'each "keep the smallest" accumulator of the filling algorithms stores the value it compares, in the direction smaller (or fills the unset sentinel)', 8)
    for q, pred, name in SITES:
        fs = [f for f in P.fns.values() if f['q'] == q and f.get('blocks')]
        if not fs:
            raise AnalysisBroken('anchor %s not found' % q)
        done = 0
        for f in fs[:1]:
            done = check_min_accumulator(ctx, A, f, pred, name, 'R1')
        ctx.require(done >= 1, 'R1', '%s: no update of %s recognised' % (q, name))
    # ---- R2 ties -------------------------------------------------------------------------------------------------------------------------------
    ctx.rule('R2', 'saturated_constraints_update: a new minimum resets the saturated set to that constraint; a tie appends it; a larger ratio leaves it unchanged', 1)
    f = P.fn(L + 'saturated_constraints_update')
    v = A.view(f)
    shapes = set()
    for p in v.paths():
        if p.exit in ('noreturn', 'cut'):
            continue
        evs = v.path_events(p)
        eq = [e.pol for e in evs if e.kind == 'branch' and e.atom[0] == 'bin' and e.atom[1] == '==' and 'min_usage' in repr(e.atom) and 'usage' in repr(e.atom[3] if e.atom[2][0] == 'un' else e.atom[2])]
        newmin = any(e.kind == 'assign' and e.lhs[0] == 'un' and 'min_usage' in repr(e.lhs) for e in evs)
        assign = [e for e in evs if e.kind == 'call' and e.q.endswith('::assign') and 'saturated_constraints' in repr(e.obj)]
        app = [e for e in evs if e.kind == 'call' and e.q.rsplit('::', 1)[-1] in ('emplace_back', 'push_back') and 'saturated_constraints' in repr(e.obj)]
        shapes.add((newmin, tuple(eq), len(assign), len(app), bool(assign) and assign[0].args[0] == ('int', 1)))
    want = {(True, (), 1, 0, True), (False, (True,), 0, 1, False), (False, (False,), 0, 0, False)}
    ctx.check(shapes == want, 'R2', 'saturated_constraints_update path shapes', where(f), 'shapes (new minimum, tie test, assign, append, assign(1,..)) %s' % sorted(shapes, key=repr), key='R2|saturated_constraints_update|ties')
    ctx.assume('everything numeric (the rates, the precision handling, the BMF fixed point) is not decided')
    return EXPLANATION
