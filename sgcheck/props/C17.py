"""C17 — Selective (lazy) solving equals full recomputation: the invalidation discipline (DESIGN.md 3, C17)."""
from .. import cg, ex, lib, ir
from ..core import where
from ..ir import AnalysisBroken

SYS = 'simgrid::kernel::lmm::System'
VAR = 'simgrid::kernel::lmm::Variable'
CNS = 'simgrid::kernel::lmm::Constraint'
ELE = 'simgrid::kernel::lmm::Element'
EXPLANATION = ('Necessary condition of "lazy = fresh": every solver input (variable penalty and bound, constraint bound/policy/'
               'callback/limit, element weight, membership in the enabled/disabled sets) is written only inside the lmm classes, and '
               'every path of a public System operation that writes one raises modified_ and reaches update_modified_cnst_set* for the '
               'affected object unless the written variable is disabled on that path; solve() clears the modified set only after '
               'do_solve(); the recursive marking skips only variables carrying the current visit counter.')
INPUT_FIELDS = [VAR + '::sharing_penalty_', VAR + '::bound_', CNS + '::bound_', CNS + '::sharing_policy_', CNS + '::dyn_constraint_cb_',
                CNS + '::concurrency_limit_', ELE + '::consumption_weight']
SETS = ('enabled_element_set_', 'disabled_element_set_')
# setters used only while the platform is built, before the first solve: checked by who-may-call instead (reason per line)
PRE_SOLVE_SETTERS = {
    CNS + '::set_sharing_policy': 'called from resource constructors / seal paths only',
    CNS + '::unshare': 'FATPIPE marking at resource creation',
    CNS + '::set_concurrency_limit': 'resource creation and tests',
    CNS + '::Constraint': 'constructor',
    VAR + '::initialize': 'variable creation (variable_new), the variable has no element yet',
    ELE + '::Element': 'constructor',
}


def run(ctx):
    units = ir.units_including(['src/kernel/lmm/System.hpp'])
    P = ctx.load(units)
    A = ctx.analyzer
    for q in INPUT_FIELDS:
        cls = q.rsplit('::', 1)[0]
        if not any(f[2] == q for f in lib.fields(P, cls)):
            raise AnalysisBroken('solver input field %s not found' % q)
    lmm_classes = P.subclasses(SYS) | {CNS, VAR, ELE}

    # ---- R1 who may write -----------------------------------------------------------------------------------------------------
    ctx.rule('R1', 'solver inputs are written only by members of the lmm classes (System and its solvers, Constraint, Variable, Element)', 10)
    writers = {}
    for q in INPUT_FIELDS:
        for u in lib.field_uses(P, q):
            if u.kind != 'write':
                continue
            cls = u.fn.get('cls')
            if cls == '<lambda>':
                par = u.fn.get('parent', '')
                cls = par.split('(')[0].rsplit('::', 1)[0]
            ok = cls in lmm_classes
            writers.setdefault(u.fn['q'], set()).add(q)
            ctx.check(ok, 'R1', 'write of %s in %s' % (q.replace('simgrid::kernel::lmm::', ''), u.fn['q'].replace('simgrid::kernel::', '')), where(u.fn, u.line),
                      'inside the lmm classes' if ok else 'a solver input is modified outside lmm::System: the selective-update bookkeeping cannot see this change',
                      key='R1|%s|%s' % (u.fn['q'], q.rsplit('::', 1)[-1]))
    ctx.count('call_sites', sum(len(v) for v in writers.values()))

    # ---- R2 every writing path of a public System operation invalidates -----------------------------------------------------------
    ctx.rule('R2', 'every path of a public System operation that writes a solver input sets modified_ and reaches update_modified_cnst_set* (unless the variable is disabled on that path)', 6)
    sysc = lib.class_of(P, SYS)
    publics = [m for m in sysc['methods'] if m.get('access') == 0 and m['key'] in P.fns]
    helpers = set(f['key'] for f in P.methods_of(SYS)) | set(f['key'] for f in P.methods_of(ELE)) | set(f['key'] for f in P.methods_of(VAR)) | set(f['key'] for f in P.methods_of(CNS))

    def inl(ev, callee):
        if callee['key'] not in helpers:
            return False
        q = callee['q']
        if q in PRE_SOLVE_SETTERS:
            return False
        # the marking functions themselves and pure queries are not expanded
        if q.startswith(SYS + '::update_modified_cnst_set') or q in (SYS + '::check_concurrency', SYS + '::on_disabled_var', SYS + '::print', SYS + '::do_solve'):
            return False
        return True

    def is_input_write(e):
        if e.kind in ('assign', 'incdec') and e.lhs[0] == 'field' and e.lhs[2] in INPUT_FIELDS and not e.decl:
            return True
        if e.kind == 'call' and e.obj is not None and e.obj[0] == 'field' and e.obj[2].rsplit('::', 1)[-1] in SETS and \
                e.q.rsplit('::', 1)[-1] in ('push_front', 'push_back', 'erase', 'clear'):
            return True
        if e.kind == 'call' and e.q == 'simgrid::xbt::intrusive_erase' and e.args and e.args[0][0] == 'field' and e.args[0][2].rsplit('::', 1)[-1] in SETS:
            return True
        return False

    from ..cfg import abstract_run
    MODF = lib.this_field(SYS + '::modified_')

    def transfer(st, e):
        wrote, mod, upd, disabled, iterated = st
        if is_input_write(e):
            what = (ex.pretty(e.lhs) if e.kind != 'call' else e.q.rsplit('::', 1)[-1] + ' on ' + (e.obj[2].rsplit('::', 1)[-1] if e.obj else e.args[0][2].rsplit('::', 1)[-1]))
            wrote = wrote | frozenset([what.split('.')[-1]])
        if e.kind == 'assign' and e.lhs[0] == 'field' and e.lhs[2] == SYS + '::modified_' and e.rhs == ('bool', True):
            mod = True
        if e.kind == 'call' and e.q.startswith(SYS + '::update_modified_cnst_set'):
            upd = True
        if e.kind == 'branch':
            r = repr(e.atom)
            if 'sharing_penalty_' in r and ((e.atom[0] == 'bin' and e.atom[1] == '<=' and e.pol) or (e.atom[0] == 'truthy' and not e.pol) or
                                            (e.atom[0] == 'bin' and e.atom[1] == '==' and e.atom[3] in (('int', 0), ('float', 0.0)) and e.pol)):
                disabled = True
            # a variable without any element touches no constraint: `cnsts_.empty()` or a traversal that ends before its first element
            if e.atom[0] == 'truthy' and e.atom[1][0] == 'call' and e.atom[1][1].endswith('::empty') and e.atom[1][2][0] == 'field' and e.atom[1][2][2] == VAR + '::cnsts_' and e.pol:
                disabled = True
            if e.atom[0] == 'bin' and e.atom[1] == '==' and e.atom[2][0] == 'var' and e.atom[3][0] == 'var' and {e.atom[2][2][:7], e.atom[3][2][:5]} & {'__begin', '__end'}:
                if e.pol and not iterated:
                    disabled = True
                if not e.pol:
                    iterated = True
        return (wrote, mod, upd, disabled, iterated)

    nops = 0
    memo = {}
    for m in sorted(publics, key=lambda x: x['key']):
        f = P.fns[m['key']]
        if f['q'] in (SYS + '::solve', SYS + '::System', SYS + '::~System') or f.get('kind') in ('ctor', 'dtor'):
            continue
        exits = abstract_run(A, f, (frozenset(), False, False, False, False), transfer, inline=inl, depth=4, _memo=memo)
        short = f['q'].rsplit('::', 1)[-1]
        wrote_any = False
        for (wrote, mod, upd, disabled, iterated) in sorted(exits['normal'], key=repr):
            ctx.count('paths')
            if not wrote:
                continue
            wrote_any = True
            what = ', '.join(sorted(wrote))[:140]
            ctx.check(mod, 'R2', '%s: exit state writing {%s} has modified_ raised' % (short, what), where(f),
                      'modified_ = true %s' % ('present' if mod else 'MISSING on some path: solve() would return without recomputing'), key='R2|%s|modified_ not set' % short)
            if upd or disabled:
                ctx.holds('R2', '%s: exit state writing {%s} %s' % (short, what, 'marks the affected constraints' if upd else 'touches a disabled variable only'), where(f), '')
            else:
                ctx.violation('R2', '%s: some path writing {%s} never marks the affected constraint as modified' % (short, what), where(f),
                              'no call to update_modified_cnst_set / update_modified_cnst_set_from_variable on that path: under selective update the change is not propagated',
                              key='R2|%s|no marking' % short)
        if wrote_any:
            nops += 1
    ctx.require(nops >= 4, 'R2', 'only %d writing public operations recognised' % nops)
    # frozen exceptions: setters that do not invalidate must only be reached from construction code
    for q, reason in PRE_SOLVE_SETTERS.items():
        if q in writers:
            ctx.holds('R2', 'exception %s' % q.replace('simgrid::kernel::lmm::', ''), '', reason)

    # ---- R3 solve ordering --------------------------------------------------------------------------------------------------------
    ctx.rule('R3', 'solve(): returns early only when not modified; the modified set is cleared and modified_ reset only after do_solve()', 1)
    sv = P.fn(SYS + '::solve')
    v = A.view(sv)
    MOD = lib.this_field(SYS + '::modified_')
    for p in v.paths():
        if p.exit in ('noreturn', 'cut', 'throw'):
            continue
        evs = v.path_events(p)
        names = []
        for e in evs:
            if e.kind == 'call' and e.q in (SYS + '::do_solve', SYS + '::remove_all_modified_cnst_set'):
                names.append(e.q.rsplit('::', 1)[-1])
            if e.kind == 'assign' and e.lhs == MOD:
                names.append('modified_=' + ex.pretty(e.rhs))
        m0 = [e.pol for e in evs if e.kind == 'branch' and e.atom == lib.truthy(MOD)]
        if m0 and m0[0] is False:
            ctx.check(not names, 'R3', 'solve: nothing to do when not modified', where(sv), str(names), key='R3|solve|early return')
        else:
            ok = names[:2] == ['do_solve', 'modified_=false'] and (len(names) == 2 or names[2:] == ['remove_all_modified_cnst_set'])
            ctx.check(ok, 'R3', 'solve: do_solve, then reset modified_, then clear the modified set', where(sv), str(names), key='R3|solve|order')

    # ---- R4 marking ------------------------------------------------------------------------------------------------------------------
    ctx.rule('R4', 'update_modified_cnst_set_rec stamps each visited variable with the current counter and skips only variables carrying it; the counter wrap resets every stamp', 2)
    rec = P.fn(SYS + '::update_modified_cnst_set_rec')
    v = A.view(rec)
    VC = lib.this_field(SYS + '::visited_counter_')
    stamped = skipped = False
    for p in v.paths():
        evs = v.path_events(p)
        for e in evs:
            if e.kind == 'assign' and e.lhs[0] == 'field' and e.lhs[2] == VAR + '::visited_' and e.rhs == VC:
                stamped = True
            if e.kind == 'branch' and e.atom[0] == 'bin' and e.atom[1] == '==' and {e.atom[2], e.atom[3]} >= {VC} and any(t[0] == 'field' and t[2] == VAR + '::visited_' for t in (e.atom[2], e.atom[3])):
                skipped = True
    ctx.check(stamped and skipped, 'R4', 'update_modified_cnst_set_rec: stamp = counter, skip iff stamp == counter', where(rec), 'stamped=%s skip-test=%s' % (stamped, skipped), key='R4|rec|stamp')
    # closure: every constraint the walk adds to the modified set is walked in turn (the set must be closed under "shares an enabled variable with")
    MS = lib.this_field(SYS + '::modified_constraint_set')
    closed = None
    npush = 0
    for p in v.paths(max_visits=2):
        evs = v.path_events(p)
        for i, e in enumerate(evs):
            if e.kind == 'call' and e.obj == MS and e.q.rsplit('::', 1)[-1] in ('push_back', 'push_front', 'insert') and e.args:
                npush += 1
                what = e.args[0]
                while what[0] in ('un', 'cast', 'conv') and (what[0] != 'un' or what[1] == '*'):
                    what = what[2]
                nxt = [x for x in evs[i + 1:] if x.kind == 'call' and x.q == SYS + '::update_modified_cnst_set_rec']
                good = bool(nxt) and ex.mentions(nxt[0].args[0], what)
                closed = good if closed is None else (closed and good)
    ctx.require(npush >= 1, 'R4', 'update_modified_cnst_set_rec: no insertion into modified_constraint_set found')
    ctx.check(bool(closed), 'R4', 'update_modified_cnst_set_rec: each constraint it adds to the modified set is walked recursively', where(rec),
              '' if closed else 'a constraint is added without being walked: the constraints that share a variable with it are not recomputed', key='R4|rec|closure')
    rm = P.fn(SYS + '::remove_all_modified_cnst_set')
    v = A.view(rm)
    okwrap = okclear = False
    for p in v.paths():
        evs = v.path_events(p)
        inc = [e for e in evs if e.kind == 'incdec' and e.lhs == VC and e.op == '++']
        rst = [e for e in evs if e.kind == 'assign' and e.lhs[0] == 'field' and e.lhs[2] == VAR + '::visited_' and e.rhs == ('int', 0)]
        clr = [e for e in evs if e.kind == 'call' and e.q.endswith('::clear') and e.obj == lib.this_field(SYS + '::modified_constraint_set')]
        if inc and rst:
            okwrap = True
        if inc and clr and p.exit not in ('cut',):
            okclear = True
    ctx.check(okwrap and okclear, 'R4', 'remove_all_modified_cnst_set: bump the counter, reset stamps on wrap-around, clear the set', where(rm), 'wrap=%s clear=%s' % (okwrap, okclear), key='R4|remove_all|wrap')
    # ---- R5 the modified-set walk goes through enabled_element_set_: flag while the variable is still (or already) linked there ----------------
    ctx.rule('R5', 'update_modified_cnst_set_from_variable runs while the elements of the variable are in enabled_element_set_: before they are erased, after they are inserted', 3)
    from ..cfg import abstract_run as _arun
    n5 = 0
    # premise of the rule: the walk really goes through enabled_element_set_ (if it were rewritten to follow var->cnsts_ the order would not matter)
    recf = P.fn(SYS + '::update_modified_cnst_set_rec')
    premise = any(n.get('k') == 'Mem' and (n.get('d') or {}).get('n', '').endswith('::enabled_element_set_') for el in recf['elems'] for n in ex.walk(el['x']))
    ctx.check(premise, 'R5', 'update_modified_cnst_set_rec reaches the neighbours of a constraint through enabled_element_set_ (premise of the ordering rule)', where(recf),
              '' if premise else 'the walk no longer uses enabled_element_set_: the ordering rule has to be re-derived', key='R5|rec|premise')
    if not premise:
        n5 = 3
    for f in (sorted(P.methods_of(SYS), key=lambda f_: f_['key']) if premise else []):
        if not f.get('blocks'):
            continue
        v5 = A.view(f)
        kinds = set()
        for eid in range(len(f['elems'])):
            for e in v5.events_of(eid):
                if e.kind == 'call':
                    k5 = ev_kind(e)
                    if k5:
                        kinds.add(k5)
        if not (kinds & {'E', 'I'}) or f['q'].endswith('::check_concurrency'):
            continue

        def tr5(st, e):
            useen, e_since_i, i_since_u, bad = st
            if e.kind != 'call':
                return None
            k = ev_kind(e)
            if k == 'U':
                return (True, e_since_i, False, bad or ('flagged at line %s after its elements left enabled_element_set_ (line %s): the walk no longer reaches its other constraints' % (e.line, e_since_i) if e_since_i else None))
            if k == 'E':
                return (useen, e_since_i or e.line, i_since_u, bad or (None if useen else 'elements leave enabled_element_set_ at line %s before the variable was flagged' % e.line))
            if k == 'I':
                return (useen, None, e.line, bad)
            return None
        exits = _arun(A, f, (False, None, False, None), tr5)
        sts = exits['normal']
        bad5 = sorted(set(s[3] for s in sts if s[3]))
        late = sorted(set(s[2] for s in sts if s[2] and s[0])) if 'U' in kinds else []
        n5 += 1
        short = f['q'].replace(SYS + '::', '')
        detail = bad5[0] if bad5 else ('elements enter enabled_element_set_ at line %s after the last flagging' % late[0] if late else '')
        ctx.check(bool(sts) and not bad5 and not late, 'R5', '%s: flagging is ordered with the moves of the elements (%s)' % (short, ''.join(sorted(kinds))), where(f), detail, key='R5|%s|order' % short)
    ctx.require(n5 >= 3, 'R5', 'only %d System methods moving elements of enabled_element_set_ found' % n5)
    # ---- R6 flagging a variable flags each of its constraints ----------------------------------------------------------------------------------------
    ctx.rule('R6', 'update_modified_cnst_set_from_variable hands every constraint of the variable to update_modified_cnst_set (a loop over var->cnsts_): reaching the others '
             'through the recursive walk from the first one does not work when that first constraint is already in the modified set, since the walk only starts from a '
             'constraint that is newly added', 1)
    fv_ = P.fn(SYS + '::update_modified_cnst_set_from_variable')
    vv = A.view(fv_)
    varp = lib.parm_i(fv_, 0)
    loop_ok = False
    direct = []
    for h in vv.loop_heads():
        if h['t'].get('k') not in ('CXXForRangeStmt', 'ForStmt', 'WhileStmt'):
            continue
        body = cg.natural_loop(vv, h['id'])
        rng = [d for el in fv_['elems'] if el['x'].get('k') == 'Decl' and el.get('l') == h['t'].get('l') for d in el['x'].get('decls', ())
               if d.get('d', {}).get('n', '').startswith('__range') and d.get('init') is not None]
        over_cnsts = bool(rng) and ex.mentions(vv.norm(rng[0]['init']), ('field', varp, VAR + '::cnsts_')) or any('cnsts_' in repr(vv.cond_atom(b)) for b in body | {h['id']} if vv.cond_atom(b))
        calls = [e for b in body for eid in vv.blocks[b].get('e', []) for e in vv.events_of(eid) if e.kind == 'call' and e.q == SYS + '::update_modified_cnst_set']
        conds = [b for b in body if len(vv.succs(b)) > 1 and not vv.is_log_branch(b)]
        if over_cnsts and calls and not conds:
            loop_ok = True
    inloops = set()
    for h in vv.loop_heads():
        inloops |= cg.natural_loop(vv, h['id'])
    for eid in range(len(fv_['elems'])):
        if fv_['elems'][eid].get('b') in inloops:
            continue
        for e in vv.events_of(eid):
            if e.kind == 'call' and e.q == SYS + '::update_modified_cnst_set' and e.args and any(x[0] in ('idx',) or (x[0] == 'call' and x[1].rsplit('::', 1)[-1] in ('operator[]', 'front', 'back', 'at')) for x in ex.subterms(e.args[0])):
                direct.append(e)
    ctx.check(loop_ok and not direct, 'R6', 'update_modified_cnst_set_from_variable: every constraint of the variable is handed to update_modified_cnst_set', where(fv_, direct[0].line if direct else None),
              ('only %s is flagged: when it is already in the modified set nothing is walked and the other constraints of the variable are not recomputed (two modifications between '
               'two solves: tools/triage/c17_first_constraint_already_marked.cpp)' % ex.pretty(direct[0].args[0])) if direct else ('' if loop_ok else 'no unconditional loop over var->cnsts_ flags the constraints'),
              key='R6|update_modified_cnst_set_from_variable|every constraint')
    ctx.assume('setters listed as pre-solve exceptions are only used while resources are created (not re-verified here)')
    return EXPLANATION


def ev_kind(e):
    """U: flag the constraints of a variable; E: an element leaves enabled_element_set_; I: an element enters it"""
    if e.q.endswith('::update_modified_cnst_set_from_variable'):
        return 'U'
    r = repr(e.nf)
    if 'enabled_element_set_' in r:
        if e.q.endswith('intrusive_erase') and e.args and 'enabled_element_set_' in repr(e.args[0]):
            return 'E'
        if e.q.rsplit('::', 1)[-1] in ('push_front', 'push_back', 'insert') and e.obj is not None and 'enabled_element_set_' in repr(e.obj) and 'disabled' not in repr(e.obj):
            return 'I'
        if e.q.rsplit('::', 1)[-1] in ('erase',) and e.obj is not None and 'enabled_element_set_' in repr(e.obj):
            return 'E'
    return None
