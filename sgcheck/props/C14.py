"""C14 — Real runs conform to the reference interleaving semantics (DESIGN.md 3, C14): deadlock report guard, MC/non-MC agreement."""
from .. import ex, lib, sync
from ..cfg import abstract_run
from ..core import where
from ..ir import AnalysisBroken
from .C13 import _dominating_facts

UNITS = ['src/kernel/EngineImpl.cpp', 'src/s4u/s4u_Mutex.cpp', 'src/s4u/s4u_Semaphore.cpp', 'src/s4u/s4u_ConditionVariable.cpp', 'src/s4u/s4u_Barrier.cpp',
         'src/kernel/activity/MutexImpl.cpp', 'src/kernel/activity/SemaphoreImpl.cpp', 'src/kernel/activity/ConditionVariableImpl.cpp',
         'src/kernel/activity/BarrierImpl.cpp']
K = 'simgrid::kernel::'
EI = K + 'EngineImpl'
ACT = K + 'activity::'
EXPLANATION = ('R1: Engine::on_deadlock has a single emission site, in EngineImpl::run, dominated by elapsed_time < 0, actors_to_run_.empty() and '
               'not actor_list_.empty(), reached on every path on which the three hold, and placed after the timers and the ended actions of the '
               'round were processed (finite-state exploration of run()).  R2: for Mutex::lock, Semaphore::acquire_timeout, '
               'ConditionVariable::do_wait and Barrier::wait, the single-simcall branch used outside the model checker performs the same kernel '
               'operations in the same order as the multi-simcall branch the checker explores, so that real runs are runs of the checked semantics.')


def run(ctx):
    P = ctx.load(UNITS)
    A = ctx.analyzer
    runf = P.fn(EI + '::run')
    v = A.view(runf)

    # ---- R1 ------------------------------------------------------------------------------------------------------------------------------
    ctx.rule('R1', 'on_deadlock is emitted iff elapsed_time < 0 && actors_to_run_.empty() && !actor_list_.empty(), after timers and ended actions were handled', 4)
    sites = []
    for fn in P.fns.values():
        for eid, el in enumerate(fn.get('elems') or ()):
            for n in ex.walk(el['x']):
                if n.get('k') == 'Call' and n.get('obj') is not None:
                    o = ex.expand(fn, n['obj'])
                    if any(m.get('k') == 'Ref' and m['d'].get('n', '').endswith('Engine::on_deadlock') for m in ex.walk(o)) and (n.get('c') or {}).get('q', '').endswith('::operator()'):
                        sites.append((fn, eid, n))
    ctx.check(len(sites) == 1 and sites[0][0]['key'] == runf['key'], 'R1', 'Engine::on_deadlock is emitted from one site, in EngineImpl::run', where(sites[0][0], sites[0][2].get('l')) if sites else '',
              '%d site(s)' % len(sites), key='R1|on_deadlock|single site')
    if len(sites) == 1 and sites[0][0]['key'] == runf['key']:
        fn, eid, node = sites[0]
        IN, target = _dominating_facts(A, fn, node, with_lines=True, all_blocks=True)
        dom = IN.get(target, set())
        # the enclosing `if`: the closest (greatest line) dominating branch; the three conditions must be tested by that statement
        L = max([l for _, _, l in dom if l <= (node.get('l') or 0)] or [0])

        def preds3(facts):
            def has(pred, truth):
                return any(pred(a) and t == truth and l == L for a, t, l in facts)
            c1 = has(lambda a: a[0] == 'bin' and a[1] == '<' and a[2][0] == 'var' and a[2][2] == 'elapsed_time' and a[3] in (('int', 0), ('float', 0.0)), True)
            c2 = has(lambda a: a[0] == 'truthy' and a[1][0] == 'call' and a[1][1].endswith('::empty') and a[1][2] == lib.this_field(EI + '::actors_to_run_'), True)
            c3 = has(lambda a: a[0] == 'truthy' and a[1][0] == 'call' and a[1][1].endswith('::empty') and a[1][2] == lib.this_field(EI + '::actor_list_'), False)
            return c1, c2, c3
        c1, c2, c3 = preds3(dom)
        ctx.check(c1 and c2 and c3, 'R1', 'on_deadlock only under elapsed_time < 0, empty run list, non-empty actor list (tested by the enclosing if, line %s)' % L, where(fn, node.get('l')),
                  'elapsed_time<0: %s, actors_to_run_.empty(): %s, !actor_list_.empty(): %s' % (c1, c2, c3), key='R1|on_deadlock|only if')
        # "if": from the entry of the region where the three hold, every path emits the signal before the next solve()
        region = [b for b, f_ in IN.items() if all(preds3(f_))]
        preds_of = {}
        for b in v.blocks:
            for s_ in v.succs(b['id']):
                preds_of.setdefault(s_, set()).add(b['id'])
        entries = [b for b in region if any(p_ not in region and p_ in IN for p_ in preds_of.get(b, ()))]
        okif = bool(entries)
        for last in entries:
            n = 0
            for p in v.paths(start=last, max_visits=1):
                evs = v.path_events(p)
                n += 1
                hit = False
                for e in evs:
                    if e.kind == 'call' and e.q.endswith('::operator()') and e.obj is not None and 'on_deadlock' in repr(e.obj):
                        hit = True
                        break
                    if e.kind == 'call' and e.q == EI + '::solve':
                        break
                okif = okif and hit
            okif = okif and n >= 1
        ctx.check(okif, 'R1', 'whenever the three conditions hold the deadlock is reported', where(fn, node.get('l')), '%d region entr%s' % (len(entries), 'y' if len(entries) == 1 else 'ies'), key='R1|on_deadlock|if')

        def tr(st, e):
            solved, timers, handled, bad = st
            if e.kind == 'call' and e.q == EI + '::solve':
                return (True, False, False, bad)
            if e.kind == 'call' and e.q.endswith('Timer::execute_all'):
                return (solved, True, False, bad)
            if e.kind == 'call' and e.q == EI + '::handle_ended_actions' and timers:
                return (solved, timers, True, bad)
            if e.kind == 'call' and e.q.endswith('::operator()') and e.obj is not None and 'on_deadlock' in repr(e.obj):
                if not (solved and timers and handled):
                    return (solved, timers, handled, 'deadlock reported before the timers and ended actions of the round were processed')
            return None
        exits = abstract_run(A, runf, (False, False, False, None), tr)
        allst = exits['normal'] | exits['noreturn'] | exits['throw']
        bad = sorted(set(s[3] for s in allst if s[3]))
        ctx.check(bool(allst) and not bad, 'R1', 'the test follows solve(), Timer::execute_all() and handle_ended_actions() of the same round', where(runf), '; '.join(bad), key='R1|on_deadlock|ordering')

    # ---- R2 ------------------------------------------------------------------------------------------------------------------------------------
    ctx.rule('R2', 'the non-MC single-simcall branch of each blocking synchronisation performs the same kernel operations, in the same order, as its MC branch', 4)
    S = 'simgrid::s4u::'
    cases = [
        (S + 'Mutex::lock', (ACT + 'MutexImpl::lock_async', ACT + 'MutexAcquisitionImpl::wait_for')),
        (S + 'Semaphore::acquire_timeout', (ACT + 'SemaphoreImpl::acquire_async', ACT + 'SemAcquisitionImpl::wait_for')),
        (S + 'Barrier::wait', (ACT + 'BarrierImpl::acquire_async', ACT + 'BarrierAcquisitionImpl::wait_for')),
    ]
    for fq, wanted in cases:
        cands = [f for f in P.fns_named(fq) if f.get('blocks')]
        if len(cands) != 1:
            ctx.unrecognised('R2', '%s: %d definitions' % (fq, len(cands)))
            continue
        f = cands[0]
        seqs = sync.lambda_kernel_seqs(ctx, f, wanted)
        kseq = sorted(set(s for _, s in seqs if s))
        mcs = set()
        for conds, s in seqs:
            for a, pol in conds:
                if 'MC_is_active' in repr(a) or 'MC_record_replay' in repr(a):
                    mcs.add(pol)
        names = [tuple(n for n, _ in s) for s in kseq]
        ok = len(seqs) >= 2 and len(set(names)) == 1 and len(names[0]) == 2 and mcs == {True, False}
        ctx.check(ok, 'R2', '%s: MC and non-MC branches' % fq.replace(S, ''), where(f), 'kernel sequences %s' % sorted(set(names)), key='R2|%s|branch agreement' % fq.replace(S, ''))
    # condition variable: the NOMC finish() performs lock_async + wait_for that the MC mode does in two more simcalls
    cvf = P.fn(ACT + 'ConditionVariableAcquisitionImpl::finish')
    vv = A.view(cvf)
    okcv = False
    for p in vv.paths():
        if p.exit in ('noreturn', 'cut'):
            continue
        evs = vv.path_events(p)
        nomc = [e.pol for e in evs if e.kind == 'branch' and 'CONDVAR_NOMC' in repr(e.atom)]
        qs = [e.q for e in evs if e.kind == 'call' and e.q in (ACT + 'MutexImpl::lock_async', ACT + 'MutexAcquisitionImpl::wait_for')]
        if nomc and ((nomc[-1] and qs == []) or True):
            pass
        if qs == [ACT + 'MutexImpl::lock_async', ACT + 'MutexAcquisitionImpl::wait_for']:
            okcv = True
    dw = [f for f in P.fns.values() if f['q'].endswith('do_wait') and f['file'].endswith('s4u_ConditionVariable.cpp') and f.get('blocks')]
    okdw = False
    if len(dw) == 1:
        seqs = sync.lambda_kernel_seqs(ctx, dw[0], (ACT + 'ConditionVariableImpl::acquire_async', ACT + 'ConditionVariableAcquisitionImpl::wait_for',
                                                    ACT + 'MutexImpl::lock_async', ACT + 'MutexAcquisitionImpl::wait_for'))
        names = sorted(set(tuple(n for n, _ in s) for _, s in seqs if s))
        # MC: acquire_async, wait_for, lock_async, wait_for (3 simcalls); non-MC: acquire_async, wait_for (+ lock_async, wait_for inside finish())
        okdw = ('acquire_async', 'wait_for', 'lock_async', 'wait_for') in names and ('acquire_async', 'wait_for') in names and len(names) == 2
        ctx.check(okdw and okcv, 'R2', 'ConditionVariable::do_wait: the non-MC branch (acquire, wait; finish() re-locks) equals the MC branch (acquire, wait, lock, wait)', where(dw[0]),
                  'sequences %s; finish() re-locks: %s' % (names, okcv), key='R2|ConditionVariable::do_wait|branch agreement')
    else:
        ctx.unrecognised('R2', 'ConditionVariable::do_wait: %d definitions' % len(dw))
    ctx.assume('reachability of the reported configuration under the reference semantics (the semantics themselves are C04-C08) is not decided')
    return EXPLANATION
