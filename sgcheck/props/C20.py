"""C20 — Isolated activities follow the documented formulas (DESIGN.md 3, C20, thin): the two minima of the communication formula."""
from .. import cfg, ex, lib
from ..core import where
from ..ir import AnalysisBroken
from .C16 import check_min_accumulator

UNITS = ['src/kernel/resource/models/network_cm02.cpp', 'src/kernel/resource/models/cpu_cas01.cpp', 'src/kernel/resource/NetworkModel.cpp']
M = 'simgrid::kernel::resource::NetworkCm02Model'
EXPLANATION = ('In NetworkCm02Model::comm_action_set_bounds the bandwidth bound is the minimum get_bandwidth() over the non-WIFI links of the route '
               '(extremum coherence with the -1 sentinel) and then the minimum with the user rate when one is given; the latency saved in '
               'lat_current_ is the value before the latency factor is applied; in comm_action_set_variable the variable bound handed to the solver '
               'is min(user bound, gamma / (2 * lat_current_)) when both exist, gamma / (2 * lat_current_) alone without a user bound, and the '
               'user bound alone when latency or gamma is not positive.')


def strip(t):
    while t[0] in ('cast', 'conv'):
        t = t[2]
    return t


def run_more(ctx, P, A, sb, sv_):
    """R4..R10: the remaining structure of the documented formulas (added after a hand-mutation probe, DESIGN.md 3 C20)"""
    v = A.view(sb)
    # ---- R4 the candidates of the bound ----------------------------------------------------------------------------------------------------------
    ctx.rule('R4', 'comm_action_set_bounds: WIFI links never bound the bandwidth; the user rate that competes with the link bandwidths is rate / bw_factor '
             '(the effective rate is value x factor); the action receives the factor on every path', 3)
    ups = lib.extremum_updates(A, sb, lambda t: t[0] == 'var' and t[2] == 'bandwidth_bound')
    nl = 0
    for d in ups:
        if d['form'] == 'plain' or 'get_bandwidth' not in repr(d['stored']):
            continue
        nl += 1
        IN, tgt, _ = lib.dominating_facts(A, sb, sb['elems'][d['eid']]['x'], with_lines=True, with_preds=True)
        wifi = [t_ for a, t_, l_ in IN.get(tgt, ()) if a[0] == 'bin' and a[1] == '==' and 'WIFI' in repr(a) and 'get_sharing_policy' in repr(a)]
        ctx.check(wifi == [False], 'R4', 'comm_action_set_bounds: a link bandwidth is a candidate only when the link is not WIFI', where(sb, d['line']),
                  'facts on the sharing policy: %s' % wifi, key='R4|comm_action_set_bounds|wifi skipped')
    ctx.require(nl >= 1, 'R4', 'link-bandwidth candidate of bandwidth_bound not found')
    rate = lib.parm(sb, 'rate')
    defs = [e for eid in range(len(sb['elems'])) for e in v.events_of(eid) if e.kind == 'assign' and e.lhs == rate]
    okr = len(defs) == 1 and ((defs[0].op == '=' and strip(defs[0].rhs)[0] == 'bin' and strip(defs[0].rhs)[1] == '/' and strip(defs[0].rhs)[2] == rate and strip(strip(defs[0].rhs)[3])[0] == 'var' and 'factor' in strip(strip(defs[0].rhs)[3])[2])
                              or (defs[0].op == '/=' and strip(defs[0].rhs)[0] == 'var' and 'factor' in strip(defs[0].rhs)[2]))
    cmp_after = False
    if defs:
        dom = lib.dominating_facts   # noqa: F841
        for d in ups:
            if d['form'] != 'plain' and strip(d['stored']) == rate:
                cmp_after = d['line'] > defs[0].line
    ctx.check(okr and cmp_after, 'R4', 'comm_action_set_bounds: the user rate is divided by the bandwidth factor before it competes with the link bandwidths', where(sb, defs[0].line if defs else None),
              'definitions of rate: %s' % [ex.pretty(e.rhs) for e in defs], key='R4|comm_action_set_bounds|rate rescaled')
    okf = None
    for p_ in v.paths(max_visits=1):
        if p_.exit in ('noreturn', 'cut', 'throw'):
            continue
        evs = v.path_events(p_)
        bf = [e.lhs for e in evs if e.kind == 'assign' and strip(e.rhs)[0] == 'call' and strip(e.rhs)[1].endswith('::get_bandwidth_factor')]
        sf = [e for e in evs if e.kind == 'call' and e.q.endswith('::set_rate_factor')]
        good = len(bf) == 1 and len(sf) == 1 and strip(sf[0].args[0]) == bf[0]
        okf = good if okf is None else (okf and good)
    ctx.check(bool(okf), 'R4', 'comm_action_set_bounds: set_rate_factor(get_bandwidth_factor(...)) on every path', where(sb), '', key='R4|comm_action_set_bounds|rate factor set')

    # ---- R5 the latency phase -------------------------------------------------------------------------------------------------------------------
    ctx.rule('R5', 'comm_action_set_variable: while latency_ > 0 the variable is created disabled (penalty 0) and, in lazy mode, the latency event is dated '
             'get_last_update() + latency_ (the latency after the factor); with no latency the variable is created enabled', 3)
    v2 = A.view(sv_)
    shapes = set()
    dates = []
    for p_ in v2.paths(max_visits=1):
        if p_.exit in ('noreturn', 'cut', 'throw'):
            continue
        evs = v2.path_events(p_)
        lat = [e.pol for e in evs if e.kind == 'branch' and e.atom[0] == 'bin' and e.atom[1] in ('<=', '>') and strip(e.atom[2])[0] == 'field' and strip(e.atom[2])[2].endswith('::latency_') and strip(e.atom[3]) in (('int', 0), ('float', 0.0))]
        pos = [(not pl) if e.atom[1] == '<=' else pl for e, pl in [(e, e.pol) for e in evs if e.kind == 'branch' and e.atom[0] == 'bin' and e.atom[1] in ('<=', '>') and strip(e.atom[2])[0] == 'field' and strip(e.atom[2])[2].endswith('::latency_') and strip(e.atom[3]) in (('int', 0), ('float', 0.0))]]
        vn = [e for e in evs if e.kind == 'call' and e.q.endswith('System::variable_new')]
        if len(pos) != 1 or len(vn) != 1:
            shapes.add(('?', len(lat), len(vn)))
            continue
        pen = strip(vn[0].args[1])
        shapes.add((pos[0], pen[1] if pen[0] in ('int', 'float') else ex.pretty(pen)))
        for e in evs:
            if e.kind == 'call' and e.q.endswith('ActionHeap::insert'):
                dates.append((pos[0], e))
    ctx.check(shapes == {(True, 0.0), (False, 1.0)} or shapes == {(True, 0), (False, 1)}, 'R5', 'comm_action_set_variable: penalty 0 while the latency is paid, 1 otherwise', where(sv_), 'shapes (latency_ > 0, penalty) %s' % sorted(shapes, key=repr),
              key='R5|comm_action_set_variable|penalty by latency')
    ctx.require(bool(dates), 'R5', 'no ActionHeap::insert in comm_action_set_variable')
    okd = bool(dates)
    det = ''
    for pos_, e in dates:
        d = strip(e.args[1])
        # the date may be kept in a local
        if d[0] == 'var':
            ds = [x for eid in range(len(sv_['elems'])) for x in v2.events_of(eid) if x.kind == 'assign' and x.lhs == d]
            d = strip(ds[0].rhs) if len(ds) == 1 else d
        parts = []
        if d[0] == 'bin' and d[1] == '+':
            parts = [strip(d[2]), strip(d[3])]
        good = pos_ and len(parts) == 2 and any(x[0] == 'field' and x[2].endswith('::latency_') for x in parts) and any(x[0] == 'call' and x[1].endswith('::get_last_update') for x in parts)
        det = ex.pretty(d)
        okd = okd and good
    ctx.check(okd, 'R5', 'comm_action_set_variable: the latency event is dated get_last_update() + latency_', where(sv_, dates[0][1].line if dates else None), 'date = %s' % det,
              key='R5|comm_action_set_variable|latency event date')
    lz = [e for pos_, e in dates]
    ctx.check(all(True for _ in lz), 'R5', 'comm_action_set_variable: %d latency event site(s)' % len(set(e.line for e in lz)), where(sv_), '')

    # ---- R6 which links carry the flow ----------------------------------------------------------------------------------------------------------------
    ctx.rule('R6', 'comm_action_expand_constraints: every non-WIFI link of the route is expanded with weight 1; under network/crosstraffic every non-WIFI link of the '
             'back route with weight 0.05, and only there', 2)
    ec = P.fn(M + '::comm_action_expand_constraints')
    v3 = A.view(ec)

    def is_cross(a):
        """a test of network/crosstraffic: the flag itself, or a member that is only ever written from it (when it may be copied is R8)"""
        if 'cfg_crosstraffic' in repr(a):
            return True
        if a[0] == 'truthy' and a[1][0] == 'var' and a[1][1] == 'local':
            ds = [e for eid in range(len(ec['elems'])) for e in v3.events_of(eid) if e.kind == 'assign' and e.lhs == a[1]]
            return len(ds) == 1 and 'cfg_crosstraffic' in repr(ds[0].rhs)
        if a[0] == 'truthy' and a[1][0] == 'field' and a[1][1] == ('this',):
            ws = []
            for f in P.fns.values():
                if not f.get('elems'):
                    continue
                for el in f['elems']:
                    for n in ex.walk(el['x']):
                        if n.get('k') == 'CtorInit' and (n.get('d') or {}).get('n') == a[1][2]:
                            ws.append('cfg_crosstraffic' in repr(ex.Norm(f)(n)))
            for u in lib.field_uses(P, a[1][2]):
                if u.kind == 'write' and u.op != 'init':
                    ws.append(False)
            return bool(ws) and all(ws)
        return False
    route, back = lib.parm(ec, 'route'), lib.parm(ec, 'back_route')
    found = {}
    for h in v3.loop_heads():
        if h['t'].get('k') != 'CXXForRangeStmt':
            continue
        rng = [d for el in ec['elems'] if el['x'].get('k') == 'Decl' and el.get('l') == h['t'].get('l') for d in el['x'].get('decls', ())
               if d.get('d', {}).get('n', '').startswith('__range') and d.get('init') is not None]
        if not rng:
            continue
        r = strip(v3.norm(rng[0]['init']))
        from .. import cg
        body = cg.natural_loop(v3, h['id'])
        for b in body:
            for eid in v3.blocks[b].get('e', []):
                for e in v3.events_of(eid):
                    if e.kind == 'call' and e.q.endswith('System::expand') and e.eid == eid:
                        IN, tgt, _ = lib.dominating_facts(A, ec, ec['elems'][eid]['x'], with_lines=True, with_preds=True)
                        facts = IN.get(tgt, ())
                        wifi = [t_ for a, t_, l_ in facts if a[0] == 'bin' and a[1] == '==' and 'WIFI' in repr(a) and 'get_sharing_policy' in repr(a)]
                        cross = [t_ for a, t_, l_ in facts if is_cross(a)]
                        w = strip(e.args[2])
                        found[('route' if r == route else 'back_route' if r == back else ex.pretty(r))] = (w[1] if w[0] in ('int', 'float') else ex.pretty(w), tuple(wifi), tuple(cross), e.line)
    fr, fb = found.get('route'), found.get('back_route')
    ctx.check(fr is not None and fr[0] == 1.0 and fr[1] == (False,) and fr[2] == (), 'R6', 'comm_action_expand_constraints: route links, weight 1, unconditionally', where(ec, fr[3] if fr else None),
              '(weight, WIFI test, crosstraffic test) = %s' % (fr[:3],) if fr else 'no expand in a loop over route', key='R6|comm_action_expand_constraints|route')
    ctx.check(fb is not None and abs(fb[0] - 0.05) < 1e-12 and fb[1] == (False,) and fb[2] == (True,) if fb and isinstance(fb[0], float) else False, 'R6',
              'comm_action_expand_constraints: back-route links, weight 0.05, only under network/crosstraffic', where(ec, fb[3] if fb else None),
              '(weight, WIFI test, crosstraffic test) = %s' % (fb[:3],) if fb else 'no expand in a loop over back_route', key='R6|comm_action_expand_constraints|back route')
    extra = [k for k in found if k not in ('route', 'back_route')]
    ctx.check(not extra, 'R6', 'comm_action_expand_constraints: no other link list is expanded in a loop', where(ec), '%s' % extra, key='R6|comm_action_expand_constraints|other lists')

    # ---- R7 CPU bound ------------------------------------------------------------------------------------------------------------------------------
    ctx.rule('R7', 'CpuCas01: an execution is created with bound requested_core x speed, speed being scale x peak of the CPU at creation; the user bound replaces it only '
             'when it is positive and smaller', 3)
    CA = 'simgrid::kernel::resource::CpuCas01Action::CpuCas01Action'
    ctor = [f for f in P.fns.values() if f['q'] == CA and f.get('elems')]
    ctx.require(len(ctor) == 1, 'R7', 'CpuCas01Action constructor: %d definitions' % len(ctor))
    if len(ctor) == 1:
        c = ctor[0]
        nrm = ex.Norm(c)
        vn = [nrm(n) for el in c['elems'] for n in ex.walk(el['x']) if n.get('k') == 'Call' and (n.get('c') or {}).get('q', '').endswith('System::variable_new')]
        ctx.require(len(vn) >= 1, 'R7', 'variable_new not found in the CpuCas01Action constructor')
        for t in vn[:1]:
            b = strip(t[3][2])
            ops = [strip(b[2]), strip(b[3])] if b[0] == 'bin' and b[1] == '*' else []
            names = sorted(o[2] for o in ops if o[0] == 'var' and o[1] == 'parm')
            ctx.check(names == ['requested_core', 'speed'], 'R7', 'CpuCas01Action: bound = requested_core x speed', where(c), 'bound = %s' % ex.pretty(b), key='R7|CpuCas01Action|bound')
            pen = strip(t[3][1])
            okp = pen[0] == 'bin' and pen[1] == '/' and strip(pen[2]) in (('float', 1.0), ('int', 1)) and strip(pen[3])[0] == 'var' and strip(pen[3])[2] == 'requested_core'
            ctx.check(okp, 'R7', 'CpuCas01Action: sharing penalty = 1 / requested_core', where(c), 'penalty = %s' % ex.pretty(pen), key='R7|CpuCas01Action|penalty')
    CC = 'simgrid::kernel::resource::CpuCas01::'
    nnew = 0
    for g in sorted([f for f in P.fns.values() if f['q'] in (CC + 'execution_start', CC + 'sleep') and f.get('blocks')], key=lambda f: f['key']):
        gv = A.view(g)
        for eid in range(len(g['elems'])):
            for e in gv.events_of(eid):
                if e.kind == 'call' and e.q == CA and e.eid == eid:
                    nnew += 1
                    sp = strip(e.args[3]) if len(e.args) > 3 else ('none',)
                    ops = sorted(x[2].rsplit('::', 1)[-1] for x in ex.subterms(sp) if x[0] == 'field' and x[2].rsplit('::', 1)[-1] in ('scale', 'peak'))
                    ctx.check(sp[0] == 'bin' and sp[1] == '*' and ops == ['peak', 'scale'], 'R7', '%s: the action is created with speed = scale x peak' % g['q'].replace('simgrid::kernel::resource::', ''), where(g, e.line),
                              'speed = %s' % ex.pretty(sp), key='R7|%s|speed at creation' % g['q'].rsplit('::', 1)[-1])
                if e.kind == 'call' and e.q.endswith('System::update_variable_bound') and e.eid == eid and g['q'].endswith('execution_start'):
                    ub = strip(e.args[1])
                    IN, tgt, _ = lib.dominating_facts(A, g, g['elems'][eid]['x'], with_lines=True, with_preds=True)
                    facts = IN.get(tgt, ())
                    smaller = any(a[0] == 'bin' and ((a[1] in ('<', '<=') and strip(a[2]) == ub and 'get_bound' in repr(a[3]) and t_) or (a[1] in ('>', '>=') and strip(a[3]) == ub and 'get_bound' in repr(a[2]) and t_)
                                                     or (a[1] in ('>=', '>') and strip(a[2]) == ub and 'get_bound' in repr(a[3]) and not t_) or (a[1] in ('<=', '<') and strip(a[3]) == ub and 'get_bound' in repr(a[2]) and not t_))
                                  for a, t_, l_ in facts)
                    positive = any(a[0] == 'bin' and strip(a[2]) == ub and strip(a[3]) in (('int', 0), ('float', 0.0)) and ((a[1] == '>' and t_) or (a[1] == '<=' and not t_)) for a, t_, l_ in facts)
                    ctx.check(smaller and positive, 'R7', 'execution_start: the user bound replaces cores x speed only when positive and smaller', where(g, e.line),
                              'facts: %s' % sorted(('%s%s' % ('' if t_ else '!', ex.pretty(a))) for a, t_, l_ in facts if ub in list(ex.subterms(a))), key='R7|execution_start|user bound')
    ctx.require(nnew >= 2, 'R7', 'creations of CpuCas01Action not found (%d)' % nnew)

    # ---- R8 the model parameters are read when a communication is set up, not when the model is built ------------------------------------------------
    ctx.rule('R8', 'the options whose per-model defaults the network model registrations set (set_default in the registration lambdas of network_cm02.cpp, several of '
             'them after the model object is built) are never read by the constructors that run while the model is built (the model classes, their bases, the objects they create): '
             'a copy taken there holds the global default, not the default of the model', 3)
    from .. import cg
    late = {}
    built = set()
    for f in P.fns.values():
        if not f['file'].endswith('network_cm02.cpp') or '<lambda' not in f['q'] or not f.get('elems'):
            continue
        for el in f['elems']:
            for n in ex.walk(el['x']):
                if n.get('k') != 'Call':
                    continue
                q = (n.get('c') or {}).get('q', '')
                if q.startswith('simgrid::config::set_default'):
                    a0 = ex.expand(f, n['a'][0]) if n.get('a') else None
                    strs = [m.get('v') for m in ex.walk(a0)] if a0 is not None else []
                    strs = [x for x in strs if isinstance(x, str) and '/' in x]
                    if strs:
                        late.setdefault(strs[0], where(f, n.get('l')))
                if q == 'std::make_shared' or q.startswith('std::make_shared<'):
                    ty = f.tstr(n)
                    if ty.startswith('std::shared_ptr<') and ty.endswith('>'):
                        built.add(ty[len('std::shared_ptr<'):-1])
    ctx.require(len(late) >= 3 and len(built) >= 1, 'R8', 'registrations not recognised: %d option(s) with a per-model default, %d model class(es) built' % (len(late), len(built)))
    flags = {}
    for gq, g in P.globals.items():
        init = g.get('init') or {}
        if (init.get('c') or {}).get('cls') == 'simgrid::config::Flag' and init.get('a'):
            nm = init['a'][0].get('v')
            if nm in late:
                flags[gq] = nm
    G = cg.CallGraph(P)
    start = set(k for k, q in G.qof.items() if any(q == b + '::' + b.rsplit('::', 1)[-1] for b in built))
    ctx.require(bool(start), 'R8', 'constructors of %s not found' % sorted(built))
    seen = set(start)
    work = list(start)
    while work:
        x = work.pop()
        for y in G.out.get(x, ()):
            if y not in seen and y in P.fns and P.fns[y]['q'].startswith('simgrid::kernel::resource::'):
                seen.add(y)
                work.append(y)
    nread = 0

    def is_ctor(q):
        parts = q.split('::')
        return len(parts) >= 2 and parts[-1] == parts[-2]
    # only what runs *because* an object is being built: the constructors reached (shared member functions such as set_latency are also reached from
    # the constructor, but they read the options for the actions of a live simulation, of which there are none yet)
    seen = set(k for k in seen if is_ctor(P.fns[k]['q']))
    for k in sorted(seen):
        f = P.fns.get(k)
        if f is None or not f.get('elems'):
            continue
        for el in f['elems']:
            for n in ex.walk(el['x']):
                opt = None
                if n.get('k') in ('Ref', 'Mem') and (n.get('d') or {}).get('n') in flags:
                    opt = flags[n['d']['n']]
                elif n.get('k') == 'Call' and (n.get('c') or {}).get('q', '').startswith(('simgrid::config::get_value', 'simgrid::config::is_default')):
                    strs = [m.get('v') for a in (n.get('a') or ()) for m in ex.walk(ex.expand(f, a)) if isinstance(m.get('v'), str)]
                    opt = next((x for x in strs if x in late), None)
                if opt is not None:
                    nread += 1
                    ctx.violation('R8', '%s reads %s while the model is being built' % (f['q'].replace('simgrid::kernel::resource::', ''), opt), where(f, n.get('l') or el.get('l')),
                                  'the registration sets the default of %s at %s, possibly after this read: the model keeps the global default (e.g. cross-traffic on for the raw model)' % (opt, late[opt]),
                                  key='R8|%s|reads %s' % (f['q'].rsplit('::', 1)[-1], opt))
    ctx.holds('R8', 'construction of %s (%d function(s) reached) reads none of %s' % (', '.join(sorted(b.rsplit('::', 1)[-1] for b in built)), len(seen), sorted(late)), '', '%d flag object(s): %s' % (len(flags), sorted(x.rsplit('::', 1)[-1] for x in flags))) if not nread else None
    for opt, w_ in sorted(late.items()):
        ctx.holds('R8', 'per-model default of %s' % opt, w_, 'set by a registration')


def run(ctx):
    P = ctx.load(UNITS)
    A = ctx.analyzer
    ctx.rule('R1', 'bandwidth_bound is the minimum link bandwidth of the route, then the minimum with the (rescaled) user rate', 3)
    sb = P.fn(M + '::comm_action_set_bounds')
    n = check_min_accumulator(ctx, A, sb, lambda t: t[0] == 'var' and t[2] == 'bandwidth_bound', 'bandwidth_bound', 'R1', same_candidate=False)
    ctx.require(n >= 2, 'R1', 'updates of bandwidth_bound not recognised (%d)' % n)
    v = A.view(sb)
    # the candidates are the link bandwidths and the user rate; WIFI links are skipped, nothing else
    ups = lib.extremum_updates(A, sb, lambda t: t[0] == 'var' and t[2] == 'bandwidth_bound')
    cands = sorted(set(ex.pretty(d['stored']) for d in ups if d['form'] != 'plain'))
    ctx.check(cands == ['l.get_bandwidth()', 'rate'], 'R1', 'candidates of the bound: every link bandwidth and the user rate', where(sb), '%s' % cands, key='R1|comm_action_set_bounds|candidates')
    okb = any(e.kind == 'call' and e.q.endswith('::set_user_bound') and e.args == (('var', 'local', 'bandwidth_bound', [d for d in ups][0]['acc'][3]),) for p in v.paths(max_visits=1) for e in v.path_events(p))
    ctx.check(okb, 'R1', 'the action receives the accumulated bound (set_user_bound(bandwidth_bound))', where(sb), '', key='R1|comm_action_set_bounds|bound handed over')

    ctx.rule('R2', 'lat_current_ is saved before the latency factor is applied', 1)
    ok2 = None
    for p in v.paths(max_visits=1):
        if p.exit in ('noreturn', 'cut'):
            continue
        evs = v.path_events(p)
        sv = [i for i, e in enumerate(evs) if e.kind == 'assign' and e.op == '=' and e.lhs[0] == 'field' and e.lhs[2].endswith('::lat_current_') and e.rhs[0] == 'field' and e.rhs[2].endswith('::latency_')]
        ml = [i for i, e in enumerate(evs) if e.kind == 'assign' and e.op == '*=' and e.lhs[0] == 'field' and e.lhs[2].endswith('::latency_')]
        good = len(sv) == 1 and len(ml) == 1 and sv[0] < ml[0]
        ok2 = good if ok2 is None else (ok2 and good)
    ctx.check(bool(ok2), 'R2', 'comm_action_set_bounds: lat_current_ = latency_ precedes latency_ *= factor', where(sb), '', key='R2|comm_action_set_bounds|order')

    ctx.rule('R3', 'variable bound = min(user bound, gamma/(2*lat)) | gamma/(2*lat) | user bound, by case', 2)
    sv_ = P.fn(M + '::comm_action_set_variable')
    v = A.view(sv_)
    forms = {}
    for p in v.paths(max_visits=1):
        if p.exit in ('noreturn', 'cut'):
            continue
        evs = v.path_events(p)
        ub = [e for e in evs if e.kind == 'call' and e.q.endswith('System::update_variable_bound')]
        noub = [e.pol for e in evs if e.kind == 'branch' and e.atom[0] == 'bin' and e.atom[1] == '<' and 'get_user_bound' in repr(e.atom[2]) and e.atom[3] in (('int', 0), ('float', 0.0))]
        if len(ub) != 1 or not noub:
            continue
        forms[noub[0]] = ub[0].args[1]

    def tcp(t):
        # gamma / (2 * lat_current_): the literal 2 is part of the documented formula
        if not (t[0] == 'bin' and t[1] == '/' and 'cfg_tcp_gamma' in repr(t[2]) and t[3][0] == 'bin' and t[3][1] == '*'):
            return False
        ops = [strip(t[3][2]), strip(t[3][3])]
        lit = [o for o in ops if o[0] in ('int', 'float')]
        lat = [o for o in ops if o[0] == 'field' and o[2].endswith('::lat_current_')]
        return len(lit) == 1 and lit[0][1] == 2 and len(lat) == 1

    def guard(c):
        ats = lib.bool_atoms(c)
        return len(ats) == 2 and any('lat_current_' in repr(a) for a in ats) and any('cfg_tcp_gamma' in repr(a) for a in ats) and c[0] == 'bin' and c[1] == '&&'
    ok_no = ok_ub = False
    if True in forms:
        t = forms[True]
        ok_no = t[0] == 'cond' and guard(t[1]) and tcp(t[2]) and t[3] in (('float', -1.0), ('int', -1))
    if False in forms:
        t = forms[False]
        ok_ub = t[0] == 'cond' and guard(t[1]) and t[2][0] == 'call' and t[2][1] == 'std::min' and any(tcp(x) for x in t[2][3]) and any('get_user_bound' in repr(x) for x in t[2][3]) and 'get_user_bound' in repr(t[3])
    ctx.check(ok_no, 'R3', 'no user bound: bound = (lat > 0 && gamma > 0) ? gamma / (2*lat_current_) : unbounded', where(sv_), ex.pretty(forms.get(True, ('none',)))[:150], key='R3|comm_action_set_variable|no user bound')
    ctx.check(ok_ub, 'R3', 'user bound: bound = (lat > 0 && gamma > 0) ? min(user bound, gamma / (2*lat_current_)) : user bound', where(sv_), ex.pretty(forms.get(False, ('none',)))[:150],
              key='R3|comm_action_set_variable|user bound')
    run_more(ctx, P, A, sb, sv_)
    ctx.assume('the numeric values of the factors (callbacks), of the host and disk speeds, WIFI rates and parallel tasks are not decided')
    return EXPLANATION
