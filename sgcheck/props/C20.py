"""C20 — Isolated activities follow the documented formulas (DESIGN.md 3, C20, thin): the two minima of the communication formula."""
from .. import ex, lib
from ..core import where
from ..ir import AnalysisBroken
from .C16 import check_min_accumulator

UNITS = ['src/kernel/resource/models/network_cm02.cpp']
M = 'simgrid::kernel::resource::NetworkCm02Model'
EXPLANATION = ('In NetworkCm02Model::comm_action_set_bounds the bandwidth bound is the minimum get_bandwidth() over the non-WIFI links of the route '
               '(extremum coherence with the -1 sentinel) and then the minimum with the user rate when one is given; the latency saved in '
               'lat_current_ is the value before the latency factor is applied; in comm_action_set_variable the variable bound handed to the solver '
               'is min(user bound, gamma / (2 * lat_current_)) when both exist, gamma / (2 * lat_current_) alone without a user bound, and the '
               'user bound alone when latency or gamma is not positive.')


def run(ctx):
    P = ctx.load(UNITS)
    A = ctx.analyzer
    ctx.rule('R1', 'bandwidth_bound is the minimum link bandwidth of the route, then the minimum with the (rescaled) user rate', 3)
    sb = P.fn(M + '::comm_action_set_bounds')
    n = check_min_accumulator(ctx, A, sb, lambda t: t[0] == 'var' and t[2] == 'bandwidth_bound', 'bandwidth_bound', 'R1', same_candidate=False)
    ctx.require(n >= 2, 'R1', 'updates of bandwidth_bound not recognised (%d)' % n)
    v = A.view(sb)
    # the candidates are the link bandwidths and the user rate; WIFI links are skipped, nothing else
    ups = lib.extremum_updates(A, sb, lambda t: t[0] == 'var' and t[2] == 'bandwidth_bound')
    cands = sorted(set(ex.pretty(d['stored']) for d in ups if d['form'] != 'plain'))
    ctx.check(cands == ['l.get_bandwidth()', 'rate'], 'R1', 'candidates of the bound: every link bandwidth and the user rate', where(sb), '%s' % cands, key='R1|comm_action_set_bounds|candidates')
    okb = any(e.kind == 'call' and e.q.endswith('::set_user_bound') and e.args == (('var', 'local', 'bandwidth_bound', [d for d in ups][0]['acc'][3]),) for p in v.paths(max_visits=1) for e in v.path_events(p))
    ctx.check(okb, 'R1', 'the action receives the accumulated bound (set_user_bound(bandwidth_bound))', where(sb), '', key='R1|comm_action_set_bounds|bound handed over')

    ctx.rule('R2', 'lat_current_ is saved before the latency factor is applied', 1)
    ok2 = None
    for p in v.paths(max_visits=1):
        if p.exit in ('noreturn', 'cut'):
            continue
        evs = v.path_events(p)
        sv = [i for i, e in enumerate(evs) if e.kind == 'assign' and e.op == '=' and e.lhs[0] == 'field' and e.lhs[2].endswith('::lat_current_') and e.rhs[0] == 'field' and e.rhs[2].endswith('::latency_')]
        ml = [i for i, e in enumerate(evs) if e.kind == 'assign' and e.op == '*=' and e.lhs[0] == 'field' and e.lhs[2].endswith('::latency_')]
        good = len(sv) == 1 and len(ml) == 1 and sv[0] < ml[0]
        ok2 = good if ok2 is None else (ok2 and good)
    ctx.check(bool(ok2), 'R2', 'comm_action_set_bounds: lat_current_ = latency_ precedes latency_ *= factor', where(sb), '', key='R2|comm_action_set_bounds|order')

    ctx.rule('R3', 'variable bound = min(user bound, gamma/(2*lat)) | gamma/(2*lat) | user bound, by case', 2)
    sv_ = P.fn(M + '::comm_action_set_variable')
    v = A.view(sv_)
    forms = {}
    for p in v.paths(max_visits=1):
        if p.exit in ('noreturn', 'cut'):
            continue
        evs = v.path_events(p)
        ub = [e for e in evs if e.kind == 'call' and e.q.endswith('System::update_variable_bound')]
        noub = [e.pol for e in evs if e.kind == 'branch' and e.atom[0] == 'bin' and e.atom[1] == '<' and 'get_user_bound' in repr(e.atom[2]) and e.atom[3] in (('int', 0), ('float', 0.0))]
        if len(ub) != 1 or not noub:
            continue
        forms[noub[0]] = ub[0].args[1]

    def tcp(t):
        return t[0] == 'bin' and t[1] == '/' and 'cfg_tcp_gamma' in repr(t[2]) and t[3][0] == 'bin' and t[3][1] == '*' and 'lat_current_' in repr(t[3])

    def guard(c):
        ats = lib.bool_atoms(c)
        return len(ats) == 2 and any('lat_current_' in repr(a) for a in ats) and any('cfg_tcp_gamma' in repr(a) for a in ats) and c[0] == 'bin' and c[1] == '&&'
    ok_no = ok_ub = False
    if True in forms:
        t = forms[True]
        ok_no = t[0] == 'cond' and guard(t[1]) and tcp(t[2]) and t[3] in (('float', -1.0), ('int', -1))
    if False in forms:
        t = forms[False]
        ok_ub = t[0] == 'cond' and guard(t[1]) and t[2][0] == 'call' and t[2][1] == 'std::min' and any(tcp(x) for x in t[2][3]) and any('get_user_bound' in repr(x) for x in t[2][3]) and 'get_user_bound' in repr(t[3])
    ctx.check(ok_no, 'R3', 'no user bound: bound = (lat > 0 && gamma > 0) ? gamma / (2*lat_current_) : unbounded', where(sv_), ex.pretty(forms.get(True, ('none',)))[:150], key='R3|comm_action_set_variable|no user bound')
    ctx.check(ok_ub, 'R3', 'user bound: bound = (lat > 0 && gamma > 0) ? min(user bound, gamma / (2*lat_current_)) : user bound', where(sv_), ex.pretty(forms.get(False, ('none',)))[:150],
              key='R3|comm_action_set_variable|user bound')
    ctx.assume('every numeric value (factors, cross-traffic, CPU cores*speed, disk rates) is not decided')
    return EXPLANATION
