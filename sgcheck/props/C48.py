"""C48 — Configuration flags are parsed and validated (DESIGN.md 3, C48)."""
from .. import ex, lib
from ..cfg import abstract_run
from ..core import where
from ..ir import AnalysisBroken

UNITS = ['src/xbt/config.cpp', 'src/simgrid/module.cpp']
NS = 'simgrid::config::'
EXPLANATION = ('R1 co-update: in every instantiation of TypedConfigurationElement<T> each store into `content` (set_value, set_default_value, '
               'set_string_value) is followed by update(), which runs the validation callback, on the same path; set_string_value stores exactly '
               'ConfigType<T>::parse(value); register_option runs update() on the initial value.  R2 rejection: parse_double / parse_long throw on '
               'range errors, when no character was consumed and when characters remain, and otherwise return the converted value unchanged; '
               'ConfigType<int>::parse throws outside [INT_MIN, INT_MAX]; parse_bool throws for anything but the eight literals; '
               'get_dict_element throws for a name that is neither an option nor an alias.  R3: an alias resolves to the element registered under '
               'the real name.')


def run(ctx):
    P = ctx.load(UNITS)
    A = ctx.analyzer
    ctx.rule('R1', 'every store into an option\'s content is followed by update() (validation callback) on the same path; set_string_value stores parse(value)', 10)
    tces = [f for f in P.fns.values() if 'TypedConfigurationElement<' in f['q'] and f['q'].rsplit('::', 1)[-1] in ('set_value', 'set_default_value', 'set_string_value') and f.get('blocks')]
    for f in sorted(tces, key=lambda f_: f_['key']):
        cls = f.get('cls') or f['q'].rsplit('::', 1)[0]
        CONTENT = lib.this_field(cls + '::content')

        def is_content(t):
            return t is not None and t[0] == 'field' and t[1] == ('this',) and t[2].endswith('::content')

        def tr(st, e, _c=CONTENT):
            stored, updated, bad = st
            is_store = (e.kind == 'assign' and is_content(e.lhs)) or (e.kind == 'call' and e.q.endswith('::operator=') and is_content(e.obj))
            if is_store:
                return (True, False, bad)
            if e.kind == 'call' and e.q.endswith('::update') and e.obj == ('this',):
                return (stored, True, bad)
            return None
        # private helpers of the element are part of the setter (a store moved into a helper is still a store of the setter)
        own = lambda ev, callee, _cls=cls: (callee['q'].startswith(_cls + '::') or callee.get('cls') == _cls) and not callee['q'].endswith('::update')      # noqa: E731
        exits = abstract_run(A, f, (False, False, None), tr, inline=own)
        sts = exits['normal']
        is_default = f['q'].endswith('set_default_value')
        # a value given by the user is validated on every path (set_default_value may keep the user's value and do nothing)
        bad = [s for s in sts if (s[0] and not s[1]) or (not is_default and not s[1])]
        stores = any(s[0] for s in sts)
        short = f['q'].replace(NS, '').replace('(anonymous namespace)::', '')
        ctx.check(stores and not bad and bool(sts), 'R1', '%s: content stored, then update() - on every path for a value set by the user' % short, where(f),
                  'exit states (stored, validated) %s%s' % (sorted(set(s[:2] for s in sts)), '' if not bad else ': a path returns without running the validation callback'), key='R1|%s|update after store' % short)
        if f['q'].endswith('set_string_value'):
            v = A.view(f)
            okp = False
            for p in v.paths():
                for e in v.path_events(p):
                    rhs = e.rhs if e.kind == 'assign' and is_content(e.lhs) else (e.args[0] if e.kind == 'call' and e.q.endswith('::operator=') and is_content(e.obj) and e.args else None)
                    if rhs is not None:
                        r = rhs
                        while r[0] in ('cast', 'conv', 'ctor') and len(r) > 2 and r[2]:
                            r = r[2] if r[0] != 'ctor' else r[2][0]
                        okp = r[0] == 'call' and 'ConfigType<' in r[1] and r[1].endswith('::parse') and r[3] == (lib.parm_i(f, 0),)
            if not okp:
                # the parsed value may be handed to a private helper of the element that stores it
                for p in v.paths():
                    for e in v.path_events(p):
                        if e.kind == 'call' and (e.q.startswith(cls + '::') or (A.resolve(e) or {}).get('cls') == cls) and e.args:
                            r = e.args[0]
                            while r[0] in ('cast', 'conv', 'ctor') and len(r) > 2 and r[2]:
                                r = r[2] if r[0] != 'ctor' else r[2][0]
                            if r[0] == 'call' and 'ConfigType<' in r[1] and r[1].endswith('::parse') and r[3] == (lib.parm_i(f, 0),):
                                okp = True
            ctx.check(okp, 'R1', '%s stores ConfigType<T>::parse(value)' % short, where(f), '', key='R1|%s|parse identity' % short)
    ctx.require(len(tces) >= 8, 'R1', 'TypedConfigurationElement setters not found (%d)' % len(tces))
    ro = [f for f in P.fns.values() if 'Config::register_option<' in f['key'] and f.get('blocks')]
    okr = bool(ro)
    for f in ro:
        v = A.view(f)
        okr = okr and all(any(e.kind == 'call' and e.q.endswith('::update') for e in v.path_events(p)) for p in v.paths() if p.exit not in ('noreturn', 'cut'))
    ctx.check(okr, 'R1', 'register_option validates the initial value (update()) in all %d instantiations' % len(ro), where(ro[0]) if ro else '', '', key='R1|register_option|initial update')

    ctx.rule('R2', 'unparsable values and unknown names are rejected by an exception; accepted values are returned unchanged', 5)
    for name, conv in (('parse_double', ('strtod', 'std::strtod')), ('parse_long', ('strtol', 'std::strtol'))):
        cands = [f for f in P.fns.values() if f['q'].endswith('::' + name) and f.get('blocks')]
        if len(cands) != 1:
            ctx.unrecognised('R2', '%s: %d definitions' % (name, len(cands)))
            continue
        f = cands[0]
        v = A.view(f)
        val = lib.parm_i(f, 0)
        shapes = set()
        okret = True
        for p in v.paths():
            if p.exit in ('noreturn', 'cut'):
                continue
            evs = v.path_events(p)
            cv = [e for e in evs if e.kind == 'call' and e.q in conv]
            resv = [e.lhs for e in evs if e.kind == 'assign' and cv and e.rhs == cv[0].nf]
            erange = [e.pol for e in evs if e.kind == 'branch' and '__errno_location' in repr(e.atom) and e.atom[0] == 'bin' and e.atom[1] == '==' and e.atom[3] == ('int', 34)]
            nodig = [e.pol for e in evs if e.kind == 'branch' and e.atom[0] == 'bin' and e.atom[1] == '==' and {e.atom[2], e.atom[3]} == {('var', 'local', 'end', e.atom[2][3] if e.atom[2][0] == 'var' and e.atom[2][2] == 'end' else (e.atom[3][3] if e.atom[3][0] == 'var' else 0)), val}]
            trail = [e.pol for e in evs if e.kind == 'branch' and e.atom[0] == 'truthy' and e.atom[1][0] == 'un' and e.atom[1][1] == '*' and e.atom[1][2][0] == 'var' and e.atom[1][2][2] == 'end']
            shapes.add((tuple(erange), tuple(nodig), tuple(trail), p.exit))
            if p.exit in ('return', 'end'):
                ret = [e for e in evs if e.kind == 'return']
                okret = okret and bool(ret) and bool(resv) and ret[0].val == resv[0] and cv[0].args[0] == val and len([e for e in evs if e.kind in ('assign', 'incdec') and e.lhs == resv[0]]) == 1
        returning = [s for s in shapes if s[3] in ('return', 'end')]
        throwing = [s for s in shapes if s[3] == 'throw']
        good = bool(returning) and all(s[0] == (False,) and s[1] == (False,) and s[2] == (False,) for s in returning) and \
            any(s[0] == (True,) for s in throwing) and any(s[1] == (True,) for s in throwing) and any(s[2] == (True,) for s in throwing)
        ctx.check(good and okret, 'R2', '%s: range error, no digits and trailing characters throw; otherwise the conversion result is returned unchanged' % name, where(f), 'path shapes %s' % sorted(shapes, key=repr),
                  key='R2|%s|rejection' % name)
    pb = [f for f in P.fns.values() if f['q'].endswith('::parse_bool') and f.get('blocks')]
    if len(pb) == 1:
        v = A.view(pb[0])
        lits = set()
        for el in pb[0]['elems']:
            for n in ex.walk(el['x']):
                if n.get('k') == 'Str':
                    lits.add(n['v'])
        ends = set(p.exit for p in v.paths(max_visits=2))
        okb = {'yes', 'on', 'true', '1', 'no', 'off', 'false', '0'} <= lits and 'throw' in ends
        # the fall-through of both loops throws
        fall = [p for p in v.paths(max_visits=1) if not any(e.kind == 'return' for e in v.path_events(p)) and p.exit not in ('cut', 'noreturn')]
        ctx.check(okb and all(p.exit == 'throw' for p in fall) and bool(fall), 'R2', 'parse_bool: the eight literals or an exception', where(pb[0]), 'literals %s' % sorted(lits & {'yes', 'on', 'true', '1', 'no', 'off', 'false', '0'}),
                  key='R2|parse_bool|rejection')
        # each returning path: the last literal list iterated before the return decides the value (true words -> true, false words -> false)
        TRUE_W, FALSE_W = {'yes', 'on', 'true', '1'}, {'no', 'off', 'false', '0'}
        assoc = set()
        for p in v.paths(max_visits=2):
            if p.exit not in ('return', 'end'):
                continue
            evs = v.path_events(p)
            ret = [e for e in evs if e.kind == 'return' and e.val is not None]
            lists = [frozenset(x[1] for x in ex.subterms(e.rhs) if x[0] == 'str') for e in evs if e.kind == 'assign' and any(x[0] == 'str' for x in ex.subterms(e.rhs))]
            lists = [l for l in lists if l & (TRUE_W | FALSE_W)]
            if ret and lists:
                rv = ret[-1].val
                while rv[0] in ('cast', 'conv'):
                    rv = rv[2]
                assoc.add((tuple(sorted(lists[-1])), rv))
        okassoc = bool(assoc) and all((rv_ == ('bool', True) and set(l_) & TRUE_W and not set(l_) & FALSE_W) or (rv_ == ('bool', False) and set(l_) & FALSE_W and not set(l_) & TRUE_W) for l_, rv_ in assoc) and \
            TRUE_W <= set(w for l_, rv_ in assoc if rv_ == ('bool', True) for w in l_) and FALSE_W <= set(w for l_, rv_ in assoc if rv_ == ('bool', False) for w in l_)
        ctx.check(okassoc, 'R2', 'parse_bool: yes/on/true/1 give true, no/off/false/0 give false', where(pb[0]), 'word list -> value: %s' % sorted((a, ex.pretty(b)) for a, b in assoc), key='R2|parse_bool|values')
    else:
        ctx.unrecognised('R2', 'parse_bool: %d definitions' % len(pb))
    pi = [f for f in P.fns.values() if 'ConfigType<int>::parse' in f['q'] and f.get('blocks')]
    if len(pi) == 1:
        v = A.view(pi[0])
        sh = set()
        for p in v.paths():
            evs = v.path_events(p)
            def lit(t):
                if t[0] == 'int':
                    return t[1]
                if t[0] == 'bin' and t[1] in ('+', '-') and lit(t[2]) is not None and lit(t[3]) is not None:
                    return lit(t[2]) + lit(t[3]) if t[1] == '+' else lit(t[2]) - lit(t[3])
                return None
            lo = [e.pol for e in evs if e.kind == 'branch' and e.atom[0] == 'bin' and e.atom[1] == '<' and lit(e.atom[3]) == -2147483648]
            hi = [e.pol for e in evs if e.kind == 'branch' and e.atom[0] == 'bin' and e.atom[1] == '<=' and lit(e.atom[3]) == 2147483647]
            sh.add((tuple(lo), tuple(hi), p.exit))
        good = any(s[0] == (True,) and s[2] == 'throw' for s in sh) and any(s[1] == (False,) and s[2] == 'throw' for s in sh) and all(s[2] != 'return' or (s[0] == (False,) and s[1] == (True,)) for s in sh)
        ctx.check(good, 'R2', 'ConfigType<int>::parse throws below INT_MIN and above INT_MAX', where(pi[0]), 'path shapes %s' % sorted(sh, key=repr), key='R2|ConfigType<int>::parse|range')
        # the value returned is the parsed one: parse_long(value) itself, only converted
        pv = lib.parm_i(pi[0], 0)
        okv = True
        nret = 0
        for p in v.paths():
            if p.exit not in ('return', 'end'):
                continue
            evs = v.path_events(p)
            pl = [e for e in evs if e.kind == 'assign' and e.rhs[0] == 'call' and isinstance(e.rhs[1], str) and e.rhs[1].endswith('parse_long') and e.rhs[3] == (pv,)]
            ret = [e for e in evs if e.kind == 'return' and e.val is not None]
            if not ret:
                continue
            nret += 1
            rv = ret[-1].val
            while rv[0] in ('cast', 'conv'):
                rv = rv[2]
            okv = okv and ((bool(pl) and rv == pl[0].lhs and len([e for e in evs if e.kind in ('assign', 'incdec') and e.lhs == pl[0].lhs]) == 1) or
                           (rv[0] == 'call' and isinstance(rv[1], str) and rv[1].endswith('parse_long') and rv[3] == (pv,)))
        ctx.check(okv and nret >= 1, 'R2', 'ConfigType<int>::parse returns parse_long(value) unchanged (converted to int)', where(pi[0]), '%d returning path(s)' % nret, key='R2|ConfigType<int>::parse|value')
    else:
        ctx.unrecognised('R2', 'ConfigType<int>::parse: %d definitions' % len(pi))
    gd = P.fn(NS + 'Config::get_dict_element')
    v = A.view(gd)
    sh = set()
    for p in v.paths(max_visits=1):
        if p.exit in ('noreturn', 'cut'):
            continue
        evs = v.path_events(p)
        found_o = [e.pol for e in evs if e.kind == 'branch' and e.atom[0] == 'bin' and e.atom[1] == '==' and 'options' in repr(e.atom) and '::end' in repr(e.atom)]
        found_a = [e.pol for e in evs if e.kind == 'branch' and e.atom[0] == 'bin' and e.atom[1] == '==' and 'aliases' in repr(e.atom) and '::end' in repr(e.atom)]
        sh.add((tuple(found_o[:1]), tuple(found_a[:1]), p.exit))
    good = ((True,), (True,), 'throw') in sh and all(s[2] == 'throw' for s in sh if s[0] == (True,) and s[1] == (True,)) and any(s[0] == (False,) and s[2] in ('return', 'end') for s in sh) and \
        any(s[0] == (True,) and s[1] == (False,) and s[2] in ('return', 'end') for s in sh)
    ctx.check(good, 'R2', 'get_dict_element: option -> element; alias -> element; otherwise std::out_of_range', where(gd), 'path shapes %s' % sorted(sh, key=repr), key='R2|get_dict_element|unknown name')

    ctx.rule('R3', 'an alias is bound to the element registered under the real name', 1)
    al = P.fn(NS + 'Config::alias')
    v = A.view(al)
    ok3 = False
    for p in v.paths():
        if p.exit in ('noreturn', 'cut'):
            continue
        evs = v.path_events(p)
        ge = [e for e in evs if e.kind == 'call' and e.q == NS + 'Config::get_dict_element' and e.args == (lib.parm(al, 'realname'),)]
        el = [e.lhs for e in evs if e.kind == 'assign' and ge and e.rhs == ge[0].nf]
        te = [e for e in evs if e.kind == 'call' and e.q.rsplit('::', 1)[-1] in ('try_emplace', 'emplace', 'insert') and 'aliases' in repr(e.obj)]
        if ge and el and te and te[0].args[0] == lib.parm(al, 'aliasname') and te[0].args[1] == el[0]:
            ok3 = True
    ctx.check(ok3, 'R3', 'Config::alias: aliases[aliasname] = get_dict_element(realname)', where(al), '', key='R3|alias|binding')
    # ---- R4 the validation callback of the model / plugin flags --------------------------------------------------------------------------------------
    ctx.rule('R4', 'the callback that ModuleGroup::create_flag attaches to a model or plugin flag looks every accepted value up in the table of registered modules '
             '(by_name dies on an unknown name): each path that returns normally either saw the default value or called by_name(value)', 1)
    cf = [f for f in P.fns.values() if f['q'].endswith('ModuleGroup::create_flag') and f.get('elems')]
    ctx.require(len(cf) == 1, 'R4', 'ModuleGroup::create_flag: %d definitions' % len(cf))
    for f in cf[:1]:
        lams = [P.fns[n['fn']] for el in f['elems'] for n in ex.walk(el['x']) if n.get('k') == 'Lambda' and n.get('fn') in P.fns and P.fns[n['fn']].get('blocks')]
        ctx.require(len(lams) == 1, 'R4', 'create_flag: %d callback lambdas' % len(lams))
        for lf in lams[:1]:
            lv = A.view(lf)
            val = lib.parm_i(lf, 0)
            bad = []
            nacc = 0
            for p in lv.paths():
                if p.exit in ('noreturn', 'cut', 'throw'):
                    continue
                evs = lv.path_events(p)
                isdef = [e.pol for e in evs if e.kind == 'branch' and e.atom[0] in ('truthy', 'bin') and 'default_value' in repr(e.atom) and val in list(ex.subterms(e.atom))]
                looked = [e for e in evs if e.kind == 'call' and e.q.endswith('ModuleGroup::by_name') and e.args and e.args[0] == val]
                if isdef and isdef[0]:
                    continue
                nacc += 1
                if not looked:
                    bad.append(p)
            ctx.check(nacc >= 1 and not bad, 'R4', 'create_flag callback: every accepted non-default value is looked up with by_name(value)', where(lf),
                      '%d of %d accepting path(s) never look the value up: an unknown model name is stored' % (len(bad), nacc) if bad else '%d accepting path(s)' % nacc,
                      key='R4|create_flag callback|value looked up')
    ctx.assume('strtod/strtol/strcasecmp are trusted; command-line splitting of --cfg=name:value is not covered')
    return EXPLANATION
