"""C13 — Workflow dependencies are respected (DESIGN.md 3, C13)."""
import os

from .. import ex, ir, lib
from ..core import where
from ..ir import AnalysisBroken, REPO

S4U = 'simgrid::s4u::'
ACT = S4U + 'Activity'
EXPLANATION = ('Who-may-call and guard-dominance rules on the dependency mechanism of s4u::Activity: do_start() is called only from '
               'Activity::start under dependencies_solved() && is_assigned(); the dependency set shrinks only in release_dependencies (reached '
               'from complete() under state == FINISHED and from CommImpl::finish for detached DONE comms) and in remove_successor; '
               'release_dependencies removes this activity from each successor and starts the successor whose set became empty; add/remove_successor '
               'update both sides together; every S4U setter of an assignment field (host(s), source, destination, disk) retries start() whenever '
               'the activity may be in state STARTING.')

# kernel-side setters of the fields that is_assigned() reads (discovered by reading is_assigned of Exec/Comm/Io; frozen)
ASSIGN_SETTERS = {
    'simgrid::kernel::activity::ExecImpl::set_host', 'simgrid::kernel::activity::ExecImpl::set_hosts',
    'simgrid::kernel::activity::CommImpl::set_source', 'simgrid::kernel::activity::CommImpl::set_destination',
    'simgrid::kernel::activity::IoImpl::set_host', 'simgrid::kernel::activity::IoImpl::set_dst_host', 'simgrid::kernel::activity::IoImpl::set_disk',
}


def run(ctx):
    words = ('do_start', 'release_dependencies', 'dependencies_', 'successors_')
    units = ir.units_mentioning(words)
    hdr_users = ['src/s4u/s4u_Activity.cpp', 'src/s4u/s4u_Exec.cpp', 'src/s4u/s4u_Comm.cpp', 'src/s4u/s4u_Io.cpp', 'src/s4u/s4u_Mess.cpp',
                 'src/kernel/activity/CommImpl.cpp', 'src/kernel/activity/ExecImpl.cpp', 'src/kernel/activity/IoImpl.cpp', 'src/kernel/EngineImpl.cpp',
                 'src/s4u/s4u_ActivitySet.cpp', 'src/dag/loaders.cpp']
    allu = sorted(set(units) | set(os.path.join(REPO, u) for u in hdr_users))
    P = ctx.load([u[len(REPO) + 1:] for u in allu])
    A = ctx.analyzer
    start = P.fn(ACT + '::start')
    deps = lib.this_field(ACT + '::dependencies_')
    succs = lib.this_field(ACT + '::successors_')

    # ---- R1 ------------------------------------------------------------------------------------------------------------------------
    ctx.rule('R1', 'do_start() is called only from Activity::start, under dependencies_solved() && is_assigned()', 2)
    ncall = 0
    for fn in P.fns.values():
        for eid, el in enumerate(fn.get('elems') or ()):
            for n in ex.walk(el['x']):
                if n.get('k') == 'Call' and (n.get('c') or {}).get('q', '').rsplit('::', 1)[-1] == 'do_start' and \
                        (n['c'].get('cls', '').startswith(S4U)):
                    ncall += 1
                    if fn['key'] != start['key']:
                        ctx.violation('R1', 'do_start() called from %s' % fn['q'], where(fn, n.get('l')), 'an activity can be started without the dependency/assignment test of Activity::start',
                                      key='R1|%s|do_start caller' % fn['q'])
                        continue
                    v = A.view(fn)
                    ok = True
                    npth = 0
                    for p in v.paths():
                        evs = v.path_events(p)
                        facts_at = None
                        for e, facts in lib.facts_walk(evs):
                            if e.kind == 'call' and e.q.endswith('::do_start'):
                                facts_at = dict(facts)
                        if facts_at is None:
                            continue
                        npth += 1
                        ds = [t for a, t in facts_at.items() if a[0] == 'truthy' and a[1][0] == 'call' and a[1][1] == ACT + '::dependencies_solved' and a[1][2] == ('this',)]
                        ia = [t for a, t in facts_at.items() if a[0] == 'truthy' and a[1][0] == 'call' and a[1][1].endswith('::is_assigned') and a[1][2] == ('this',)]
                        ok = ok and ds == [True] and ia == [True]
                    ctx.check(ok and npth >= 1, 'R1', 'Activity::start: do_start() is dominated by dependencies_solved() and is_assigned()', where(fn, n.get('l')), '%d path(s)' % npth,
                              key='R1|start|guard')
    ds_fn = P.fn(ACT + '::dependencies_solved')
    v = A.view(ds_fn)
    rets = [e.val for p in v.paths() for e in v.path_events(p) if e.kind == 'return']
    ctx.check(len(rets) == 1 and rets[0] == ('call', 'std::set<boost::intrusive_ptr<simgrid::s4u::Activity>>::empty', deps, ()) or
              (len(rets) == 1 and rets[0][0] == 'call' and rets[0][1].endswith('::empty') and rets[0][2] == deps), 'R1',
              'dependencies_solved() is dependencies_.empty()', where(ds_fn), ex.pretty(rets[0]) if rets else '', key='R1|dependencies_solved|definition')
    ctx.require(ncall >= 1, 'R1', 'no call of do_start found')

    # ---- R2 the dependency set shrinks only on success ----------------------------------------------------------------------------------
    ctx.rule('R2', 'dependencies_ is erased only by release_dependencies / remove_successor and inserted only by add_successor; release_dependencies runs only for FINISHED (or detached DONE comm)', 5)
    allowed = {ACT + '::release_dependencies': {'erase'}, ACT + '::remove_successor': {'erase'}, ACT + '::add_successor': {'insert_at'},
               ACT + '::dependencies_solved': set(), ACT + '::get_dependencies': {'read'}, ACT + '::destroy': {'scan'}}
    for u in lib.field_uses(P, ACT + '::dependencies_'):
        c = u.kind if u.kind != 'call' else lib.CONTAINER_OPS.get(u.method, 'other:' + str(u.method))
        if c == 'query' or (u.kind == 'write' and u.op == 'init'):
            continue
        ok = c in allowed.get(u.fn['q'], {'<none>'})
        ctx.check(ok, 'R2', 'dependencies_: %s in %s' % (u.method or u.kind, u.fn['q'].replace(S4U, '')), where(u.fn, u.line), 'operation class %s' % c,
                  key='R2|%s|dependencies_ %s' % (u.fn['q'].rsplit('::', 1)[-1], c))
    nrel = 0
    for fn in P.fns.values():
        for eid, el in enumerate(fn.get('elems') or ()):
            for n in ex.walk(el['x']):
                if n.get('k') == 'Call' and (n.get('c') or {}).get('q') == ACT + '::release_dependencies':
                    nrel += 1
                    v = A.view(fn)
                    oks = []
                    for p in v.paths(max_visits=1) if fn['q'] != 'simgrid::kernel::activity::CommImpl::finish' else []:
                        evs = v.path_events(p)
                        for e, facts in lib.facts_walk(evs):
                            if e.kind == 'call' and e.q == ACT + '::release_dependencies':
                                fin = [t for a, t in facts.items() if a[0] == 'bin' and a[1] == '==' and a[3][0] == 'enum' and a[3][1].endswith('State::FINISHED')]
                                oks.append(fin == [True])
                    if fn['q'] == ACT + '::complete':
                        ctx.check(bool(oks) and all(oks), 'R2', 'complete(): release_dependencies only under state == FINISHED', where(fn, n.get('l')), '%d path(s)' % len(oks),
                                  key='R2|complete|FINISHED guard')
                    elif fn['q'] == 'simgrid::kernel::activity::CommImpl::finish':
                        dom = _dominating_facts(A, fn, n)
                        okc = any(a[0] == 'bin' and a[1] == '==' and a[3][0] == 'enum' and a[3][1].endswith('State::DONE') and t for a, t in dom) and \
                            any(a[0] == 'truthy' and a[1][0] == 'field' and a[1][2].endswith('::detached_') and t for a, t in dom)
                        ctx.check(okc, 'R2', 'CommImpl::finish: release_dependencies only for a detached comm in state DONE', where(fn, n.get('l')), '', key='R2|CommImpl::finish|DONE guard')
                    else:
                        ctx.violation('R2', 'release_dependencies called from %s' % fn['q'], where(fn, n.get('l')), 'successors can be released without the FINISHED test of complete()',
                                      key='R2|%s|release caller' % fn['q'])
    ctx.require(nrel >= 2, 'R2', 'callers of release_dependencies not found')

    # ---- R3 release_dependencies ------------------------------------------------------------------------------------------------------------
    ctx.rule('R3', 'release_dependencies: for each successor, erase this from its dependencies_, start it iff its set became empty, and drop it from successors_', 1)
    rel = P.fn(ACT + '::release_dependencies')
    v = A.view(rel)
    good = 0
    bad = None
    for p in v.paths(max_visits=2):
        if p.exit in ('noreturn', 'cut'):
            continue
        evs = v.path_events(p)
        # first iteration
        b = None
        erased = started = popped = False
        solved = None
        it = 0
        for e in evs:
            if e.kind == 'branch' and e.atom[0] == 'truthy' and e.atom[1][0] == 'call' and e.atom[1][1].endswith('::empty') and e.atom[1][2] == succs:
                it += 1
                if it == 2:
                    break
                continue
            if it != 1:
                continue
            if e.kind == 'assign' and e.rhs[0] == 'call' and e.rhs[1].endswith('::back') and e.rhs[2] == succs:
                b = e.lhs
            if e.kind == 'call' and e.q.endswith('::erase') and b is not None and e.obj == ('field', b, ACT + '::dependencies_') and e.args and ex.mentions(e.args[0], ('this',)):
                erased = True
            if e.kind == 'branch' and e.atom[0] == 'truthy' and e.atom[1][0] == 'call' and e.atom[1][1] == ACT + '::dependencies_solved' and e.atom[1][2] == b:
                solved = e.pol
                if not erased:
                    bad = 'the emptiness test precedes the erase'
            if e.kind == 'call' and e.q.endswith('::start') and e.obj == b:
                started = True
            if e.kind == 'call' and e.q.endswith('::pop_back') and e.obj == succs:
                popped = True
        if it < 1 or b is None:
            continue
        if not (erased and popped and solved is not None and started == solved):
            bad = bad or 'erase=%s pop=%s solved=%s started=%s' % (erased, popped, solved, started)
        else:
            good += 1
    ctx.check(bad is None and good >= 2, 'R3', 'release_dependencies loop body', where(rel), bad or '%d iteration shape(s) recognised' % good, key='R3|release_dependencies|loop body')
    # every successor is released: the emptiness test of successors_ is the head of a loop whose body pops
    drains = False
    for h in v.loop_heads():
        at = v.cond_atom(h['id'])
        if at and at[0][0] == 'truthy' and at[0][1][0] == 'call' and at[0][1][1].endswith('::empty') and at[0][1][2] == succs:
            body = _cg_nl(v, h['id'])
            drains = any(e.kind == 'call' and e.q.endswith('::pop_back') and e.obj == succs for b_ in body for eid in v.blocks[b_].get('e', []) for e in v.events_of(eid))
    ctx.check(drains, 'R3', 'release_dependencies releases every successor (loop until successors_ is empty)', where(rel), '' if drains else 'successors_ is not drained by a loop: only some successors are released',
              key='R3|release_dependencies|drains')
    # start() records STARTING before it decides: the setters of R4 retry start() only for an activity in that state
    stf = P.fn(ACT + '::start')
    vs_ = A.view(stf)
    okst = None
    for p in vs_.paths():
        if p.exit in ('noreturn', 'cut', 'throw'):
            continue
        evs = vs_.path_events(p)
        si = [i for i, e in enumerate(evs) if e.kind == 'assign' and e.lhs[0] == 'field' and e.lhs[2].endswith('::state_') and 'STARTING' in repr(e.rhs)]
        gi = [i for i, e in enumerate(evs) if (e.kind == 'call' and e.q.endswith('::do_start')) or (e.kind == 'call' and e.q.endswith('::fire_on_veto'))]
        good_ = bool(si) and bool(gi) and si[0] < gi[0]
        okst = good_ if okst is None else (okst and good_)
    ctx.check(bool(okst), 'R1', 'Activity::start records state STARTING before it starts or vetoes', where(stf), 'a vetoed activity left in INITED is not retried when it gets assigned (R4 retries in state STARTING)' if not okst else '',
              key='R1|start|records STARTING')

    # ---- R5 both sides together ---------------------------------------------------------------------------------------------------------------
    ctx.rule('R5', 'add_successor / remove_successor update successors_ and the successor\'s dependencies_ on the same path', 2)
    for name, ops, dop in (('add_successor', ('push_back', 'emplace_back'), 'insert'), ('remove_successor', ('erase',), 'erase')):
        f = P.fn(ACT + '::' + name)
        v = A.view(f)
        ok = True
        n = 0
        a_ = lib.parm_i(f, 0)
        for p in v.paths():
            if p.exit in ('noreturn', 'cut', 'throw'):
                continue
            evs = v.path_events(p)
            s1 = [e for e in evs if e.kind == 'call' and e.obj == succs and e.q.rsplit('::', 1)[-1] in ops]
            s2 = [e for e in evs if e.kind == 'call' and e.obj == ('field', a_, ACT + '::dependencies_') and e.q.rsplit('::', 1)[-1] == dop and e.args and ex.mentions(e.args[0], ('this',))]
            n += 1
            ok = ok and len(s1) == 1 and len(s2) == 1
        ctx.check(ok and n >= 1, 'R5', '%s updates both sides' % name, where(f), '%d normal path(s)' % n, key='R5|%s|both sides' % name)

    # ---- R4 retry on assignment ---------------------------------------------------------------------------------------------------------------
    ctx.rule('R4', 'every S4U setter of an assignment field calls start() on each path on which the activity may be in state STARTING (size-0 "cannot start yet" idiom excepted)', 6)
    nset = 0
    for fn in sorted(P.fns.values(), key=lambda f: f['key']):
        if fn.get('cls') not in (S4U + 'Exec', S4U + 'Comm', S4U + 'Io') or not fn.get('blocks'):
            continue
        direct = False
        for el in fn['elems']:
            for n in ex.walk(el['x']):
                if n.get('k') == 'Call' and (n.get('c') or {}).get('q') in ASSIGN_SETTERS:
                    direct = True
                if n.get('k') == 'Lambda':
                    lf = P.fns.get(n['fn'])
                    for el2 in (lf.get('elems') or ()) if lf else ():
                        for n2 in ex.walk(el2['x']):
                            if n2.get('k') == 'Call' and (n2.get('c') or {}).get('q') in ASSIGN_SETTERS:
                                direct = True
        if not direct:
            continue
        nset += 1
        v = A.view(fn)
        STATE = lib.this_field(ACT + '::state_')
        bad = None
        npth = 0
        for p in v.paths():
            if p.exit in ('noreturn', 'cut', 'throw'):
                continue
            evs = v.path_events(p)
            npth += 1
            starting = None     # None unknown, True/False decided by a branch
            only_inited = False
            zero = False
            started = False
            for e in evs:
                if e.kind == 'branch' and e.atom[0] == 'bin' and e.atom[1] == '==' and e.atom[2] == STATE and e.atom[3][0] == 'enum':
                    nm = e.atom[3][1].rsplit('::', 1)[-1]
                    if nm == 'STARTING':
                        starting = e.pol
                    elif e.pol:
                        starting = False     # the state is another one
                if e.kind == 'branch' and e.atom[0] == 'bin' and e.atom[1] in ('<=', '<') and 'remains_' in repr(e.atom[2]) and e.pol:
                    zero = True
                if e.kind == 'call' and (e.q.endswith('::start') or e.q.endswith('::vetoable_start')) and (e.obj == ('this',) or e.obj is None):
                    started = True
            if starting is False or started or zero:
                continue
            bad = 'a path on which state_ may be STARTING returns without start(): %s' % lib.fmt_path(evs, 8)
        ctx.check(bad is None and npth >= 1, 'R4', '%s retries start()' % fn['q'].replace(S4U, ''), where(fn), bad or '%d path(s)' % npth, key='R4|%s|retry' % fn['q'].replace(S4U, ''))
    ctx.require(nset >= 5, 'R4', 'only %d assignment setters found' % nset)
    # ---- R6 the loaders wire every declared parent ---------------------------------------------------------------------------------------------
    ctx.rule('R6', 'loaders: a declared parent is never dropped - JSON wires the dependencies from the complete task table (after the creation pass), DAX refuses an unknown reference', 3)
    from .. import cg as _cg
    jl = [f for f in P.fns.values() if f['q'].endswith('create_DAG_from_json') and f.get('blocks')]
    if len(jl) != 1:
        ctx.unrecognised('R6', 'create_DAG_from_json: %d definitions' % len(jl))
    else:
        f = jl[0]
        v = A.view(f)
        blk_of = lambda e: f['elems'][e.eid]['b']      # noqa: E731
        evs_all = [e for eid in range(len(f['elems'])) for e in v.events_of(eid) if e.eid == eid]
        creates = [e for e in evs_all if e.kind == 'call' and e.q.rsplit('::', 1)[-1] in ('init', 'sendto_init') and e.q.startswith(S4U)]
        wires = [e for e in evs_all if e.kind == 'call' and e.q.endswith('Activity::add_successor')]
        loops = {h['id']: _cg.natural_loop(v, h['id']) | {h['id']} for h in v.loop_heads()}
        create_loops = [hid for hid, body in loops.items() if any(blk_of(e) in body for e in creates)]
        # the outermost loop containing the creations is the pass over the tasks of the file
        outer = max(create_loops, key=lambda hid: len(loops[hid])) if create_loops else None
        inside = [e for e in wires if outer is not None and blk_of(e) in loops[outer]]
        ctx.check(bool(creates) and bool(wires) and outer is not None and not inside, 'R6', 'create_DAG_from_json: add_successor is called after the pass that creates the tasks (a parent may be listed after its child)',
                  where(f, inside[0].line if inside else None), 'add_successor inside the creation pass (line %s): a parent listed later in the file is not known yet and its dependency is lost' % inside[0].line if inside else
                  '%d creation site(s), %d wiring site(s)' % (len(creates), len(wires)), key='R6|create_DAG_from_json|wiring after creation')
    for q in ('STag_dax__parent', 'STag_dax__child'):
        fs = [g for g in P.fns.values() if g['q'] == q and g.get('blocks')]
        if len(fs) != 1:
            ctx.unrecognised('R6', '%s: %d definitions' % (q, len(fs)))
            continue
        g = fs[0]
        vg = A.view(g)
        sh = set()
        for p_ in vg.paths():
            evs = vg.path_events(p_)
            miss = [e.pol for e in evs if e.kind == 'branch' and e.atom[0] == 'bin' and e.atom[1] == '==' and '::end' in repr(e.atom) and 'jobs' in repr(e.atom)]
            sh.add((tuple(miss[:1]), p_.exit))
        ok6 = ((True,), 'throw') in sh and all(x[1] == 'throw' for x in sh if x[0] == (True,)) and any(x[0] == (False,) and x[1] in ('return', 'end') for x in sh)
        ctx.check(ok6, 'R6', '%s: a reference to an unknown job is refused (exception), never skipped' % q, where(g), 'path shapes %s' % sorted(sh, key=repr), key='R6|%s|unknown reference' % q)
    # ---- R7 the loaders leave no entry activity un-started -----------------------------------------------------------------------------------------
    ctx.rule('R7', 'loaders: every activity without predecessor is started by the loader (an un-started entry activity is started by nothing: the setters retry start() '
             'only in state STARTING, release_dependencies only reaches successors) - JSON starts each Exec whose dependencies are solved with no further condition, '
             'DAX starts its root task on every path', 2)
    for f in jl[:1]:
        v = A.view(f)
        nst = 0
        for eid in range(len(f['elems'])):
            for e in v.events_of(eid):
                if not (e.kind == 'call' and e.q.endswith('Activity::start') and e.eid == eid and e.obj is not None):
                    continue
                nst += 1
                IN, tgt, _ = _dominating_facts(A, f, f['elems'][eid]['x'], with_lines=True, with_preds=True)
                extra = []
                solved = False
                for a, t_, l_ in IN.get(tgt, ()):
                    r = repr(a)
                    if '__begin' in r and '__end' in r:
                        continue                                   # loop conditions
                    if not any(x[0] in ('var', 'field', 'call', 'this') for x in ex.subterms(a)):
                        continue                                   # constant tests of the log macros
                    if a[0] == 'truthy' and a[1][0] in ('cast', 'conv') and ex.mentions(a[1], e.obj):
                        continue                                   # kind test (dynamic_cast)
                    if a[0] == 'truthy' and a[1] == e.obj or (a[0] == 'bin' and a[1] in ('==', '!=') and ('null',) in (a[2], a[3])):
                        continue                                   # null test
                    if a[0] == 'truthy' and a[1][0] == 'call' and a[1][1].endswith('::dependencies_solved') and a[1][2] == e.obj and t_:
                        solved = True
                        continue
                    extra.append((l_, '%s%s' % ('' if t_ else '!', ex.pretty(a))))
                ctx.check(solved and not extra, 'R7', 'create_DAG_from_json: the final pass starts every Exec whose dependencies are solved', where(f, e.line),
                          ('start() is also conditioned by %s: an entry task failing it stays INITED and is never started' % ', '.join(x[1] for x in extra)) if extra
                          else ('guarded by dependencies_solved() and the kind test only' if solved else 'start() is not guarded by dependencies_solved()'),
                          key='R7|create_DAG_from_json|entry tasks started')
        ctx.require(nst >= 1, 'R7', 'create_DAG_from_json: no call of Activity::start')
    dl = [g for g in P.fns.values() if g['q'].endswith('create_DAG_from_DAX') and g.get('blocks')]
    if len(dl) != 1:
        ctx.unrecognised('R7', 'create_DAG_from_DAX: %d definitions' % len(dl))
    else:
        g = dl[0]
        vg = A.view(g)
        dom = _cg.dominators(vg)
        root_start = [e for eid in range(len(g['elems'])) for e in vg.events_of(eid) if e.eid == eid and e.kind == 'call' and e.q.endswith('::start') and e.obj is not None
                      and e.obj[0] == 'var' and e.obj[2] == 'root_task']
        rets = [b['id'] for b in g['blocks'] if any(g['elems'][x]['x'].get('k') == 'Return' for x in b.get('e', [])) and b['id'] in dom]
        ok7 = bool(root_start) and bool(rets) and all(any(g['elems'][e.eid]['b'] in dom[r] for e in root_start) for r in rets)
        ctx.check(ok7, 'R7', 'create_DAG_from_DAX: root_task->start() on every path to the return', where(g, root_start[0].line if root_start else None),
                  'every job without input file hangs below root_task: it is the only entry activity' if ok7 else 'the root task is not started on some path: nothing starts the workflow',
                  key='R7|create_DAG_from_DAX|root started')
    ctx.assume('start dates, the DOT loader (not built here) and the remaining graph construction of the loaders (file nodes of DAX, transfer sources of JSON) are not decided')
    return EXPLANATION


from ..lib import dominating_facts as _dominating_facts  # noqa: E402,F401
from ..cg import natural_loop as _cg_nl  # noqa: E402
