"""C10 — Resource failures are reported to every live participant (DESIGN.md 3, C10): the failure chain, link by link."""
from .. import cg, ex, lib
from ..cfg import abstract_run
from ..core import where
from ..ir import AnalysisBroken

UNITS = ['src/kernel/resource/CpuImpl.cpp', 'src/kernel/resource/StandardLinkImpl.cpp', 'src/kernel/resource/DiskImpl.cpp',
         'src/kernel/resource/SplitDuplexLinkImpl.cpp', 'src/kernel/resource/models/cpu_ti.cpp', 'src/kernel/resource/models/cpu_cas01.cpp',
         'src/kernel/resource/models/network_cm02.cpp', 'src/kernel/resource/HostImpl.cpp', 'src/kernel/resource/WifiLinkImpl.cpp',
         'src/kernel/resource/VirtualMachineImpl.cpp',
         'src/kernel/EngineImpl.cpp', 'src/kernel/actor/ActorImpl.cpp', 'src/kernel/activity/ActivityImpl.cpp', 'src/kernel/activity/CommImpl.cpp',
         'src/kernel/activity/ExecImpl.cpp', 'src/kernel/activity/IoImpl.cpp', 'src/kernel/activity/SleepImpl.cpp', 'src/kernel/activity/MessImpl.cpp',
         'src/kernel/activity/MutexImpl.cpp', 'src/kernel/activity/SemaphoreImpl.cpp', 'src/kernel/activity/ConditionVariableImpl.cpp',
         'src/kernel/activity/BarrierImpl.cpp', 'src/kernel/lmm/System.cpp']
K = 'simgrid::kernel::'
ACT = K + 'activity::'
RES = K + 'resource::'
FAIL_STATES = ('FAILED', 'SRC_HOST_FAILURE', 'DST_HOST_FAILURE', 'LINK_FAILURE')
EXPLANATION = ('Link-by-link path rules on the failure chain: every Resource::turn_off override marks the resource off and fails its actions '
               '(Resource::turn_off + cancel_actions, or delegation to the member links); cancel_actions visits every variable of the constraint and '
               'moves INITED/STARTED/IGNORED actions to FAILED (truth table); EngineImpl::run handles ended actions after every sub-round and '
               'every timer batch (finite-state exploration of its CFG) and handle_ended_actions drains the failed and done sets of every model and '
               'finishes every activity attached; every finish() override answers each live registered simcall exactly once, maps every failure '
               'state to an exception before the answer and never overwrites a failure state computed from a dead host; HostImpl::turn_off kills '
               'every actor of the host, exit() cancels and finishes what the victim waits for, on_exit callbacks receive wannadie().')


# confirmed by reading and by replay (kill of an actor blocked in ConditionVariable::wait under simgrid-mc: no crash); one reason per symbol
R7_EXCEPTIONS = {
    'ConditionVariableAcquisitionImpl': 'the unchecked use is in the model-checking branch only: under the checker the wait simcall is fired once the acquisition is granted, '
                                        'so finish() runs with a live issuer, and a killed waiter has no registered simcall to finish',
}


def sname(t):
    """State enumerator name of a term like ('enum', '...State::FAILED', v)"""
    if t and t[0] == 'enum':
        return t[1].rsplit('::', 1)[-1]
    return None


def head_terms(v, h):
    """normal forms evaluated by a loop head: its condition and the elements of its block (`while (auto* x = f())` puts f() there)"""
    out = []
    c = v.cond_elem(h['id'])
    if c is not None:
        out.append(v.norm(c))
    for eid in h.get('e', []):
        for e in v.events_of(eid):
            if e.kind == 'call':
                out.append(e.nf)
    return out


def run(ctx):
    P = ctx.load(UNITS)
    A = ctx.analyzer

    # ---- R1 turn_off overrides ------------------------------------------------------------------------------------------------------------
    ctx.rule('R1', 'every override of Resource::turn_off, when the resource is on, marks it off (Resource::turn_off) and fails its actions (cancel_actions), or delegates to turn_off of its member resources', 4)
    base_off = RES + 'Resource::turn_off'
    offs = [f for f in P.overriders(RES + 'Resource', 'turn_off') if f['q'] != base_off and f.get('blocks')]
    seen_q = set()
    for f in offs:
        if f['q'] in seen_q:
            continue
        seen_q.add(f['q'])
        if f['q'].endswith('HostImpl::turn_off') or 'VirtualMachineImpl' in f['q']:
            continue
        v = A.view(f)
        verdicts = []
        # a model without LMM constraint (trace-integration CPU) fails the actions of its own action list instead of calling cancel_actions()
        all_evs = [e for eid in range(len(f['elems'])) for e in v.events_of(eid) if e.eid == eid]
        own_list = any(el['x'].get('k') == 'Decl' and any(d.get('d', {}).get('n', '').startswith('__range') and d.get('init') is not None and
                                                           any(n.get('k') == 'Mem' and 'action' in (n.get('d') or {}).get('n', '').lower() for n in ex.walk(d['init'])) for d in el['x'].get('decls', ()))
                       for el in f['elems'])
        fails = [e for e in all_evs if e.kind == 'call' and e.q.endswith('::set_state') and e.args and 'FAILED' in repr(e.args[0])]
        live = set(nm for b in v.blocks if v.cond_atom(b['id']) is not None for nm in ('INITED', 'STARTED', 'IGNORED') if nm in repr(v.cond_atom(b['id'])[0]))
        own_loop = own_list and bool(fails) and live == {'INITED', 'STARTED', 'IGNORED'}
        for p in v.paths():
            if p.exit in ('noreturn', 'cut'):
                continue
            ctx.count('paths')
            evs = v.path_events(p)
            on = None
            for e in evs:
                if e.kind == 'branch' and e.atom[0] == 'truthy' and e.atom[1][0] == 'call' and e.atom[1][1].endswith('::is_on') and e.atom[1][2] == ('this',):
                    on = e.pol
            base = [e for e in evs if e.kind == 'call' and e.q == base_off and e.obj == ('this',)]
            canc = [e for e in evs if e.kind == 'call' and e.q.endswith('::cancel_actions') and e.obj == ('this',)]
            deleg = [e for e in evs if e.kind == 'call' and e.q.endswith('::turn_off') and e.obj is not None and e.obj != ('this',)]
            if on is False:
                continue
            if base and canc:
                verdicts.append(('ok', 'Resource::turn_off + cancel_actions'))
            elif base and own_loop:
                verdicts.append(('ok', 'Resource::turn_off + every INITED/STARTED/IGNORED action of its own action list set FAILED'))
            elif deleg and not base:
                verdicts.append(('ok', 'delegates to %s' % ', '.join(ex.pretty(e.obj) for e in deleg)))
            elif base and not canc:
                verdicts.append(('bad', 'marks the resource off but does not fail its running actions (no cancel_actions)'))
            else:
                verdicts.append(('bad', 'neither marks the resource off nor fails its actions'))
        # a delegating override turns off every member that its turn_on() sibling turns on
        all_deleg = sorted(set(ex.pretty(e.obj) for e in all_evs if e.kind == 'call' and e.q.endswith('::turn_off') and e.obj is not None and e.obj != ('this',)))
        if all_deleg and not any(e.kind == 'call' and e.q == base_off for e in all_evs):
            sib = [g for g in P.fns.values() if g['q'] == f['q'].rsplit('::', 1)[0] + '::turn_on' and g.get('blocks')]
            if sib:
                gv = A.view(sib[0])
                ons = sorted(set(ex.pretty(e.obj) for eid in range(len(sib[0]['elems'])) for e in gv.events_of(eid) if e.kind == 'call' and e.q.endswith('::turn_on') and e.obj is not None and e.obj != ('this',)))
                if ons != all_deleg:
                    verdicts.append(('bad', 'turn_on() turns on %s but turn_off() only turns off %s' % (ons, all_deleg)))
        bad = [d for s_, d in verdicts if s_ == 'bad']
        ctx.check(not bad and bool(verdicts), 'R1', f['q'].replace(RES, ''), where(f), '; '.join(sorted(set(d for _, d in verdicts))) or 'no path turns the resource off',
                  key='R1|%s|cancel_actions' % f['q'].replace(RES, ''))

    # ---- R2 cancel_actions ----------------------------------------------------------------------------------------------------------------
    ctx.rule('R2', 'cancel_actions visits every variable of the constraint; an action is set FAILED (with its finish time) iff its state is INITED, STARTED or IGNORED', 4)
    cas = [f for f in P.fns.values() if f['q'].endswith('::cancel_actions') and f.get('blocks')]
    sig_done = set()
    for f in cas:
        v = A.view(f)
        loops = v.loop_heads()
        okloop = False
        for h in loops:
            for t in head_terms(v, h):
                okloop = okloop or any(s[0] == 'call' and s[1].endswith('Constraint::get_variable') and s[2] is not None and
                                       s[2][0] == 'call' and s[2][1].endswith('::get_constraint') for s in ex.subterms(t))
        rows = {}
        for p in v.paths():
            if p.exit in ('noreturn',):
                continue
            evs = v.path_events(p)
            # one iteration = the events between two evaluations of the loop condition; take the first iteration of each path
            lits = {}
            failed = False
            fin = False
            started = False
            for e in evs:
                if e.kind == 'call' and e.q.endswith('Constraint::get_variable'):
                    if started:
                        break
                    started = True
                if not started:
                    continue
                if e.kind == 'branch' and e.atom[0] == 'bin' and e.atom[1] == '==' and sname(e.atom[3]) and 'get_state' in repr(e.atom[2]):
                    lits.setdefault(sname(e.atom[3]), e.pol)
                if e.kind == 'call' and e.q.endswith('Action::set_state') and sname(e.args[0]) == 'FAILED':
                    failed = True
                if e.kind == 'call' and e.q.endswith('Action::set_finish_time'):
                    fin = True
            if not started or not lits:
                continue
            rows[tuple(sorted(lits.items()))] = (failed, fin)
        sig = (f['q'].split('<')[0], tuple(sorted(rows.items())), okloop)
        if sig in sig_done:
            continue
        sig_done.add(sig)
        ctx.check(okloop, 'R2', '%s: loops on get_constraint()->get_variable(&elem)' % f['q'].replace(RES, ''), where(f), '', key='R2|cancel_actions|loop')
        for lits, (failed, fin) in sorted(rows.items()):
            d = dict(lits)
            want = any(d.get(s_) for s_ in ('INITED', 'STARTED', 'IGNORED'))
            unknown = set(d) - {'INITED', 'STARTED', 'IGNORED'}
            ctx.check(failed == want and fin == want and not unknown, 'R2', '%s: state tests %s' % (f['q'].replace(RES, '').split('<')[0], d), where(f),
                      'set FAILED: %s, finish time stamped: %s (expected %s)' % (failed, fin, want), key='R2|cancel_actions|state filter')
        tested = set(k_ for lits, _ in rows.items() for k_, _v in lits)
        missing = {'INITED', 'STARTED', 'IGNORED'} - tested
        ctx.check(not missing, 'R2', '%s: the live states INITED, STARTED and IGNORED are all failed' % f['q'].replace(RES, '').split('<')[0], where(f),
                  ('actions in state %s survive the failure of their resource' % sorted(missing)) if missing else '', key='R2|cancel_actions|live states')
        ctx.require(len(rows) >= 2, 'R2', '%s: per-variable paths not recognised' % f['q'])

    # the iterator cancel_actions relies on walks the enabled elements of the constraint and then the disabled ones (comms still paying their latency,
    # suspended actions): both lists hold actions that use the resource
    gv = [f for f in P.fns.values() if f['q'] == 'simgrid::kernel::lmm::Constraint::get_variable' and f.get('blocks')]
    if len(gv) != 1:
        ctx.unrecognised('R2', 'Constraint::get_variable: %d definitions' % len(gv))
    else:
        g = gv[0]
        vg = A.view(g)
        elem = ('un', '*', lib.parm_i(g, 0))
        first, carry = set(), set()
        for p in vg.paths():
            if p.exit in ('noreturn', 'cut'):
                continue
            evs = vg.path_events(p)
            isfirst = [e.pol for e in evs if e.kind == 'branch' and e.atom[0] == 'bin' and e.atom[1] == '==' and elem in (e.atom[2], e.atom[3]) and ('null' in repr(e.atom) or ('int', 0) in (e.atom[2], e.atom[3]))] + \
                      [not e.pol for e in evs if e.kind == 'branch' and e.atom == ('truthy', elem)]
            linked = [e.pol for e in evs if e.kind == 'branch' and 'enabled_element_set_hook' in repr(e.atom) and 'is_linked' in repr(e.atom)]
            vals = set()
            for e in evs:
                if e.kind == 'assign' and e.lhs == elem:
                    for t in ex.subterms(e.rhs):
                        if t[0] == 'call' and t[1].endswith('::front'):
                            vals.add('disabled.front' if 'disabled_element_set_' in repr(t[2]) else ('enabled.front' if 'enabled_element_set_' in repr(t[2]) else 'front?'))
            if isfirst and isfirst[0]:
                first |= vals
            elif linked and linked[0]:
                carry |= vals
        ok_gv = {'enabled.front', 'disabled.front'} <= first and 'disabled.front' in carry
        ctx.check(ok_gv, 'R2', 'Constraint::get_variable walks the enabled elements, then jumps to the disabled ones', where(g),
                  'first call may start at %s; after the last enabled element it continues with %s%s' % (sorted(first), sorted(carry) or 'nothing',
                                                                                                         '' if ok_gv else ': the disabled elements (comms in their latency phase, suspended actions) are never visited, so cancel_actions() does not fail them'),
                  key='R2|Constraint::get_variable|both element sets')
    # ---- R3 ended actions are handled ---------------------------------------------------------------------------------------------------------
    ctx.rule('R3', 'run() handles ended actions after every sub-round and every timer batch; handle_ended_actions drains failed and done actions of every model and finishes their activities', 4)
    EI = K + 'EngineImpl'
    runf = P.fn(EI + '::run')

    def tr(st, e):
        sub, tim, bad = st
        if e.kind == 'call':
            if e.q == EI + '::run_all_actors':
                if sub:
                    bad = True
                sub = True
            elif e.q == EI + '::handle_ended_actions':
                sub = tim = False
            elif e.q.endswith('Timer::execute_all'):
                if tim:
                    bad = True
                tim = True
            elif e.q == EI + '::solve':
                if sub or tim:
                    bad = True
        return (sub, tim, bad)
    exits = abstract_run(A, runf, (False, False, False), tr)
    bad = [s for s in exits['normal'] if s[2] or s[0] or s[1]]
    ctx.check(bool(exits['normal']) and not bad, 'R3', 'EngineImpl::run: handle_ended_actions follows every run_all_actors and every Timer::execute_all before the next one / the next solve',
              where(runf), 'exit states %s' % sorted(exits['normal']), key='R3|run|handle_ended_actions placement')
    hea = P.fn(EI + '::handle_ended_actions')
    v = A.view(hea)
    loops = v.loop_heads()
    outer = [h for h in loops if h['t'].get('k') == 'CXXForRangeStmt']
    rng = [d for el in hea['elems'] if el['x'].get('k') == 'Decl' for d in el['x'].get('decls', ())
           if d.get('d', {}).get('n', '').startswith('__range') and d.get('init') is not None]
    ok_outer = len(outer) == 1 and len(rng) == 1 and ex.mentions(v.norm(rng[0]['init']), lib.this_field(EI + '::models_'))
    ctx.check(ok_outer, 'R3', 'handle_ended_actions iterates over every model of models_', where(hea), '', key='R3|handle_ended_actions|models loop')
    for which in ('extract_failed_action', 'extract_done_action'):
        heads = []
        for h in loops:
            if any(s[0] == 'call' and s[1].endswith('Model::' + which) for t in head_terms(v, h) for s in ex.subterms(t)):
                heads.append(h)
        if len(heads) != 1:
            ctx.violation('R3', 'handle_ended_actions drains %s' % which, where(hea), 'no `while (action = model->%s())` loop' % which, key='R3|handle_ended_actions|%s loop' % which)
            continue
        body = cg.natural_loop(v, heads[0]['id'])
        inner_outer = outer and heads[0]['id'] in cg.natural_loop(v, outer[0]['id'])
        # inside the body: on every path where get_activity() != nullptr, finish() is called
        fin_ok = True
        n = 0
        for p in v.paths(start=v.succs(heads[0]['id'])[0], max_visits=1):
            evs = v.path_events(p)
            has = None
            fin = False
            for e in evs:
                if e.bid == heads[0]['id']:
                    break
                if e.kind == 'branch' and e.atom[0] == 'truthy' and 'get_activity' in repr(e.atom[1]) and has is None:
                    has = e.pol
                if e.kind == 'call' and e.q.endswith('ActivityImpl::finish'):
                    fin = True
                if e.kind == 'call' and e.q.endswith('Model::' + which):
                    break
            if has is True:
                n += 1
                fin_ok = fin_ok and fin
            elif has is False:
                fin_ok = fin_ok and not fin
        ctx.check(bool(inner_outer) and fin_ok and n >= 1, 'R3', 'handle_ended_actions: every action from %s with an activity gets activity->finish()' % which, where(hea, heads[0]['t'].get('l')),
                  '%d path(s) with an activity' % n, key='R3|handle_ended_actions|%s finish' % which)

    # ---- R4/R5 finish() overrides ---------------------------------------------------------------------------------------------------------------
    ctx.rule('R4', 'every finish() override drains simcalls_: each live issuer is answered (or re-suspended) exactly once; every failure state the activity can be in has a case storing an exception before the answer', 12)
    ctx.rule('R5', 'state computation of finish(): a dead host/disk leads to a failure state at the answer loop, and a computed failure state is never overwritten', 6)
    fins = [f for f in P.overriders(ACT + 'ActivityImpl', 'finish') if f.get('blocks')]
    names = sorted(set(f['q'] for f in fins))
    resource_bound = {ACT + 'CommImpl::finish', ACT + 'ExecImpl::finish', ACT + 'IoImpl::finish', ACT + 'SleepImpl::finish'}
    kinds = resource_bound | {ACT + 'MessImpl::finish'}
    for f in fins:
        if f['q'] not in kinds:
            continue      # the synchronisation acquisitions have a single waiter; they are the subject of C04-C07
        cls = f['q'].replace(ACT, '').replace('::finish', '')
        v = A.view(f)
        # (a) the answer loop, explored abstractly: state = (phase, issuer_live, answered, exc, bad)
        def tr4(st, e, _cls=cls):
            pending, answered, bad = st
            if e.kind == 'call' and e.q.endswith('::unregister_first_simcall'):
                if pending == 'live' and answered != 1:
                    bad = 'an issuer was left without answer'
                return ('unknown', 0, bad)
            if e.kind == 'branch' and pending == 'unknown' and e.atom[0] == 'truthy' and e.atom[1][0] == 'var' and e.atom[1][2] == 'issuer':
                return ('live' if e.pol else 'null', answered, bad)
            if e.kind == 'branch' and pending == 'unknown' and e.atom[0] == 'bin' and e.atom[1] == '==' and e.atom[3] == ('null',) and \
                    e.atom[2][0] == 'var' and e.atom[2][2] == 'issuer':
                return ('null' if e.pol else 'live', answered, bad)
            if e.kind == 'call' and (e.q.endswith('ActorImpl::simcall_answer') or e.q.endswith('ActorImpl::suspend')) and e.obj is not None and \
                    e.obj[0] == 'var' and e.obj[2] == 'issuer':
                if pending == 'null':
                    bad = 'a null issuer is used'
                if pending == 'unknown':
                    pending = 'live'      # no null test: handled by R7
                answered += 1
                if answered > 1:
                    bad = 'an issuer is answered twice'
                    answered = 2
                return (pending, answered, bad)
            if e.kind == 'branch' and e.atom[0] == 'truthy' and e.atom[1][0] == 'call' and e.atom[1][1].endswith('::empty') and 'simcalls_' in repr(e.atom[1]):
                if pending == 'live' and answered != 1:
                    bad = 'an issuer was left without answer'
                if e.pol:      # queue empty: leaving the loop
                    return ('done', 0, bad)
                return ('none', 0, bad)
            return None
        exits = abstract_run(A, f, ('none', 0, None), tr4)
        states = exits['normal']
        bads = sorted(set(s[2] for s in states if s[2]))
        undrained = [s for s in states if s[0] not in ('done',)]
        has_loop = any('simcalls_' in repr(v.cond_atom(h['id'])) for h in v.loop_heads())
        if not has_loop:
            ctx.violation('R4', '%s::finish drains simcalls_' % cls, where(f), 'no `while (not simcalls_.empty())` loop', key='R4|%s|drain loop' % cls)
        else:
            ctx.check(not bads and not undrained and bool(states), 'R4', '%s::finish: each live issuer answered exactly once, loop runs until simcalls_ is empty' % cls, where(f),
                      '; '.join(bads) or ('exit states %s' % sorted(states)), key='R4|%s|answer once' % cls)
        # (b) failure-state switch
        if f['q'] not in resource_bound or cls == 'SleepImpl':
            continue
        assigned = set()
        for g in P.methods_of(ACT + cls) + [P.fn(ACT + 'ActivityImpl::cancel'), P.fn(K + 'actor::ActorImpl::exit'), P.fn(RES + 'HostImpl::turn_off')]:
            if not g.get('elems'):
                continue
            for el in g['elems']:
                for n in ex.walk(el['x']):
                    if n.get('k') == 'Call' and (n.get('c') or {}).get('q', '').endswith('ActivityImpl::set_state') and n.get('a'):
                        s_ = sname(ex.Norm(g)(n['a'][0]))
                        if s_:
                            assigned.add(s_)
        fail_possible = sorted(s_ for s_ in assigned if s_ in FAIL_STATES or s_ == 'CANCELED')
        sw = [(b, cases) for b, cases in v.case_blocks() if 'get_state' in repr(v.norm(v.cond_elem(b))) or 'state_' in repr(v.norm(v.cond_elem(b)))]
        if len(sw) != 1:
            ctx.unrecognised('R4', '%s::finish: state switch not found' % cls)
            continue
        sb, cases = sw[0]
        labels = {}
        default_succ = None
        for lab, succ in cases:
            if lab is None or lab.get('k') == 'default':
                default_succ = succ
            elif lab.get('n'):
                labels[lab['n'].rsplit('::', 1)[-1]] = succ
            elif 'v' in lab:
                labels[lab['v']] = succ
        enumv = lib.enum_values(P, ACT + 'State')
        byval = {vv: kk for kk, vv in enumv.items()}
        labels = {(byval.get(k_, k_) if not isinstance(k_, str) else k_): s_ for k_, s_ in labels.items()}
        for s_ in fail_possible:
            if s_ not in labels:
                ctx.violation('R4', '%s::finish: case for state %s' % (cls, s_), where(f), 'the activity can be put in state %s but finish() has no case for it: the waiter is answered without exception' % s_,
                              key='R4|%s|case %s' % (cls, s_))
                continue
            # from the case label to the answer: an exception is stored on every path
            ok = True
            npth = 0
            doomed = None
            for p in v.paths(start=labels[s_], max_visits=1):
                evs = v.path_events(p)
                exc = False
                for e in evs:
                    if e.kind == 'call' and e.q.endswith('ActorImpl::set_wannadie') and e.obj is not None and e.obj[0] == 'var' and e.obj[2] == 'issuer':
                        doomed = e
                    if e.kind == 'assign' and e.lhs[0] == 'field' and e.lhs[2].endswith('::exception_'):
                        exc = True
                    if e.kind == 'call' and e.q.endswith('exception_ptr::operator=') and e.obj is not None and e.obj[0] == 'field' and \
                            e.obj[2].endswith('::exception_') and e.args and e.args[0] != ('null',):
                        exc = True
                    if e.kind == 'call' and e.q.endswith('ActorImpl::throw_exception'):
                        exc = True
                    if e.kind == 'call' and e.q.endswith('ActorImpl::simcall_answer'):
                        npth += 1
                        ok = ok and exc
                        break
            ctx.check(ok and npth >= 1, 'R4', '%s::finish: state %s stores an exception before the answer' % (cls, s_), where(f), '%d path(s)' % npth, key='R4|%s|exception %s' % (cls, s_))
            ctx.check(doomed is None, 'R4', '%s::finish: state %s reports to the waiter instead of killing it' % (cls, s_), where(f, doomed.line if doomed else None),
                      'issuer->set_wannadie(): a live waiter (unregister_first_simcall already filters actors whose own host is off) is killed silently, the exception stored for it is never seen'
                      if doomed else '', key='R4|%s|waiter killed %s' % (cls, s_))
        # default asserts DONE
        if default_succ is not None:
            okd = False
            for p in v.paths(start=default_succ, max_visits=1):
                evs = v.path_events(p)
                for e in evs:
                    if e.kind == 'branch' and e.atom[0] == 'bin' and e.atom[1] == '==' and sname(e.atom[3]) == 'DONE':
                        okd = okd or (e.pol and p.exit != 'noreturn')
                        break
            ctx.check(okd, 'R4', '%s::finish: default case asserts DONE' % cls, where(f), '', key='R4|%s|default' % cls)

    # R5: pre-loop state computation
    for f in fins:
        if f['q'] not in resource_bound:
            continue
        cls = f['q'].replace(ACT, '').replace('::finish', '')
        v = A.view(f)
        def tr5(st, e):
            seq, off, frozen = st
            if frozen:
                return None
            if e.kind == 'call' and e.q.endswith('::unregister_first_simcall'):
                return (seq, off, True)
            if e.kind == 'branch' and 'simcalls_' in repr(e.atom):
                return (seq, off, True)
            if e.kind == 'branch' and e.atom[0] == 'truthy' and e.atom[1][0] == 'call' and e.atom[1][1].endswith('::is_on') and not e.pol:
                return (seq, off + (ex.pretty(e.atom[1][2]),), frozen)
            if e.kind == 'branch' and e.atom[0] == 'truthy' and e.atom[1][0] == 'call' and e.atom[1][1] == 'std::any_of' and e.pol and 'lambda' in repr(e.atom[1]):
                return (seq, off + ('one of get_hosts()',), frozen)
            if e.kind == 'branch' and e.atom[0] == 'truthy' and e.atom[1][0] == 'call' and e.atom[1][1] in ('std::all_of', 'std::none_of') and 'lambda' in repr(e.atom[1]) and 'get_hosts' in repr(v.fn['elems']):
                return (seq, off + ('QUANTIFIER %s over get_hosts()' % e.atom[1][1],), frozen)
            if e.kind == 'call' and e.q.endswith('ActivityImpl::set_state') and e.obj == ('this',):
                return (seq + (sname(e.args[0]),), off, frozen)
            if e.kind == 'branch' and ('get_state' in repr(e.atom) and 'model_action_' not in repr(e.atom)):
                return (seq + ('<read>',), off, frozen)
            return None
        ex5 = abstract_run(A, f, ((), (), False), tr5)
        sig_seen = set()
        for seq, off, frozen in sorted(ex5['normal'], key=repr):
            sig = (seq, off)
            if sig in sig_seen:
                continue
            sig_seen.add(sig)
            sets = [s_ for s_ in seq if s_ != '<read>']
            # overwritten failure state: a failure state followed by another set_state with no read in between
            over = None
            for i in range(len(seq) - 1):
                if seq[i] in FAIL_STATES and seq[i + 1] != '<read>' and seq[i + 1] is not None and seq[i + 1] != seq[i]:
                    over = (seq[i], seq[i + 1])
            if over:
                ctx.violation('R5', '%s::finish: failure state %s is overwritten by %s' % (cls, over[0], over[1]), where(f),
                              'on the path where %s is off the state %s computed from the dead resource is replaced before anybody reads it: waiters get the exception of %s'
                              % (', '.join(off) or 'a resource', over[0], over[1]), key='R5|%s|overwritten %s' % (cls, over[0]))
            elif off and any(o.startswith('QUANTIFIER') for o in off):
                ctx.violation('R5', '%s::finish: a dead host among the hosts of the activity leads to a failure state' % cls, where(f),
                              'the hosts are tested with %s: an activity spread over several hosts fails only when all of them are off' % [o for o in off if o.startswith('QUANTIFIER')][0].split()[1],
                              key='R5|%s|dead resource state' % cls)
            elif off and cls != 'SleepImpl':
                final = sets[-1] if sets else None
                ctx.check(final in FAIL_STATES, 'R5', '%s::finish: %s off -> state %s at the answer loop' % (cls, ', '.join(off), final), where(f), 'set_state sequence %s' % sets,
                          key='R5|%s|dead resource state' % cls)
            elif sets:
                ctx.holds('R5', '%s::finish: state sequence %s' % (cls, sets), where(f), '')

    # ---- R6 host failure kills hosted actors; exit() releases what the victim waits for --------------------------------------------------------------
    ctx.rule('R6', 'HostImpl::turn_off kills every actor of the host, turns off its disks and fails the maestro-owned activities that use it; ActorImpl::exit cancels+finishes every waited activity; on_exit callbacks get wannadie()', 5)
    hto = P.fn(RES + 'HostImpl::turn_off')
    v = A.view(hto)
    okk = False
    for h in v.loop_heads():
        if h['t'].get('k') != 'CXXForRangeStmt':
            continue
        body = cg.natural_loop(v, h['id'])
        rng = [d for el in hto['elems'] if el['x'].get('k') == 'Decl' and el.get('l') == h['t'].get('l') for d in el['x'].get('decls', ())
               if d.get('d', {}).get('n', '').startswith('__range') and d.get('init') is not None]
        if not rng or not ex.mentions(v.norm(rng[0]['init']), lib.this_field(RES + 'HostImpl::actor_list_')):
            continue
        kills = [n for b in body for eid in v.blocks[b].get('e', []) for n in ex.walk(hto['elems'][eid]['x'])
                 if n.get('k') == 'Call' and (n.get('c') or {}).get('q', '').endswith('ActorImpl::kill')]
        # unconditional in the body: the body has no branch before the kill
        cond_blocks = [b for b in body if len(v.succs(b)) > 1 and not v.is_log_branch(b) and b != h['id']]
        okk = bool(kills) and not cond_blocks
    ctx.check(okk, 'R6', 'HostImpl::turn_off kills every actor of actor_list_ unconditionally', where(hto), '', key='R6|HostImpl::turn_off|kill loop')
    # the same function turns off what hangs below the host (its disks, its VMs) and fails the maestro-owned (detached) activities that use it
    loops = {}
    for h in v.loop_heads():
        if h['t'].get('k') != 'CXXForRangeStmt':
            continue
        body = cg.natural_loop(v, h['id'])
        rng = [d for el in hto['elems'] if el['x'].get('k') == 'Decl' and el.get('l') == h['t'].get('l') for d in el['x'].get('decls', ())
               if d.get('d', {}).get('n', '').startswith('__range') and d.get('init') is not None]
        if not rng:
            continue
        r = v.norm(rng[0]['init'])
        calls = [(n.get('c') or {}).get('q', '').rsplit('::', 2)[-2:] for b in sorted(body, reverse=True) for eid in v.blocks[b].get('e', []) for n in ex.walk(hto['elems'][eid]['x']) if n.get('k') == 'Call']
        cond_blocks = [b for b in body if len(v.succs(b)) > 1 and not v.is_log_branch(b) and b != h['id']]
        loops[ex.pretty(r)] = (['::'.join(c) for c in calls], bool(cond_blocks))
    dk = [k_ for k_ in loops if k_.endswith('disks_')]
    okd = bool(dk) and any(c.endswith('DiskImpl::turn_off') for c in loops[dk[0]][0]) and not loops[dk[0]][1]
    ctx.check(okd, 'R6', 'HostImpl::turn_off turns off every disk of the host', where(hto), 'loop over disks_: %s' % (loops.get(dk[0]) if dk else 'not found',), key='R6|HostImpl::turn_off|disks')
    tc = [k_ for k_ in loops if k_.endswith('to_clean')]
    okm = bool(tc) and [c.rsplit('::', 1)[-1] for c in loops[tc[0]][0] if c.rsplit('::', 1)[-1] in ('cancel', 'set_state')] == ['cancel', 'set_state'] and not loops[tc[0]][1]
    fails = [e for eid in range(len(hto['elems'])) for e in v.events_of(eid) if e.kind == 'call' and e.q.endswith('ActivityImpl::set_state') and e.args and 'FAILED' in repr(e.args[0])]
    ctx.check(okm and bool(fails), 'R6', 'HostImpl::turn_off cancels and marks FAILED every maestro-owned activity that uses the host', where(hto), 'loop over the collected activities: %s' % (loops.get(tc[0]) if tc else 'not found',),
              key='R6|HostImpl::turn_off|maestro activities')
    exf = P.fn(K + 'actor::ActorImpl::exit')
    v = A.view(exf)
    oke = False
    for h in v.loop_heads():
        a = v.cond_atom(h['id'])
        if a and 'waiting_synchros_' in repr(a[0]):
            body = cg.natural_loop(v, h['id'])
            calls = [((n.get('c') or {}).get('q', '')) for b in sorted(body, reverse=True) for eid in v.blocks[b].get('e', []) for n in ex.walk(exf['elems'][eid]['x']) if n.get('k') == 'Call']
            seq = [c.rsplit('::', 1)[-1] for c in calls if c.endswith(('ActivityImpl::cancel', 'ActivityImpl::set_state', 'ActivityImpl::finish'))]
            oke = seq == ['cancel', 'set_state', 'finish'] or ('cancel' in seq and 'finish' in seq and seq.index('cancel') < seq.index('finish'))
    ctx.check(oke, 'R6', 'ActorImpl::exit: every waited activity is canceled, marked FAILED and finished', where(exf), '', key='R6|ActorImpl::exit|waiting synchros')
    cfs = P.fn(K + 'actor::ActorImpl::cleanup_from_self')
    v = A.view(cfs)
    okc = False
    for p in v.paths(max_visits=2):
        evs = v.path_events(p)
        fv = [e.lhs for e in evs if e.kind == 'assign' and e.rhs[0] == 'call' and e.rhs[1].endswith('::wannadie') and e.rhs[2] == ('this',)]
        for e in evs:
            if e.kind == 'call' and (e.q.endswith('::operator()')) and fv and e.args == (fv[0],):
                okc = True
    ctx.check(okc, 'R6', 'cleanup_from_self passes wannadie() as the failed flag of the on_exit callbacks', where(cfs), '', key='R6|cleanup_from_self|failed flag')

    # ---- R7 contradiction: the result of unregister_first_simcall is null-checked by some finish() and dereferenced unchecked by others ---------------
    ctx.rule('R7', 'sibling agreement: every finish() tests the issuer returned by unregister_first_simcall for null before using it', 8)
    for f in fins:
        cls = f['q'].replace(ACT, '').replace('::finish', '')

        def tr7(st, e):
            var, checked, uses, bad = st
            if e.kind == 'assign' and e.rhs[0] == 'call' and e.rhs[1].endswith('::unregister_first_simcall'):
                return (e.lhs, False, uses, bad)
            if var is None:
                return None
            if e.kind == 'branch' and (e.atom == lib.truthy(var) or (e.atom[0] == 'bin' and e.atom[1] == '==' and e.atom[2] == var and e.atom[3] == ('null',))):
                return (var, True, uses, bad)
            used = (e.kind == 'call' and e.obj == var) or (e.kind == 'assign' and e.lhs[0] == 'field' and e.lhs[1] == var) or \
                (e.kind == 'call' and e.obj is not None and e.obj[0] == 'field' and e.obj[1] == var)
            if used:
                return (var, checked, True, bad if checked else (bad or e.line))
            return None
        ex7 = abstract_run(A, f, (None, False, False, None), tr7)
        sts = ex7['normal']
        if not any(s_[2] for s_ in sts):
            continue
        badl = sorted(set(s_[3] for s_ in sts if s_[3]))
        if cls in R7_EXCEPTIONS and badl:
            ctx.notes.append('R7 exception: %s::finish line %s -- %s' % (cls, badl, R7_EXCEPTIONS[cls]))
            ctx.holds('R7', '%s::finish tests the issuer before using it outside its model-checking branch' % cls, where(f), 'listed exception: ' + R7_EXCEPTIONS[cls])
            continue
        ctx.check(not badl, 'R7', '%s::finish tests the issuer before using it' % cls, where(f, badl[0] if badl else None),
                  'unregister_first_simcall() returns nullptr for exiting/dying actors (its siblings test it); here the result is used unchecked at line %s' % badl if badl else '',
                  key='R7|%s|null issuer' % cls)
    ctx.assume('the dates at which failures are reported and global liveness (no other way to stay blocked) are not decided')
    return EXPLANATION
