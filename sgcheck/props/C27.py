"""C27 — Values with units are parsed to the documented magnitudes (DESIGN.md 3, C27)."""
from fractions import Fraction

from .. import cg, ex, lib
from ..core import where
from ..ir import AnalysisBroken

UNITS = ['src/xbt/xbt_parse_units.cpp']
EXPLANATION = ('The unit tables are rebuilt from the source: the generator tuples / pairs of each xbt_parse_get_* (literal arithmetic folded), the '
               'base -> (multiplier, prefix lists) switch and the emplace/multiply loop of the unit_scale constructor are extracted from the AST/CFG and '
               'expanded by the checker; the result must equal the SI/IEC reference table (k..Y = 1000^n, Ki..Yi = 1024^n, bit = 1/8 byte, '
               'w/d/h/m/s/ms/us/ns/ps) cell by cell.  Every path of xbt_parse_get_value_with_unit is enumerated: out-of-range, no-digits and '
               'unknown-unit paths throw; the only returning paths return strtod(string) * table[unit] with the unit text taken after the number '
               '(or the default unit when nothing follows); each wrapper passes its own table and a default unit of magnitude 1.')

SI = ['k', 'M', 'G', 'T', 'P', 'E', 'Z', 'Y']
SI_LONG = ['kilo', 'mega', 'giga', 'tera', 'peta', 'exa', 'zetta', 'yotta']
IEC = ['Ki', 'Mi', 'Gi', 'Ti', 'Pi', 'Ei', 'Zi', 'Yi']


def reference():
    ref = {}
    ref['time'] = {'w': Fraction(604800), 'd': Fraction(86400), 'h': Fraction(3600), 'm': Fraction(60), 's': Fraction(1), 'ms': Fraction(1, 10**3),
                   'us': Fraction(1, 10**6), 'ns': Fraction(1, 10**9), 'ps': Fraction(1, 10**12)}
    for kind, bit, byte in (('size', 'b', 'B'), ('bandwidth', 'bps', 'Bps')):
        t = {}
        for unit, v in ((bit, Fraction(1, 8)), (byte, Fraction(1))):
            t[unit] = v
            for i, p in enumerate(SI):
                t[p + unit] = v * 1000 ** (i + 1)
            for i, p in enumerate(IEC):
                t[p + unit] = v * 1024 ** (i + 1)
        ref[kind] = t
    t = {'f': Fraction(1), 'flops': Fraction(1)}
    for i, p in enumerate(SI):
        t[p + 'f'] = Fraction(1000 ** (i + 1))
    for i, p in enumerate(SI_LONG):
        t[p + 'flops'] = Fraction(1000 ** (i + 1))
    ref['speed'] = t
    return ref


def fold(t):
    """value of a literal arithmetic term as a Fraction, or None"""
    k = t[0]
    if k == 'int':
        return Fraction(t[1])
    if k == 'float':
        return Fraction(repr(float(t[1])))
    if k == 'bool':
        return Fraction(int(t[1]))
    if k in ('cast', 'conv'):
        return fold(t[2])
    if k == 'bin' and t[1] in ('*', '+', '-', '/'):
        a, b = fold(t[2]), fold(t[3])
        if a is None or b is None:
            return None
        if t[1] == '*':
            return a * b
        if t[1] == '+':
            return a + b
        if t[1] == '-':
            return a - b
        return a / b if b != 0 else None
    return None


def deref(t):
    while t[0] == 'call' and t[1].rsplit('::', 1)[-1] in ('operator->', 'operator*') and t[2] is not None and not t[3]:
        t = t[2]
    return t


def strs(t):
    return [s[1] for s in ex.subterms(t) if s[0] == 'str']


def decode_generator(ctx, P):
    """(cases: base -> (mult, abbreviated prefixes, long prefixes), loop_ok) from the unit_scale constructor"""
    cands = [f for f in P.fns.values() if f['q'] == 'unit_scale::unit_scale' and f.get('blocks')]
    if len(cands) != 1:
        raise AnalysisBroken('unit_scale generator constructor: %d definitions' % len(cands))
    fn = cands[0]
    v = ctx.analyzer.view(fn)
    sw = v.case_blocks()
    if len(sw) != 1:
        raise AnalysisBroken('unit_scale constructor: expected one switch, found %d' % len(sw))
    sb, cases = sw[0]
    cond = v.norm(v.cond_elem(sb))
    cases_out = {}
    default_dead = False
    for lab, succ in cases:
        if succ is None:
            continue
        if lab is None or lab.get('k') == 'default':
            default_dead = v.dead(succ)
            continue
        # walk the case body until the break (single chain, the conditional operator forks and joins)
        seen = set()
        work = [succ]
        evs = []
        while work:
            x = work.pop()
            if x in seen:
                continue
            seen.add(x)
            blk = v.blocks[x]
            t = blk.get('t')
            for eid in blk.get('e', []):
                evs.extend(v.events_of(eid))
            if t and t.get('k') == 'BreakStmt':
                continue
            work.extend(v.succs(x))
        mult = [fold(e.rhs) for e in evs if e.kind == 'assign' and e.lhs[0] == 'var' and e.lhs[2] == 'mult']
        pref = [e for e in evs if e.kind == 'call' and e.q.endswith('::operator=') and e.obj is not None and e.obj[0] == 'var' and e.obj[2] == 'prefixes']
        if len(mult) != 1 or mult[0] is None or len(pref) != 1 or pref[0].args[0][0] != 'cond':
            raise AnalysisBroken('unit_scale constructor: case %s not recognised' % lab)
        c = pref[0].args[0]
        a, pol = ex.atom(c[1])
        if a[0] != 'truthy' or a[1][0] != 'var' or a[1][2] != 'abbrev':
            raise AnalysisBroken('unit_scale constructor: prefix choice is not on the abbrev flag')
        ab, lg = (strs(c[2]), strs(c[3])) if pol else (strs(c[3]), strs(c[2]))
        cases_out[lab.get('v')] = (mult[0], ab, lg)
    # loop shape
    allev = []
    for b in sorted(v.blocks, key=lambda b_: -b_['id']):
        for eid in b.get('e', []):
            for e in v.events_of(eid):
                allev.append((b['id'], e))
    emp = [(b, e) for b, e in allev if e.kind == 'call' and e.q.endswith('::emplace')]
    mul = [(b, e) for b, e in allev if e.kind == 'assign' and e.op == '*=' and e.lhs[0] == 'var' and e.lhs[2] == 'value']
    loops = [b for b in v.loop_heads()]
    ok = len(emp) == 2 and len(mul) == 1 and len(loops) == 2
    detail = ''
    if ok:
        first = [x for x in emp if x[1].args[0][0] == 'var' and x[1].args[0][2] == 'unit']
        second = [x for x in emp if x[1].args[0][0] == 'call' and 'operator+' in x[1].args[0][1]]
        ok = len(first) == 1 and len(second) == 1
        if ok:
            f_, s_ = first[0][1], second[0][1]
            plus = s_.args[0]
            ok = (f_.args[1][0] == 'var' and f_.args[1][2] == 'value' and s_.args[1] == f_.args[1] and
                  len(plus[3]) == 2 and plus[3][0][0] == 'var' and plus[3][0][2] == 'prefix' and plus[3][1] == f_.args[0] and
                  mul[0][1].rhs[0] == 'var' and mul[0][1].rhs[2] == 'mult' and
                  mul[0][0] == second[0][0] and mul[0][1].eid < s_.eid and first[0][0] != second[0][0])
            detail = 'emplace(unit, value); for prefix: value *= mult; emplace(prefix + unit, value)'
    if not ok:
        # not the usual two statements: interpret the body of the prefix loop as a straight-line program over typed scalars
        prog = interpret_body(fn, v, allev)
        if prog is not None:
            BODY['prog'] = prog
            ok = True
            detail = 'prefix loop interpreted statement by statement with the declared types of its scalars (%d statement(s))' % len(prog[1])
        else:
            BODY.pop('prog', None)
    else:
        BODY.pop('prog', None)
    return fn, cond, cases_out, default_dead, ok, detail


BODY = {}
U64 = (1 << 64) - 1


def coerce(val, ty):
    ty = ty.replace('const ', '').strip()
    if ty in ('double', 'float', 'long double'):
        return float(val)
    if ty in ('unsigned long long', 'unsigned long', 'size_t', 'std::size_t', 'uint64_t', 'unsigned long long int', 'unsigned long int'):
        return int(val) & U64
    if ty in ('unsigned int', 'unsigned', 'uint32_t'):
        return int(val) & 0xffffffff
    if ty in ('long', 'long long', 'int64_t', 'long int', 'long long int'):
        x = int(val) & U64
        return x - (1 << 64) if x >> 63 else x
    if ty in ('int', 'int32_t'):
        x = int(val) & 0xffffffff
        return x - (1 << 32) if x >> 31 else x
    return val


def tyname(t):
    return 'double' if isinstance(t, float) else 'int'


def evalt(t, env):
    k = t[0]
    if k in ('int', 'float'):
        return t[1]
    if k in ('cast', 'conv'):
        v_ = evalt(t[2], env)
        return None if v_ is None else coerce(v_, str(t[1]))
    if k == 'var':
        return env.get(t[2])
    if k == 'bin' and t[1] in ('+', '-', '*', '/'):
        a, b = evalt(t[2], env), evalt(t[3], env)
        if a is None or b is None:
            return None
        if t[1] == '/':
            return a / b if isinstance(a, float) or isinstance(b, float) else int(a / b)
        r = a + b if t[1] == '+' else (a - b if t[1] == '-' else a * b)
        if not isinstance(r, float):
            r = int(r) & U64 if (a >= 0 and b >= 0) else r      # unsigned operands wrap (signed overflow is not modelled)
        return r
    return None


def interpret_body(fn, v, allev):
    """(initial scalars declared with a literal before the loop, statements of the prefix loop body) or None"""
    types = {}
    for el in fn['elems']:
        if el['x'].get('k') == 'Decl':
            for d in el['x'].get('decls', ()):
                types[d.get('d', {}).get('n', '')] = fn.tstr(d.get('t', -1))
    heads = v.loop_heads()
    inner = None
    for h in heads:
        body = cg.natural_loop(v, h['id'])
        if any(e.kind == 'call' and e.q.endswith('::emplace') and e.args and e.args[0][0] == 'call' and 'operator+' in e.args[0][1] for b in body for eid in v.blocks[b].get('e', []) for e in v.events_of(eid)):
            if inner is None or len(body) < len(inner[1]):
                inner = (h, body)
    if inner is None:
        return None
    h, body = inner
    stmts = []
    for b in sorted(body, reverse=True):
        if v.cond_atom(b) is not None and b != h['id']:
            return None         # a branch in the body: not a straight-line program
        for eid in v.blocks[b].get('e', []):
            for e in v.events_of(eid):
                if e.eid != eid:
                    continue
                if e.kind == 'assign' and e.lhs[0] == 'var' and e.lhs[2] not in ('prefix',) and not e.lhs[2].startswith('__'):
                    stmts.append(('set', e.lhs[2], e.op, e.rhs, types.get(e.lhs[2], 'double')))
                elif e.kind == 'call' and e.q.endswith('::emplace') and e.args and len(e.args) == 2:
                    stmts.append(('emplace', e.args[1]))
    init = {}
    for b, e in allev:
        if e.kind == 'assign' and e.decl and e.lhs[0] == 'var' and b not in body and e.rhs[0] in ('int', 'float') and e.lhs[2] not in ('mult',):
            init[e.lhs[2]] = coerce(e.rhs[1], types.get(e.lhs[2], 'double'))
    if not any(s_[0] == 'emplace' for s_ in stmts):
        return None
    return init, stmts, types


def run_body(prog, value, mult, n):
    """values emplaced for the n prefixes"""
    init, stmts, types = prog
    env = dict(init)
    env['value'] = coerce(value, types.get('value', 'double'))
    env['mult'] = coerce(mult, types.get('mult', 'double'))
    out = []
    for _ in range(n):
        for st in stmts:
            if st[0] == 'set':
                _, name, op, rhs, ty = st
                r = evalt(rhs, env)
                if r is None:
                    return None
                cur = env.get(name)
                if op != '=':
                    if cur is None:
                        return None
                    r = evalt(('bin', op[0], ('float' if isinstance(cur, float) else 'int', cur), ('float' if isinstance(r, float) else 'int', r)), env)
                env[name] = coerce(r, ty)
            else:
                r = evalt(st[1], env)
                if r is None:
                    return None
                out.append(float(r))
    return out


def expand(gens, cases):
    """what the generator constructor builds (emplace keeps the first value of a key)"""
    table = {}
    clashes = []
    for unit, value, base, abbrev in gens:
        if base not in cases:
            raise AnalysisBroken('generator with base %s has no case' % base)
        mult, ab, lg = cases[base]
        entries = [(unit, value)]
        v = value
        names = ab if abbrev else lg
        if BODY.get('prog') is not None:
            vals = run_body(BODY['prog'], value, mult, len(names))
            if vals is None:
                raise AnalysisBroken('unit_scale constructor: the body of the prefix loop could not be interpreted')
            entries += [(p + unit, val) for p, val in zip(names, vals)]
        else:
            for p in names:
                v = v * mult
                entries.append((p + unit, v))
        for k, val in entries:
            if k in table:
                if table[k] != val:
                    clashes.append((k, table[k], val))
            else:
                table[k] = val
    return table, clashes


def run(ctx):
    P = ctx.load(UNITS)
    A = ctx.analyzer
    ref = reference()
    gfn, cond, cases, default_dead, loop_ok, loop_detail = decode_generator(ctx, P)
    ctx.rule('R1', 'the expanded unit table of each kind equals the SI/IEC reference table, cell by cell', 100)
    ctx.rule('R2', 'rejection and result: out-of-range, no-digits and unknown-unit paths throw; the result is strtod(string) * table[unit text]', 6)
    ctx.rule('R3', 'generator shape: emplace(unit, value), then per prefix value *= mult and emplace(prefix+unit, value); unknown base is impossible', 3)
    ctx.check(loop_ok, 'R3', 'unit_scale constructor loop shape', where(gfn), loop_detail or 'shape not as expected', key='R3|unit_scale|loop shape')
    ctx.check(default_dead, 'R3', 'unit_scale constructor: a base other than the listed ones throws', where(gfn), '', key='R3|unit_scale|default')
    ctx.check(set(cases) == {2, 10}, 'R3', 'unit_scale constructor: bases %s' % sorted(cases), where(gfn), '', key='R3|unit_scale|bases')

    wrappers = {'time': ['xbt_parse_get_time'], 'size': ['xbt_parse_get_size'], 'bandwidth': ['xbt_parse_get_bandwidth', 'xbt_parse_get_bandwidths'],
                'speed': ['xbt_parse_get_speed']}
    core = P.fn('xbt_parse_get_value_with_unit')
    for kind, names in wrappers.items():
        for name in names:
            fn = P.fn(name)
            v = A.view(fn)
            evs = []
            for b in sorted(v.blocks, key=lambda b_: -b_['id']):
                for eid in b.get('e', []):
                    evs.extend(v.events_of(eid))
            ctor = [e for e in evs if e.kind == 'call' and e.q in ('unit_scale::unit_scale', 'unit_scale::unordered_map')]
            if len(ctor) != 1:
                ctx.unrecognised('R1', '%s: construction of the unit table not recognised' % name)
                continue
            il = ctor[0].args[0]
            if il[0] != 'initlist':
                ctx.unrecognised('R1', '%s: unit table is not built from an initializer list' % name)
                continue
            table = {}
            clashes = []
            if ctor[0].q == 'unit_scale::unit_scale':
                gens = []
                for item in il[1]:
                    mk = [s for s in ex.subterms(item) if s[0] == 'call' and s[1] in ('std::make_tuple', 'std::tuple')]
                    if not mk or len(mk[0][3]) != 4:
                        ctx.unrecognised('R1', '%s: generator tuple not recognised: %s' % (name, ex.pretty(item)[:80]))
                        continue
                    u, val, base, abbr = mk[0][3]
                    fv, fb = fold(val), fold(base)
                    if u[0] != 'str' or fv is None or fb is None or abbr[0] != 'bool':
                        ctx.unrecognised('R1', '%s: generator tuple is not constant: %s' % (name, ex.pretty(item)[:80]))
                        continue
                    gens.append((u[1], fv, int(fb), abbr[1]))
                table, clashes = expand(gens, cases)
            else:
                for item in il[1]:
                    mk = [s for s in ex.subterms(item) if s[0] == 'call' and s[1] in ('std::make_pair', 'std::pair')]
                    if not mk or len(mk[0][3]) != 2 or mk[0][3][0][0] != 'str' or fold(mk[0][3][1]) is None:
                        ctx.unrecognised('R1', '%s: unit pair not recognised: %s' % (name, ex.pretty(item)[:80]))
                        continue
                    k_, val = mk[0][3][0][1], fold(mk[0][3][1])
                    if k_ in table and table[k_] != val:
                        clashes.append((k_, table[k_], val))
                    table.setdefault(k_, val)
            for k_, v1, v2 in clashes:
                ctx.violation('R1', '%s: unit %s generated twice with different values' % (name, k_), where(fn, ctor[0].line), '%s then %s (the first one is kept)' % (v1, v2),
                              key='R1|%s|%s clash' % (name, k_))
            want = ref[kind]
            for k_ in sorted(set(want) | set(table)):
                if k_ not in want:
                    ctx.violation('R1', '%s accepts the undocumented unit "%s"' % (name, k_), where(fn, ctor[0].line), 'value %s' % float(table[k_]), key='R1|%s|extra %s' % (name, k_))
                elif k_ not in table:
                    ctx.violation('R1', '%s does not know the unit "%s"' % (name, k_), where(fn, ctor[0].line), 'documented multiplier %s' % float(want[k_]), key='R1|%s|missing %s' % (name, k_))
                else:
                    ctx.check((abs(table[k_] - float(want[k_])) <= 1e-12 * abs(float(want[k_]))) if isinstance(table[k_], float) else table[k_] == want[k_], 'R1', '%s: 1%s' % (name, k_), where(fn, ctor[0].line), 'code %s, reference %s' % (float(table[k_]), float(want[k_])),
                              key='R1|%s|%s' % (name, k_))
            # the wrapper hands its own table and a default unit of magnitude 1 to the core
            cc = [e for e in evs if e.kind == 'call' and e.q == core['q']]
            tv = [e.lhs for e in evs if e.kind == 'assign' and e.decl and e.rhs[0] == 'ctor' and e.rhs[1] == ctor[0].q]
            ok = len(cc) == 1 and len(tv) == 1 and cc[0].args[3] == tv[0] and cc[0].args[6][0] == 'str' and table.get(cc[0].args[6][1]) == 1
            ctx.check(ok, 'R2', '%s passes its table and a default unit worth 1' % name, where(fn, cc[0].line if cc else None),
                      'default unit %s' % (ex.pretty(cc[0].args[6]) if cc else '?'), key='R2|%s|core call' % name)
            ctx.count('call_sites')

    # ---- R2 on the core ------------------------------------------------------------------------------------------------------------
    v = A.view(core)
    paths = v.paths()
    ctx.count('paths', len(paths))
    s_ = lib.parm(core, 'string')
    units_p = lib.parm(core, 'units')
    dflt = lib.parm(core, 'default_unit')
    nret = 0
    seen = set()
    for p in paths:
        evs = v.path_events(p)
        st = [e for e in evs if e.kind == 'call' and e.q in ('strtod', 'std::strtod')]
        if p.exit == 'cut':
            continue
        if len(st) != 1 or st[0].args[0][0] != 'call' or not st[0].args[0][1].endswith('::c_str') or st[0].args[0][2] != s_:
            ctx.unrecognised('R2', 'number conversion is not strtod(string.c_str(), &endptr) on a path')
            continue
        endp = st[0].args[1][2] if st[0].args[1][0] == 'un' and st[0].args[1][1] == '&' else None
        resv = [e.lhs for e in evs if e.kind == 'assign' and e.rhs == st[0].nf]
        ptrv = [e.lhs for e in evs if e.kind == 'assign' and e.rhs == endp]
        if not resv or not ptrv:
            ctx.unrecognised('R2', 'result / end pointer variables not recognised')
            continue
        res, ptr = resv[0], ptrv[0]
        rng = nod = unk = None
        empty_rest = None
        for e in evs:
            if e.kind != 'branch':
                continue
            r = repr(e.atom)
            if '__errno_location' in r or "'errno'" in r:
                rng = e.pol if e.atom[0] == 'bin' and e.atom[1] == '==' else None
            elif e.atom[0] == 'bin' and e.atom[1] == '==' and {e.atom[2], e.atom[3]} == {ptr, s_}:
                nod = e.pol
            elif e.atom[0] == 'bin' and e.atom[1] == '==' and any(t[0] == 'call' and t[1].endswith('::end') and t[2] == units_p for t in (e.atom[2], e.atom[3])):
                unk = e.pol
            elif e.atom == lib.truthy(('idx', ptr, ('int', 0))):
                empty_rest = not e.pol
        sig = (rng, nod, empty_rest, unk, p.exit)
        if sig in seen:
            continue
        seen.add(sig)
        inst = 'path range-error=%s no-digits=%s nothing-after-number=%s unknown-unit=%s -> %s' % sig
        if p.exit == 'throw':
            ctx.check(rng is True or nod is True or unk is True, 'R2', inst, where(core), 'throws', key='R2|core|spurious throw')
            continue
        if p.exit in ('return', 'end'):
            nret += 1
            ret = [e for e in evs if e.kind == 'return']
            finds = [e for e in evs if e.kind == 'call' and e.q.endswith('::find') and e.obj == units_p]
            uvar = [e.lhs for e in evs if e.kind == 'assign' and finds and e.rhs == finds[0].nf]
            ok = rng is False and nod is False and unk is False and len(ret) == 1 and len(finds) == 1 and bool(uvar)
            detail = ''
            if ok:
                rv = ret[0].val
                ok = rv[0] == 'bin' and rv[1] == '*' and res in (rv[2], rv[3]) and any(t[0] == 'field' and t[2].endswith('::second') and deref(t[1]) == uvar[0] for t in (rv[2], rv[3]))
                detail = 'returns %s' % ex.pretty(rv)
                # the unit text: what follows the number, or the default unit when nothing follows
                arg = finds[0].args[0]
                ok = ok and ex.mentions(arg, ptr)
                reassigned = [e for e in evs if e.kind == 'assign' and e.lhs == ptr and e.rhs == dflt]
                if empty_rest is True:
                    ok = ok and len(reassigned) == 1
                elif empty_rest is False:
                    ok = ok and not reassigned
                else:
                    ok = False
                # res is not modified between strtod and the return
                ok = ok and len([e for e in evs if e.kind in ('assign', 'incdec') and e.lhs == res]) == 1
            ctx.check(ok, 'R2', inst, where(core, ret[0].line if ret else None), detail or 'a returning path skipped a rejection test', key='R2|core|returning path')
    ctx.require(nret >= 2, 'R2', 'returning paths of xbt_parse_get_value_with_unit not found')
    ctx.assume('strtod accepts the C locale number formats (integer, decimal, exponent); text after the number is the unit, so trailing garbage is an unknown unit')
    ctx.assume('reference table: SI prefixes k..Y = 1000^1..8 (long forms kilo..yotta), IEC prefixes Ki..Yi = 1024^1..8, 1 b = 1/8 B, w/d/h/m/s/ms/us/ns/ps')
    return EXPLANATION
