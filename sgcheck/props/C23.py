"""C23 — Energy accounting (DESIGN.md 3, C23): signal wiring and single monotone writer."""
from .. import cg, ex, lib
from ..core import where
from ..ir import AnalysisBroken

UNITS = ['src/plugins/host_energy.cpp', 'src/plugins/link_energy.cpp']
HE = 'simgrid::plugin::HostEnergy'
LE = 'simgrid::plugin::LinkEnergy'
EXPLANATION = ('R1 signal wiring: sg_host_energy_plugin_init connects every signal after which the power of a host may differ (on/off, speed change, '
               'exec state change, exec start/suspend/resume, VM suspend/resume) to a callback from which HostEnergy::update is reachable, VMs being '
               'mapped to their physical host first; sg_link_energy_plugin_init does the same for link on/off and communication start/completion.  '
               'R2 single monotone writer: total_energy_ is written only by update() (and the constructor), as previous + power * (now - last update) '
               'under start < finish for hosts, and last_updated_ is advanced on the same path; the pstate used for the elapsed interval is the one '
               'saved by the previous update(); get_consumed_energy() brings the account up to date before returning it.')

HOST_SIGNALS = ['simgrid::s4u::Host::on_onoff_cb', 'simgrid::s4u::Host::on_speed_change_cb', 'simgrid::s4u::Host::on_exec_state_change_cb',
                'simgrid::s4u::Exec::on_start_cb', 'simgrid::s4u::Exec::on_suspend_cb', 'simgrid::s4u::Exec::on_resume_cb',
                'simgrid::s4u::VirtualMachine::on_suspend_cb', 'simgrid::s4u::VirtualMachine::on_resume_cb']
LINK_SIGNALS = ['simgrid::s4u::Link::on_onoff_cb', 'simgrid::s4u::Comm::on_start_cb', 'simgrid::s4u::Comm::on_completion_cb']


def connections(P, v, fn):
    """signal registration function -> callback function key, for every `X::on_*_cb(callback)` call of fn"""
    out = {}
    for eid in range(len(fn['elems'])):
        for e in v.events_of(eid):
            if e.kind == 'call' and e.q.endswith('_cb') and e.args:
                cb = None
                for s in ex.subterms(e.args[0]):
                    if s[0] == 'fn':
                        cb = s[1]
                    if s[0] == 'lambda':
                        cb = s[1]
                q = e.q.split('<')[0] if '::Activity_T<' not in e.q else e.q
                # Activity_T<Exec>::on_start_cb -> Exec::on_start_cb
                if 'Activity_T<' in e.q:
                    inner = e.q.split('Activity_T<', 1)[1].split('>', 1)[0]
                    q = inner + '::' + e.q.rsplit('::', 1)[-1]
                out.setdefault(q, []).append((cb, e.line))
    return out


def run(ctx):
    P = ctx.load(UNITS)
    A = ctx.analyzer
    G = cg.CallGraph(P)
    ctx.rule('R1', 'every power-relevant signal is connected to a callback that reaches the energy update of the (physical) host / link', 11)
    for init, cls, signals in (('sg_host_energy_plugin_init', HE, HOST_SIGNALS), ('sg_link_energy_plugin_init', LE, LINK_SIGNALS)):
        f = P.fn(init)
        v = A.view(f)
        conns = connections(P, v, f)
        upd = G.keys_named(lambda q, c=cls: q == c + '::update')
        R = G.reaching(upd)
        for sig in signals:
            lst = conns.get(sig, [])
            if not lst:
                ctx.violation('R1', '%s: %s is not connected' % (init, sig.replace('simgrid::s4u::', '')), where(f), 'a change of power after this event is integrated with the old power until some other event updates the host',
                              key='R1|%s|%s' % (init, sig.replace('simgrid::s4u::', '')))
                continue
            ok = all(cb is not None and cb in R for cb, _ in lst)
            ctx.check(ok, 'R1', '%s: %s -> %s' % (init, sig.replace('simgrid::s4u::', ''), ', '.join(G.qof.get(cb, str(cb)).split('(')[0] for cb, _ in lst)), where(f, lst[0][1]),
                      'update() reachable from the callback' if ok else 'the callback never reaches %s::update' % cls.rsplit('::', 1)[-1], key='R1|%s|%s' % (init, sig.replace('simgrid::s4u::', '')))
    # VMs are charged to their physical machine
    for cbname in ('on_host_change', 'on_action_state_change'):
        cands = [f for f in P.fns.values() if f['q'] == cbname and f['file'].endswith('host_energy.cpp') and f.get('blocks')]
        if len(cands) != 1:
            ctx.unrecognised('R1', 'callback %s: %d definitions' % (cbname, len(cands)))
            continue
        f = cands[0]
        v = A.view(f)
        okpm = False
        for p in v.paths(max_visits=2):
            evs = v.path_events(p)
            vm = [e.pol for e in evs if e.kind == 'branch' and e.atom[0] == 'truthy' and e.atom[1][0] == 'var' and e.atom[1][2] == 'vm']
            pm = [e for e in evs if e.kind == 'assign' and e.rhs[0] == 'call' and e.rhs[1].endswith('VirtualMachine::get_pm')]
            up = [e for e in evs if e.kind == 'call' and e.q == HE + '::update']
            if vm and vm[0] and pm and up and evs.index(pm[0]) < evs.index(up[0]):
                okpm = True
        ctx.check(okpm, 'R1', '%s charges a VM event to its physical machine' % cbname, where(f), '', key='R1|%s|vm to pm' % cbname)

    ctx.rule('R2', 'total_energy_ has a single writer, adds power * elapsed time, and last_updated_ moves with it', 6)
    for cls, guard in ((HE, True), (LE, False)):
        TE = cls + '::total_energy_'
        LU = cls + '::last_updated_'
        upd = P.fn(cls + '::update')
        for u in lib.field_uses(P, TE):
            if u.kind != 'write':
                continue
            owner = u.fn['q']
            ctx.check(owner == cls + '::update' or owner.endswith('::' + cls.rsplit('::', 1)[-1]) or u.op == 'init', 'R2', '%s written in %s' % (TE.replace('simgrid::plugin::', ''), owner.replace('simgrid::plugin::', '')),
                      where(u.fn, u.line), '', key='R2|%s|writer %s' % (cls.rsplit('::', 1)[-1], owner))
        v = A.view(upd)
        shapes = set()
        for p in v.paths():
            if p.exit in ('noreturn', 'cut'):
                continue
            evs = v.path_events(p)
            w = [e for e in evs if e.kind == 'assign' and e.lhs == lib.this_field(TE)]
            lu = [e for e in evs if e.kind == 'assign' and e.lhs == lib.this_field(LU)]
            lt = [e.pol for e in evs if e.kind == 'branch' and e.atom[0] == 'bin' and e.atom[1] == '<' and 'start_time' in repr(e.atom[2]) and 'finish_time' in repr(e.atom[3])]
            good_w = None
            if w:
                # total = previous + power * (finish - start)   |   total += power * (now - last_updated_)
                env = {}
                for e in evs:
                    if e.kind == 'assign' and e.lhs[0] == 'var':
                        env[e.lhs] = e.rhs

                def res(t, depth=0):
                    while t[0] == 'var' and t in env and depth < 6:
                        t = env[t]
                        depth += 1
                    if t[0] == 'bin':
                        return ('bin', t[1], res(t[2], depth + 1), res(t[3], depth + 1))
                    return t
                r = res(w[0].rhs)
                if w[0].op == '=' and r[0] == 'bin' and r[1] == '+':
                    prev = [x for x in (r[2], r[3]) if x == lib.this_field(TE)]
                    inc = [x for x in (r[2], r[3]) if x != lib.this_field(TE)]
                    good_w = bool(prev) and bool(inc)
                    r = inc[0] if inc else r
                elif w[0].op == '+=':
                    good_w = True
                if good_w:
                    good_w = r[0] == 'bin' and r[1] == '*' and any(x[0] == 'bin' and x[1] == '-' and 'last_updated_' in repr(res(x)) and 'get_clock' in repr(res(x)) for x in (r[2], r[3])) and \
                        any('get_current_watts_value' in repr(x) or 'get_power' in repr(x) for x in (r[2], r[3]))
            shapes.add((tuple(lt), len(w), len(lu), good_w))
        if guard:
            want_ok = all((lt == (True,) and nw == 1 and nl == 1 and g) or (lt == (False,) and nw == 0 and nl == 0) for lt, nw, nl, g in shapes) and len(shapes) == 2
        else:
            want_ok = all(nw == 1 and nl == 1 and g for lt, nw, nl, g in shapes) and len(shapes) >= 1
        ctx.check(want_ok, 'R2', '%s::update: total += power * (now - last_updated_)%s, last_updated_ = now on the same path' % (cls.rsplit('::', 1)[-1], ' only when start < finish' if guard else ''),
                  where(upd), 'path shapes %s' % sorted(shapes, key=repr), key='R2|%s::update|integration' % cls.rsplit('::', 1)[-1])
        gc = P.fn(cls + '::get_consumed_energy')
        v = A.view(gc)
        okgc = False
        for p in v.paths():
            evs = v.path_events(p)
            stale = [e.pol for e in evs if e.kind == 'branch' and e.atom[0] == 'bin' and e.atom[1] == '<' and 'last_updated_' in repr(e.atom[2]) and 'get_clock' in repr(e.atom[3])]
            refs = any(e.kind == 'call' and 'simcall' in e.q and any(s == ('fn', upd['key']) for a in e.args for s in ex.subterms(a)) for e in evs)
            ret = [e for e in evs if e.kind == 'return' and e.val == lib.this_field(TE)]
            if stale == [True] and refs and ret:
                okgc = True
        ctx.check(okgc, 'R2', '%s::get_consumed_energy updates the account when it is stale, then returns total_energy_' % cls.rsplit('::', 1)[-1], where(gc), '', key='R2|%s::get_consumed_energy|fresh' % cls.rsplit('::', 1)[-1])
    # the pstate of the elapsed interval is the one saved by the previous update
    upd = P.fn(HE + '::update')
    v = A.view(upd)
    okps = True
    n = 0
    for p in v.paths():
        if p.exit in ('noreturn', 'cut'):
            continue
        evs = v.path_events(p)
        ps = [i for i, e in enumerate(evs) if e.kind == 'assign' and e.lhs == lib.this_field(HE + '::pstate_')]
        pw = [i for i, e in enumerate(evs) if e.kind == 'call' and e.q == HE + '::get_current_watts_value']
        n += 1
        okps = okps and len(ps) == 1 and (not pw or pw[0] < ps[0])
    ctx.check(okps and n >= 2, 'R2', 'HostEnergy::update saves the pstate after having charged the elapsed interval', where(upd), '', key='R2|HostEnergy::update|pstate saved last')
    ctx.assume('the power formula (get_current_watts_value / get_power) and that powers are non-negative are not decided; the clock is monotone (C03)')
    # ---- R3 the elapsed interval is priced with the state saved when it began ------------------------------------------------------------------
    ctx.rule('R3', 'update() prices the elapsed interval with the pstate saved at the previous update (pstate_), never with the pstate the host is in now; the pstate is re-saved only after the energy is added', 3)
    HEQ = [f['q'].rsplit('::', 1)[0] for f in P.fns.values() if f['q'].endswith('HostEnergy::update') and f.get('blocks')]
    if len(HEQ) != 1:
        ctx.unrecognised('R3', 'HostEnergy::update: %d definitions' % len(HEQ))
        return EXPLANATION
    HEQ = HEQ[0]
    PST = lib.this_field(HEQ + '::pstate_')
    NOW_DEPENDENT = ('get_speed', 'get_pstate', 'get_available_speed', 'get_pstate_count')     # what the host is *now*
    for f in sorted([f for f in P.fns.values() if f['q'] == HEQ + '::get_current_watts_value' and f.get('blocks')], key=lambda f_: len(f_['params'])):
        v = A.view(f)
        bad = []
        saved = 0
        for eid in range(len(f['elems'])):
            for e in v.events_of(eid):
                if e.eid != eid or e.kind != 'call':
                    continue
                m = e.q.rsplit('::', 1)[-1]
                if e.obj is not None and 'host_' in repr(e.obj) and m in NOW_DEPENDENT and f['elems'][eid].get('m') not in ('XBT_DEBUG', 'XBT_VERB'):
                    bad.append('%s() at line %s' % (m, e.line))
                if m in ('get_pstate_speed', 'at', 'operator[]') and e.args:
                    a0 = e.args[0]
                    while a0[0] in ('cast', 'conv'):
                        a0 = a0[2]
                    if a0[0] == 'var' and a0[1] == 'local':       # a local copy of the saved pstate
                        dd = [x.rhs for eid2 in range(len(f['elems'])) for x in v.events_of(eid2) if x.kind == 'assign' and x.lhs == a0]
                        if len(dd) == 1:
                            a0 = dd[0]
                            while a0[0] in ('cast', 'conv'):
                                a0 = a0[2]
                    if m == 'get_pstate_speed' or 'power_range' in repr(e.obj):
                        if a0 == PST:
                            saved += 1
                        else:
                            bad.append('%s(%s) at line %s is not indexed by the saved pstate_' % (m, ex.pretty(a0), e.line))
        ctx.check(not bad and saved >= 1, 'R3', 'get_current_watts_value(%s) reads the speed / power range of the saved pstate_ only' % ('cpu_load' if f['params'] else ''), where(f),
                  ('; '.join(bad) + ': the interval that has just elapsed is priced with the pstate the host is in now') if bad else '%d lookup(s) by pstate_' % saved,
                  key='R3|get_current_watts_value/%d|saved pstate' % len(f['params']))
    upf = P.fn(HEQ + '::update')
    from ..cfg import abstract_run as _arun

    def tr3(st, e):
        resaved, bad = st
        if e.kind == 'assign' and e.lhs == PST:
            return (e.line, bad)
        if e.kind == 'call' and e.q == HEQ + '::get_current_watts_value' and resaved:
            return (resaved, bad or 'the watts of the elapsed interval are computed at line %s after pstate_ was overwritten with the current pstate (line %s)' % (e.line, resaved))
        return None
    ex3 = _arun(A, upf, (None, None), tr3)
    st3 = ex3['normal']
    bad3 = sorted(set(x[1] for x in st3 if x[1]))
    ctx.check(bool(st3) and all(x[0] for x in st3) and not bad3, 'R3', 'update(): the energy of the elapsed interval is added before pstate_ is re-saved, and pstate_ is re-saved on every path', where(upf),
              bad3[0] if bad3 else ('' if all(x[0] for x in st3) else 'a path leaves update() without saving the pstate of the next interval'), key='R3|update|price then re-save')
    run_update_guards(ctx, P, A)
    run_units(ctx, P, A)
    return EXPLANATION


def run_units(ctx, P, A):
    """R5: joules, watts, dates and durations (P20 with an affine base)"""
    from .. import dims
    ctx.rule('R5', 'units of the energy account: total_energy_ in [joule], the power values (idle, epsilon, max, slope, off, busy) and what get_current_watts_value/get_power '
             'return in [joule/second], last_updated_ and the clock are dates, loads and speeds in [amount/second] so that load/speed is a pure number; energy is only ever '
             'increased by power x (date - date)', 14)
    D = dims.Dims(('joule', 'second', 'amount', '@date'), {})
    u = D.unit
    J, W, S, DATE, RATE = u(joule=1), u(joule=1, second=-1), u(second=1), u(second=1, **{'@date': 1}), u(amount=1, second=-1)
    PL = 'simgrid::plugin::'
    D.fields = {HE + '::total_energy_': J, HE + '::last_updated_': DATE, HE + '::watts_off_': W, LE + '::total_energy_': J, LE + '::last_updated_': DATE, LE + '::idle_': W, LE + '::busy_': W,
                PL + 'PowerRange::idle_': W, PL + 'PowerRange::epsilon_': W, PL + 'PowerRange::max_': W, PL + 'PowerRange::slope_': W}
    D.getters = {'simgrid::s4u::Engine::get_clock': DATE, HE + '::get_current_watts_value': W, LE + '::get_power': W, HE + '::get_last_update_time': DATE, HE + '::get_consumed_energy': J, LE + '::get_consumed_energy': J,
                 'simgrid::s4u::Host::get_load': RATE, 'simgrid::s4u::Host::get_pstate_speed': RATE, 'simgrid::s4u::Host::get_speed': RATE, 'simgrid::s4u::Link::get_load': RATE, 'simgrid::s4u::Link::get_bandwidth': RATE,
                 HE + '::get_watt_idle_at': W, HE + '::get_watt_min_at': W, HE + '::get_watt_max_at': W, HE + '::get_power_range_slope_at': W}
    D.ret_units = {HE + '::get_current_watts_value': W, LE + '::get_power': W, HE + '::get_consumed_energy': J, LE + '::get_consumed_energy': J,
                   HE + '::get_watt_idle_at': W, HE + '::get_watt_min_at': W, HE + '::get_watt_max_at': W, HE + '::get_power_range_slope_at': W}
    fields_seen = set(f_[2] for cls in (HE, LE) for f_ in lib.fields(P, cls))
    fns = sorted([f for f in P.fns.values() if f.get('blocks') and f['q'].startswith((HE + '::', LE + '::')) and f['q'].rsplit('::', 1)[-1] in
                  ('update', 'get_current_watts_value', 'get_power', 'get_consumed_energy', 'get_watt_idle_at', 'get_watt_min_at', 'get_watt_max_at', 'get_power_range_slope_at')], key=lambda f: f['key'])
    ctx.require(len(fns) >= 6 and HE + '::total_energy_' in fields_seen, 'R5', 'energy functions / fields not found (%d)' % len(fns))
    D.run(A, fns)
    for r in D.decided:
        ctx.holds('R5', '%s: %s %s %s' % (r['fn'].replace(PL, ''), r['a'][:70], r['what'], r['b'][:70]), '', '[%s]' % D.show(r['da']))
    for r in D.conflicts:
        f = [x for x in fns if x['q'] == r['fn']][0]
        ctx.violation('R5', '%s: %s %s %s' % (r['fn'].replace(PL, ''), r['a'][:70], r['what'], r['b'][:70]), where(f, r['line']), 'left side in [%s], right side in [%s]' % (D.show(r['da']), D.show(r['db'])),
                      key='R5|%s|%s %s %s' % (r['fn'].replace(PL, ''), r['a'][:50], r['what'], r['b'][:50]))
    for frag in ('total_energy_', 'energy_this_step', 'cpu_load'):
        ctx.require(any(frag in r['a'] or frag in r['b'] for r in D.decided + D.conflicts), 'R5', 'no decided site mentions %s' % frag)


def run_update_guards(ctx, P, A):
    """R4: a callback may skip the update only for a reason that does not depend on the state being accounted"""
    ctx.rule('R4', 'in the signal callbacks of the energy plugins, update() is conditioned only by what the event is about (a non-null host/link, a single-host execution, '
             'a non-WIFI link, a VM mapped to its physical machine) or by "already updated at this date"; never by the load, the pstate or any other state of the '
             'resource whose energy is accounted: the interval before the event must be closed at the old power whatever that state is', 5)
    OK_CALLS = ('get_host_number', 'get_sharing_policy', 'get_last_update_time', 'get_clock', 'get_pm', 'get_host', 'extension', 'operator->', 'get', 'get_cpu', 'get_iface')
    n = 0
    for f in sorted(P.fns.values(), key=lambda f: f['key']):
        if not f.get('blocks') or not f['file'].endswith(('host_energy.cpp', 'link_energy.cpp')) or f['q'].startswith(('simgrid::plugin::HostEnergy::', 'simgrid::plugin::LinkEnergy::')):
            continue
        if f['q'].startswith(('sg_host_get_', 'sg_link_get_', 'sg_host_energy_update_all')):
            continue          # queries bring the account up to date by themselves
        v = A.view(f)
        for eid in range(len(f['elems'])):
            for e in v.events_of(eid):
                if not (e.kind == 'call' and e.eid == eid and e.q.endswith(('HostEnergy::update', 'LinkEnergy::update'))):
                    continue
                n += 1
                IN, tgt, _ = lib.dominating_facts(A, f, f['elems'][eid]['x'], with_lines=True, with_preds=True)
                extra = []
                for a, t_, l_ in IN.get(tgt, ()):
                    subs = list(ex.subterms(a))
                    if not any(x[0] in ('var', 'field', 'call', 'this') for x in subs):
                        continue
                    if '__begin' in repr(a) and '__end' in repr(a):
                        continue
                    calls = [x[1].rsplit('::', 1)[-1] for x in subs if x[0] == 'call']
                    if all(c in OK_CALLS for c in calls) and not any(x[0] == 'field' for x in subs):
                        continue
                    extra.append('%s%s' % ('' if t_ else '!', ex.pretty(a)))
                short = f['q'].split('::<lambda')[0] + (' (callback at line %s)' % f['line'] if '<lambda' in f['q'] else '')
                ctx.check(not extra, 'R4', '%s: update() at line %s is not conditioned by the state of the resource' % (short, e.line), where(f, e.line),
                          ('update() is skipped unless %s: the interval that ends at this event is later charged at the power that follows the event' % ', '.join(sorted(extra))) if extra else 'guards: kind of event only',
                          key='R4|%s|update guards' % f['q'].split('::<lambda')[0])
    ctx.require(n >= 4, 'R4', 'only %d update() call(s) found in the callbacks of the energy plugins' % n)
