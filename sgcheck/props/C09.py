"""C09 — Message queues are exactly-once and FIFO (DESIGN.md 3, C09)."""
from .. import ex, lib
from ..core import where
from ..ir import AnalysisBroken

UNITS = ['src/kernel/activity/MessImpl.cpp', 'src/kernel/activity/MessageQueueImpl.cpp', 'src/kernel/activity/ActivityImpl.cpp']
MQ = 'simgrid::kernel::activity::MessageQueueImpl'
ME = 'simgrid::kernel::activity::MessImpl'
ACT = 'simgrid::kernel::activity::ActivityImpl'
EXPLANATION = ('CFG-path rules on MessageQueueImpl::{push,remove,find_matching_message,clear} and MessImpl::{iput,iget,wait_for,'
               'finish}: the queue is inserted only at the back and searched front to back for the first message of the opposite '
               'type, which is removed when found; iput/iget either match or push, exactly one of the two on every path; a wait '
               'registers its simcall exactly once (base-class delegation inlined); finish delivers the payload only in state DONE and '
               'answers every registered simcall.')


def run(ctx):
    P = ctx.load(UNITS)
    A = ctx.analyzer
    queue = lib.field_where(P, MQ, lambda n, t: ME in t and t.startswith(('std::deque<', 'std::list<', 'std::vector<', 'boost::circular_buffer<')), 'message queue')
    Q = lib.this_field(queue)
    push = P.fn(MQ + '::push')
    find = P.fn(MQ + '::find_matching_message')
    remove = P.fn(MQ + '::remove')
    clear = P.fn(MQ + '::clear')

    # ---- R1 FIFO discipline ---------------------------------------------------------------------------------------------------
    ctx.rule('R1', 'the queue is inserted only at the back; matching scans it front to back; removals erase a found element', 6)
    allowed = {push['q']: {'insert_back'}, find['q']: {'scan', 'erase'}, remove['q']: {'scan', 'erase'},
               clear['q']: {'read_back', 'remove_back'}, MQ + '::front': {'read_front'}}
    _eff, _owners = lib.effective_allowed(allowed, lib.class_call_closure(P, A, 'simgrid::kernel::activity::'))
    for u in lib.field_uses(P, queue):
        if u.kind == 'write' and u.op == 'init':
            continue
        cls = u.kind if u.kind != 'call' else lib.CONTAINER_OPS.get(u.method, 'other:' + str(u.method))
        if cls == 'query':
            continue
        own = _owners(u.fn['q'])      # the operations of a private helper belong to the entry points that call it
        ok = bool(own) and all(cls in _eff.get(o, set()) for o in own)
        ctx.check(ok, 'R1', 'queue op %s in %s' % (u.method or u.kind, u.fn['q'].replace('simgrid::kernel::activity::', '')), where(u.fn, u.line),
                  'class %s %s' % (cls, '' if ok else 'not allowed here'), key='R1|%s|%s' % (u.fn['q'].rsplit('::', 1)[-1], cls))
    ctx.count('call_sites', len(lib.field_uses(P, queue)))

    # ---- R2/R3 find_matching_message -------------------------------------------------------------------------------------------
    ctx.rule('R2', 'the match predicate is `message type == wanted type` and the search returns the first match front to back', 2)
    ctx.rule('R3', 'a found message is erased from the queue exactly once and returned; a failed search changes nothing and returns null', 2)
    v = A.view(find)
    typ = lib.parm_i(find, 0)
    for p in v.paths():
        if p.exit in ('noreturn', 'cut', 'throw'):
            continue
        ctx.count('paths')
        evs = v.path_events(p)
        ff = [e for e in evs if e.kind == 'call' and e.q in ('std::find_if', 'boost::range::find_if')]
        if len(ff) != 1:
            ctx.unrecognised('R2', 'find_matching_message: search idiom not recognised')
            continue
        f = ff[0]
        fwd = len(f.args) == 3 and f.args[0][0] == 'call' and f.args[0][1].endswith('::begin') and f.args[0][2] == Q and \
            f.args[1][0] == 'call' and f.args[1][1].endswith('::end') and f.args[1][2] == Q
        ctx.check(fwd, 'R2', 'search runs from begin() to end() of the queue (first match wins)', where(find, f.line), ex.pretty(f.nf)[:160], key='R2|find|direction')
        lam = f.args[2] if len(f.args) == 3 else None
        okp = False
        if lam and lam[0] == 'lambda' and lam[1] in P.fns:
            lf = P.fns[lam[1]]
            lv = A.view(lf)
            rets = [e.val for lp in lv.paths() for e in lv.path_events(lp) if e.kind == 'return']
            m = lib.parm_i(lf, 0)
            want = ex.mkbin('==', ('call', ME + '::get_type', m, ()), ('var', 'local', typ[2], 0))
            okp = len(rets) == 1 and rets[0][0] == 'bin' and rets[0][1] == '==' and \
                {rets[0][2][0:2] + (rets[0][2][2] if rets[0][2][0] == 'call' else None,), rets[0][3][0]} is not None and \
                any(s == ('call', ME + '::get_type', m, ()) for s in ex.subterms(rets[0])) and \
                any(s[0] == 'var' and s[2] == typ[2] for s in ex.subterms(rets[0]))
            ctx.check(okp, 'R2', 'predicate compares the message type with the wanted type', where(lf), ex.pretty(rets[0]) if rets else '?', key='R2|find|predicate')
        else:
            ctx.unrecognised('R2', 'find_matching_message: predicate is not a lambda')
        it = [e.lhs for e in evs if e.kind == 'assign' and e.rhs == f.nf]
        found = None
        for e in evs:
            if e.kind == 'branch' and e.atom[0] == 'bin' and e.atom[1] == '==' and it and it[0] in (e.atom[2], e.atom[3]) and \
                    any(t[0] == 'call' and t[1].endswith('::end') for t in (e.atom[2], e.atom[3])):
                found = not e.pol
        erases = [e for e in evs if e.kind == 'call' and e.obj == Q and e.q.endswith('::erase')]
        ret = [e for e in evs if e.kind == 'return']
        if found is None:
            ctx.unrecognised('R3', 'find_matching_message: found/not-found test not recognised')
        elif found:
            ok = len(erases) == 1 and it and erases[0].args == (it[0],) and ret and ret[0].val != ('null',)
            ctx.check(ok, 'R3', 'found: the matching message is erased once and returned', where(find), 'erase x%d, returns %s' % (len(erases), ex.pretty(ret[0].val) if ret else '?'), key='R3|find|found path')
        else:
            ok = not erases and ret and ret[0].val == ('null',)
            ctx.check(ok, 'R3', 'not found: nothing erased, null returned', where(find), 'erase x%d' % len(erases), key='R3|find|not found path')

    # ---- R4 push xor match ---------------------------------------------------------------------------------------------------
    ctx.rule('R4', 'iput/iget: on every path exactly one of {matched an existing message, pushed a new one}; the observer receives that message', 4)
    for name, opposite in (('iput', 'GET'), ('iget', 'PUT')):
        f = P.fn(ME + '::' + name)
        v = A.view(f)
        n = 0
        for p in v.paths():
            if p.exit in ('noreturn', 'cut', 'throw'):
                continue
            ctx.count('paths')
            evs = v.path_events(p)
            finds = [e for e in evs if e.kind == 'call' and e.q == MQ + '::find_matching_message']
            pushes = [e for e in evs if e.kind == 'call' and e.q == MQ + '::push']
            if len(finds) != 1:
                ctx.violation('R4', '%s: path without exactly one search' % name, where(f), 'find x%d' % len(finds), key='R4|%s|search count' % name)
                continue
            okt = finds[0].args and finds[0].args[0][0] == 'enum' and finds[0].args[0][1].endswith('::' + opposite)
            other = [e.lhs for e in evs if e.kind == 'assign' and e.rhs == finds[0].nf]
            matched = None
            for e in evs:
                if e.kind == 'branch' and other and e.atom == lib.truthy(other[0]):
                    matched = e.pol
                    break
            if matched is None:
                ctx.unrecognised('R4', '%s: test of the search result not recognised' % name)
                continue
            n += 1
            ok = okt and ((matched and not pushes) or (not matched and len(pushes) == 1 and pushes[0].args == (other[0],)))
            sm = [e for e in evs if e.kind == 'call' and e.q.endswith('::set_message')]
            ok2 = len(sm) == 1 and ex.mentions(sm[0].args[0], other[0])
            ctx.check(ok and ok2, 'R4', '%s path (matched=%s)' % (name, matched), where(f), 'searches type %s, push x%d, set_message x%d' % (opposite if okt else '?', len(pushes), len(sm)),
                      key='R4|%s|push xor match' % name)
            # what the exchange needs is set on every path, before start(): a matched message becomes READY; a put stores the payload and the sender, a get the
            # receiver buffer and the receiver
            ready = [e for e in evs if e.kind == 'call' and e.q.endswith('::set_state') and e.obj == other[0] and e.args and 'READY' in repr(e.args[0])]
            ctx.check((len(ready) == 1) == bool(matched), 'R4', '%s path (matched=%s): the message becomes READY iff it was matched' % (name, matched), where(f), 'set_state(READY) x%d' % len(ready),
                      key='R4|%s|ready iff matched' % name)
            st_i = [i for i, e in enumerate(evs) if e.kind == 'call' and e.q == ME + '::start' and e.obj == other[0]]
            before = evs[:st_i[0]] if st_i else evs
            if name == 'iput':
                pay = [e for e in before if (e.kind == 'assign' and e.lhs[0] == 'field' and e.lhs[1] == other[0] and e.lhs[2].endswith('::payload_') and 'get_payload' in repr(e.rhs)) or
                       (e.kind == 'call' and e.q.endswith('::set_payload') and e.obj == other[0] and 'get_payload' in repr(e.args))]
                who = [e for e in before if e.kind == 'assign' and e.lhs[0] == 'field' and e.lhs[1] == other[0] and e.lhs[2].endswith('::src_actor_') and 'get_issuer' in repr(e.rhs)]
                ctx.check(len(pay) == 1 and len(who) == 1, 'R4', 'iput path (matched=%s): payload and sender stored before start()' % matched, where(f), 'payload x%d, src_actor_ x%d' % (len(pay), len(who)),
                          key='R4|iput|payload and sender set')
            else:
                buf = [e for e in before if e.kind == 'call' and e.q.endswith('::set_dst_buff') and e.obj == other[0] and 'get_dst_buff' in repr(e.args)]
                who = [e for e in before if e.kind == 'assign' and e.lhs[0] == 'field' and e.lhs[1] == other[0] and e.lhs[2].endswith('::dst_actor_') and 'get_issuer' in repr(e.rhs)]
                ctx.check(len(buf) == 1 and len(who) == 1, 'R4', 'iget path (matched=%s): receiver buffer and receiver stored before start()' % matched, where(f), 'set_dst_buff x%d, dst_actor_ x%d' % (len(buf), len(who)),
                          key='R4|iget|buffer and receiver set')
            starts = [e for e in evs if e.kind == 'call' and e.q == ME + '::start' and e.obj == other[0]]
            ctx.check(len(starts) == 1, 'R4', '%s path (matched=%s) starts the message once' % (name, matched), where(f), 'start x%d' % len(starts), key='R4|%s|start' % name)
        ctx.require(n >= 2, 'R4', '%s: matched and unmatched paths not both recognised' % name)

    # ---- R5 single registration ---------------------------------------------------------------------------------------------------
    ctx.rule('R5', 'every path of MessImpl::wait_for (delegation to ActivityImpl::wait_for inlined) registers the simcall exactly once', 1)
    wf = P.fn(ME + '::wait_for')
    ips = A.ipaths(wf, inline=lambda ev, c: c['q'] == ACT + '::wait_for', depth=2)
    seen = set()
    for evs, ek in ips:
        if ek in ('noreturn', 'cut', 'throw'):
            continue
        regs = [e for e in evs if e.kind == 'call' and e.q == ACT + '::register_simcall']
        sig = tuple(e.where() for e in regs)
        if sig in seen:
            continue
        seen.add(sig)
        ctx.check(len(regs) == 1, 'R5', 'wait_for path registering at %s' % ', '.join(w.rsplit('/', 1)[-1] for w in sig), where(wf),
                  '%d registration(s) of the same simcall: a stale one lets a later finish() answer an unrelated simcall of that actor' % len(regs) if len(regs) != 1 else 'one registration',
                  key='R5|wait_for|registrations=%d' % len(regs))

    # ---- R6 finish -----------------------------------------------------------------------------------------------------------
    ctx.rule('R6', 'finish stores the payload into the receiver buffer only in state DONE and answers every registered simcall', 3)
    fin = P.fn(ME + '::finish')
    v = A.view(fin)
    loops = v.loop_heads()
    ok = False
    if len(loops) == 1:
        ap = v.cond_atom(loops[0]['id'])
        ok = bool(ap) and ap[0][0] == 'truthy' and ap[0][1][0] == 'call' and ap[0][1][1].endswith('::empty') and ap[1] is False and \
            ap[0][1][2][0] == 'field' and ap[0][1][2][2].endswith('::simcalls_')
    ctx.check(ok, 'R6', 'finish loops while simcalls_ is not empty', where(fin), '', key='R6|finish|loop')
    stores = 0
    for p in v.paths():
        if p.exit in ('noreturn', 'cut', 'throw'):
            continue
        evs = v.path_events(p)
        for ev, facts in lib.facts_walk(evs):
            if ev.kind == 'assign' and ev.lhs[0] == 'un' and ev.lhs[1] == '*' and 'dst_buff_' in repr(ev.lhs):
                stores += 1
                done = [t for a, t in facts.items() if a[0] == 'bin' and a[1] == '==' and 'get_state' in repr(a) and a[3][0] == 'enum' and a[3][1].endswith('::DONE')]
                ctx.check(done == [True] and ev.rhs[0] == 'field' and ev.rhs[2].endswith('::payload_'), 'R6', 'payload stored under state == DONE', where(fin, ev.line), '', key='R6|finish|payload guard')
                break
        unreg = [e for e in evs if e.kind == 'call' and e.q == ACT + '::unregister_first_simcall']
        ans = [e for e in evs if e.kind == 'call' and e.q.endswith('::simcall_answer')]
        nulls = [e for e in evs if e.kind == 'branch' and e.atom[0] == 'truthy' and e.atom[1][0] == 'var' and e.atom[1][2] == 'issuer']
        if unreg and nulls and p.exit != 'cut':
            live = sum(1 for e in nulls if e.pol)
            ctx.check(len(ans) == live, 'R6', 'finish answers each live issuer it unregisters (%d live on this path)' % live, where(fin), 'answers %d' % len(ans), key='R6|finish|answers')
    ctx.require(stores >= 1, 'R6', 'payload store not found')
    # a message that finishes while still queued (cancelled wait, timeout, killed actor) leaves the queue: otherwise a later put/get matches a dead entry
    okq = None
    QF = lib.this_field(ME + '::queue_')
    for p in v.paths(max_visits=1):
        if p.exit in ('noreturn', 'cut', 'throw'):
            continue
        evs = v.path_events(p)
        inq = [e.pol for e in evs if e.kind == 'branch' and e.atom == lib.truthy(QF)]
        rm = [e for e in evs if e.kind == 'call' and e.q == MQ + '::remove' and e.obj == QF]
        good = len(inq) >= 1 and (len(rm) == 1) == inq[0]
        okq = good if okq is None else (okq and good)
    ctx.check(bool(okq), 'R6', 'finish removes the message from its queue whenever it is still in one', where(fin), '', key='R6|finish|leaves the queue')
    return EXPLANATION
