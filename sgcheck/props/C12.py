"""C12 — Timed waits are exact (DESIGN.md 3, C12)."""
from .. import cg, ex, lib
from ..cfg import abstract_run
from ..core import where
from ..ir import AnalysisBroken

UNITS = ['src/kernel/activity/ActivityImpl.cpp', 'src/kernel/activity/MessImpl.cpp', 'src/kernel/activity/CommImpl.cpp', 'src/kernel/activity/ExecImpl.cpp',
         'src/kernel/activity/IoImpl.cpp', 'src/kernel/activity/MutexImpl.cpp', 'src/kernel/activity/SemaphoreImpl.cpp',
         'src/kernel/activity/ConditionVariableImpl.cpp', 'src/kernel/activity/BarrierImpl.cpp', 'src/kernel/activity/SleepImpl.cpp',
         'src/s4u/s4u_Activity.cpp', 'src/s4u/s4u_ActivitySet.cpp', 'src/kernel/actor/WaitTestObserver.cpp']
K = 'simgrid::kernel::'
AI = K + 'activity::ActivityImpl'
EXPLANATION = ('Path rules on the timed-wait mechanism: in ActivityImpl::wait_for and wait_any_for the timeout timer is armed exactly for timeout >= 0 '
               'with date get_clock() + timeout (dataflow identity); the timeout callback of wait_for gives up without timing out exactly when the model '
               'action is FINISHED or FAILED (truth table over its three atoms), otherwise unregisters the simcall, reports true and answers; '
               'unregister_first_simcall disarms a pending timer on completion; wait_for_or_cancel cancels in its TimeoutException handler before '
               'rethrowing; the wait_any_for timeout unregisters the simcall from every activity and answers with the default -1 which '
               'ActivitySet::wait_any_for maps to TimeoutException; every wait_for override registers the simcall exactly once per path; the S4U '
               'wait_for hands the user timeout unchanged to the kernel and throws TimeoutException iff the simcall returns true.')


def lambda_of(P, ev):
    for a in ev.args or ():
        if a[0] == 'lambda':
            return P.fns.get(a[1])
    return None


def run(ctx):
    P = ctx.load(UNITS)
    A = ctx.analyzer
    wf = P.fn(AI + '::wait_for')
    waf = P.fn(AI + '::wait_any_for')

    # ---- R1 arming ----------------------------------------------------------------------------------------------------------------------
    ctx.rule('R1', 'the timeout timer is armed iff timeout >= 0, with date get_clock() + timeout, and stored as the simcall\'s timeout_cb_', 4)
    lambdas = {}
    for fn in (wf, waf):
        v = A.view(fn)
        tparm = lib.parm(fn, 'timeout')
        lt0 = [('bin', '<', tparm, ('float', 0.0)), ('bin', '<', tparm, ('int', 0))]
        armed_sig = set()
        for p in v.paths():
            if p.exit in ('noreturn', 'cut'):
                continue
            ctx.count('paths')
            evs = v.path_events(p)
            neg = None
            mc = False
            sets = []
            running = True
            for e, facts in lib.facts_walk(evs):
                if e.kind == 'branch' and e.atom in lt0:
                    neg = e.pol
                if e.kind == 'branch' and e.atom[0] == 'truthy' and e.atom[1][0] == 'call' and e.atom[1][1].startswith('MC_') and fn is waf and e.pol:
                    mc = True
                if e.kind == 'call' and e.q.endswith('timer::Timer::set'):
                    sets.append(e)
                if e.kind == 'call' and e.q == AI + '::finish' and fn is wf:
                    running = False
            if mc:
                continue
            sig = (neg, len(sets), running)
            if sig in armed_sig:
                continue
            armed_sig.add(sig)
            if not running:
                ctx.check(not sets, 'R1', '%s: activity already over -> no timer' % fn['q'].replace(K, ''), where(fn), '', key='R1|%s|finished no timer' % fn['q'].rsplit('::', 1)[-1])
                continue
            if neg is None:
                le0 = [e for e in evs if e.kind == 'branch' and e.atom in [('bin', '<=', tparm, ('float', 0.0)), ('bin', '<=', tparm, ('int', 0))]]
                if le0 and sets and not le0[0].pol:
                    ctx.violation('R1', '%s: timeout armed only for timeout > 0' % fn['q'].replace(K, ''), where(fn, sets[0].line),
                                  'a timeout of exactly 0 (expires now) arms no timer: the wait blocks until completion', key='R1|%s|arming' % fn['q'].rsplit('::', 1)[-1])
                elif le0 and not sets and le0[0].pol:
                    continue
                else:
                    ctx.unrecognised('R1', '%s: a path does not compare the timeout with 0' % fn['q'])
                continue
            want = 0 if neg else 1
            ok = len(sets) == want
            detail = 'timeout<0=%s, Timer::set x%d' % (neg, len(sets))
            if ok and sets:
                d = sets[0].args[0]
                ok = d[0] == 'bin' and d[1] == '+' and {d[2], d[3]} == {tparm, ('call', 'simgrid::s4u::Engine::get_clock', None, ())}
                detail += ', date ' + ex.pretty(d)
                # stored into issuer->simcall_.timeout_cb_
                st = [e for e in evs if e.kind == 'assign' and e.rhs == sets[0].nf and e.lhs[0] == 'field' and e.lhs[2].endswith('::timeout_cb_')]
                ok = ok and len(st) == 1
                lambdas[fn['q']] = lambda_of(P, sets[0])
            ctx.check(ok, 'R1', '%s: timeout %s 0' % (fn['q'].replace(K, ''), '<' if neg else '>='), where(fn, sets[0].line if sets else None), detail,
                      key='R1|%s|arming' % fn['q'].rsplit('::', 1)[-1])

    # ---- R2 timeout callback of wait_for ------------------------------------------------------------------------------------------------------
    ctx.rule('R2', 'wait_for timeout callback: no timeout iff model_action_ && (state FINISHED || FAILED); otherwise unregister the simcall, set_result(true), answer; timeout_cb_ reset first', 4)
    lf = lambdas.get(wf['q'])
    if lf is None:
        ctx.unrecognised('R2', 'timeout callback of wait_for not found')
    else:
        v = A.view(lf)
        rows = {}
        for p in v.paths():
            if p.exit in ('noreturn', 'cut'):
                continue
            evs = v.path_events(p)
            ma = fin = fail = None
            for e in evs:
                if e.kind == 'branch':
                    r = repr(e.atom)
                    if e.atom[0] == 'truthy' and e.atom[1][0] == 'field' and e.atom[1][2].endswith('::model_action_'):
                        ma = e.pol if ma is None else ma
                    elif 'State::FINISHED' in r and 'get_state' in r:
                        fin = e.pol
                    elif 'State::FAILED' in r and 'get_state' in r:
                        fail = e.pol
            unreg = [e for e in evs if e.kind == 'call' and e.q == AI + '::unregister_simcall']
            res = [e for e in evs if e.kind == 'call' and e.q.endswith('::set_result') and e.args == (('bool', True),)]
            ans = [e for e in evs if e.kind == 'call' and e.q.endswith('ActorImpl::simcall_answer')]
            reset = [i for i, e in enumerate(evs) if e.kind == 'assign' and e.lhs[0] == 'field' and e.lhs[2].endswith('::timeout_cb_') and e.rhs == ('null',)]
            first_effect = min([i for i, e in enumerate(evs) if e.kind == 'call' and e in unreg + res + ans] or [10 ** 6])
            timed_out = bool(unreg) and bool(res) and bool(ans)
            partial = (bool(unreg) or bool(res) or bool(ans)) and not timed_out
            rows[(ma, fin, fail)] = (timed_out, partial, bool(reset) and reset[0] < first_effect)
        for (ma, fin, fail), (to, partial, rst) in sorted(rows.items(), key=repr):
            over = bool(ma) and (bool(fin) or bool(fail))
            if to and not (ma is False or (fin is False and fail is False)):
                ctx.violation('R2', 'callback path model_action_=%s FINISHED=%s FAILED=%s' % (ma, fin, fail), where(lf),
                              'the wait times out on a path that has not excluded that the model action ended (FINISHED or FAILED) right at the deadline: a completion at the deadline '
                              'must count as completed', key='R2|wait_for callback|on-time completion')
                continue
            ctx.check(to == (not over) and not partial and rst, 'R2', 'callback path model_action_=%s FINISHED=%s FAILED=%s' % (ma, fin, fail), where(lf),
                      'times out: %s (expected %s)%s%s' % (to, not over, ', incomplete timeout sequence' if partial else '', '' if rst else ', timeout_cb_ not reset first'),
                      key='R2|wait_for callback|on-time completion')

    # ---- R3 completion disarms the timer --------------------------------------------------------------------------------------------------
    ctx.rule('R3', 'unregister_first_simcall removes a pending timeout timer and clears timeout_cb_', 1)
    uf = P.fn(AI + '::unregister_first_simcall')

    def tr3(st, e):
        armed, removed, cleared, bad = st
        if e.kind == 'branch' and e.atom[0] == 'truthy' and e.atom[1][0] == 'field' and e.atom[1][2].endswith('::timeout_cb_') and armed is None:
            return (e.pol, removed, cleared, bad)
        if e.kind == 'call' and e.q.endswith('Timer::remove') and e.obj is not None and e.obj[0] == 'field' and e.obj[2].endswith('::timeout_cb_'):
            return (armed, True, cleared, bad)
        if e.kind == 'assign' and e.lhs[0] == 'field' and e.lhs[2].endswith('::timeout_cb_') and e.rhs == ('null',):
            return (armed, removed, True, bad)
        return None
    ex3 = abstract_run(A, uf, (None, False, False, False), tr3)
    sts = ex3['normal']
    ok3 = bool(sts) and all((a is True and r and c) or (a is False and not r) for a, r, c, _ in sts)
    ctx.check(ok3, 'R3', 'unregister_first_simcall: timeout_cb_ set -> remove() and reset, on every path', where(uf), 'exit states %s' % sorted(sts, key=repr), key='R3|unregister_first_simcall|disarm')

    # ---- R4 wait_for_or_cancel ---------------------------------------------------------------------------------------------------------------
    ctx.rule('R4', 'wait_for_or_cancel: the TimeoutException handler calls cancel() and rethrows a TimeoutException', 1)
    woc = P.fn('simgrid::s4u::Activity::wait_for_or_cancel')
    v = A.view(woc)
    cbs = v.catch_blocks()
    okc = False
    detail = '%d handler(s)' % len(cbs)
    for cb in cbs:
        lab = v.blocks[cb].get('label', {})
        ty = woc.tstr(lab.get('ty', -1))
        if 'TimeoutException' not in ty:
            continue
        for p in v.paths(start=cb):
            evs = v.path_events(p)
            canc = [i for i, e in enumerate(evs) if e.kind == 'call' and e.q.endswith('Activity::cancel') and e.obj == ('this',)]
            thr = [i for i, e in enumerate(evs) if e.kind == 'throw']
            okc = bool(canc) and bool(thr) and canc[0] < thr[0] and ('TimeoutException' in repr(evs[thr[0]].val) or evs[thr[0]].val == ('none',))
            detail = 'handler of %s: cancel x%d, throw x%d' % (ty, len(canc), len(thr))
    body_calls = [e for p in v.paths() for e in v.path_events(p) if e.kind == 'call' and e.q.endswith('Activity::wait_for') and e.args == (lib.parm(woc, 'timeout'),)]
    ctx.check(okc and bool(body_calls), 'R4', 'wait_for_or_cancel', where(woc), detail, key='R4|wait_for_or_cancel|cancel in handler')

    # ---- R5 wait_any_for ----------------------------------------------------------------------------------------------------------------------
    ctx.rule('R5', 'wait_any_for timeout: the simcall is unregistered from every activity, then answered with the default -1, which ActivitySet::wait_any_for turns into TimeoutException', 3)
    lf = lambdas.get(waf['q'])
    if lf is None:
        ctx.unrecognised('R5', 'timeout callback of wait_any_for not found')
    else:
        v = A.view(lf)
        okl = False
        for h in v.loop_heads():
            if h['t'].get('k') != 'CXXForRangeStmt':
                continue
            body = cg.natural_loop(v, h['id'])
            calls = [n for b in body for eid in v.blocks[b].get('e', []) for n in ex.walk(lf['elems'][eid]['x']) if n.get('k') == 'Call' and (n.get('c') or {}).get('q') == AI + '::unregister_simcall']
            conds = [b for b in body if len(v.succs(b)) > 1]
            okl = bool(calls) and not conds
        ans_after = False
        for p in v.paths(max_visits=2):
            evs = v.path_events(p)
            idx_u = [i for i, e in enumerate(evs) if e.kind == 'call' and e.q == AI + '::unregister_simcall']
            idx_a = [i for i, e in enumerate(evs) if e.kind == 'call' and e.q.endswith('ActorImpl::simcall_answer')]
            if idx_a and (not idx_u or idx_u[-1] < idx_a[0]) and len(idx_a) == 1:
                ans_after = True
            elif not idx_a and p.exit not in ('noreturn', 'cut'):
                ans_after = False
                break
        ctx.check(okl and ans_after, 'R5', 'wait_any_for callback: unregister from every activity (unconditional loop), then one answer', where(lf), '', key='R5|wait_any_for callback|unregister all')
    # already-finished activity is finished immediately
    v = A.view(waf)
    okf = False
    reg_all = False
    for p in v.paths(max_visits=2):
        evs = v.path_events(p)
        if any(e.kind == 'branch' and e.atom[0] == 'truthy' and e.atom[1][0] == 'call' and e.atom[1][1].startswith('MC_') and e.pol for e in evs):
            continue
        regs = [(i, e.obj) for i, e in enumerate(evs) if e.kind == 'call' and e.q == AI + '::register_simcall']
        fins = [(i, e.obj) for i, e in enumerate(evs) if e.kind == 'call' and e.q == AI + '::finish']
        if fins and regs and fins[0][1] == regs[-1][1] and regs[-1][0] < fins[0][0]:
            okf = True
    for h in v.loop_heads():
        if h['t'].get('k') == 'CXXForRangeStmt':
            body = cg.natural_loop(v, h['id'])
            firsts = [b for b in v.succs(h['id']) if b in body]
            # the registration is in the first block of the body: nothing can skip it
            for b in firsts:
                if any(e.kind == 'call' and e.q == AI + '::register_simcall' for eid in v.blocks[b].get('e', []) for e in v.events_of(eid)):
                    reg_all = True
    okf = okf and reg_all
    ctx.check(okf, 'R5', 'wait_any_for registers the simcall on each activity and finishes one that is already over', where(waf), '', key='R5|wait_any_for|register loop')
    # finish() answers the issuer: nothing may be registered for it afterwards (a later activity of the set would keep a stale simcall of an actor that is
    # no longer waiting on it)
    late = None
    for p in v.paths(max_visits=2):
        evs = v.path_events(p)
        if any(e.kind == 'branch' and e.atom[0] == 'truthy' and e.atom[1][0] == 'call' and e.atom[1][1].startswith('MC_') and e.pol for e in evs):
            continue
        fi = [i for i, e in enumerate(evs) if e.kind == 'call' and e.q == AI + '::finish']
        if fi:
            after = [e for e in evs[fi[0] + 1:] if e.kind == 'call' and e.q in (AI + '::register_simcall', AI + '::finish')]
            late = bool(after) if late is None else (late or bool(after))
    ctx.check(late is False, 'R5', 'wait_any_for stops at the first activity that is already over', where(waf), 'after finish() the loop registers or finishes another activity' if late else '', key='R5|wait_any_for|stops after finish')
    # sibling agreement: both timeout callbacks forget the timer (timeout_cb_ = nullptr) before anything else, as unregister_first_simcall and the cleanup of a
    # dying actor call remove() on a non-null timeout_cb_
    for owner_q, lam in sorted(lambdas.items()):
        if lam is None:
            continue
        lv_ = A.view(lam)
        first = None
        for eid in lv_.blocks[lam['entry']].get('e', []) or [e_ for b_ in lv_.succs(lam['entry']) for e_ in lv_.blocks[b_].get('e', [])]:
            for e in lv_.events_of(eid):
                if first is None and e.kind in ('assign', 'call'):
                    first = e
        okc = first is not None and first.kind == 'assign' and first.lhs[0] == 'field' and first.lhs[2].endswith('::timeout_cb_') and first.rhs == ('null',)
        ctx.check(okc, 'R5', 'timeout callback of %s: timeout_cb_ = nullptr first' % owner_q.rsplit('::', 1)[-1], where(lam), 'first effect: %r' % (first,), key='R5|%s callback|timer forgotten first' % owner_q.rsplit('::', 1)[-1])
    aswf = P.fn('simgrid::s4u::ActivitySet::wait_any_for')
    v = A.view(aswf)
    okm = False
    for p in v.paths():
        evs = v.path_events(p)
        for e, facts in lib.facts_walk(evs):
            if e.kind == 'throw' and 'TimeoutException' in repr(e.val):
                okm = any(a[0] == 'bin' and a[1] == '==' and a[3] == ('int', -1) and t for a, t in facts.items())
    obs = [f for f in P.fns.values() if f['q'] == K + 'actor::ActivityWaitanySimcall::ActivityWaitanySimcall' and f.get('elems')]
    okd = False
    for f in obs:
        for el in f['elems']:
            x = el['x']
            if x.get('k') == 'CtorInit' and 'base' in x:
                t = ex.Norm(f)(x)
                okd = okd or any(s == ('int', -1) for s in ex.subterms(t))
    ctx.check(okm and okd, 'R5', 'ActivitySet::wait_any_for: result -1 (the observer\'s default) -> TimeoutException', where(aswf), 'default -1: %s, mapped: %s' % (okd, okm), key='R5|ActivitySet::wait_any_for|-1 is timeout')

    # ---- R6 one registration per wait ---------------------------------------------------------------------------------------------------------------
    ctx.rule('R6', 'every wait_for override registers the waiting simcall exactly once on each path that blocks or finishes', 5)
    for f in P.overriders(AI, 'wait_for'):
        if not f.get('blocks'):
            continue

        def inline(ev, callee, _f=f):
            return callee['q'] == AI + '::wait_for' and _f['q'] != AI + '::wait_for'
        try:
            paths = A.ipaths(f, inline=inline, depth=1)
        except AnalysisBroken as e_:
            ctx.unrecognised('R6', '%s: %s' % (f['q'], e_))
            continue
        bad = None
        n = 0
        for evs, exit_ in paths:
            if exit_ in ('noreturn', 'cut', 'throw'):
                continue
            regs = [e for e in evs if e.kind == 'call' and e.q == AI + '::register_simcall']
            n += 1
            if len(regs) != 1:
                bad = '%d registration(s) on a path: %s' % (len(regs), lib.fmt_path(evs, 8))
        ctx.check(bad is None and n >= 1, 'R6', '%s' % f['q'].replace(K, ''), where(f), bad or '%d path(s), one registration each' % n, key='R6|%s|single registration' % f['q'].replace(K, ''))

    # ---- R7 S4U layer ---------------------------------------------------------------------------------------------------------------------------
    ctx.rule('R7', 's4u::Activity::wait_for passes the user timeout unchanged to the kernel wait and throws TimeoutException iff the simcall returns true', 2)
    swf = P.fn('simgrid::s4u::Activity::wait_for')
    v = A.view(swf)
    tparm = lib.parm(swf, 'timeout')
    obs_ok = False
    thr_ok = None
    for p in v.paths():
        evs = v.path_events(p)
        for e, facts in lib.facts_walk(evs):
            if e.kind == 'call' and e.q.endswith('ActivityWaitSimcall::ActivityWaitSimcall'):
                obs_ok = tparm in e.args
            if e.kind == 'throw' and 'TimeoutException' in repr(e.val):
                sc = [t for a, t in facts.items() if 'simcall_blocking' in repr(a)]
                thr_ok = (sc == [True]) if thr_ok is None else (thr_ok and sc == [True])
    lam_ok = False
    for key, lf in P.fns.items():
        if lf['q'].startswith('simgrid::s4u::Activity::wait_for::<lambda') and lf.get('blocks'):
            lv = A.view(lf)
            for p in lv.paths():
                for e in lv.path_events(p):
                    if e.kind == 'call' and e.q == AI + '::wait_for' and len(e.args) == 2 and e.args[1][0] == 'call' and e.args[1][1].endswith('::get_timeout'):
                        lam_ok = True
    ctx.check(obs_ok and lam_ok, 'R7', 'Activity::wait_for: timeout -> observer -> ActivityImpl::wait_for unchanged', where(swf), 'observer gets the parameter: %s, kernel gets observer.get_timeout(): %s' % (obs_ok, lam_ok),
              key='R7|Activity::wait_for|timeout identity')
    ctx.check(thr_ok is True, 'R7', 'Activity::wait_for: TimeoutException iff the blocking simcall returns true', where(swf), '', key='R7|Activity::wait_for|timeout exception')
    ctx.assume('Timer::set fires its callback at the given date (C03); the order between a timer and an action ending at the same date is that of EngineImpl::run (timers first)')
    return EXPLANATION
