"""C43 — Checker and application agree on every transition (DESIGN.md 3, C43): P7 writer/reader field sequences."""
import glob
import os

from .. import ex, lib, ir
from ..core import where
from ..ir import AnalysisBroken, REPO

EXPLANATION = ('For every mc::Transition::Type, the sequence of Channel::pack<T> calls on every path of the observer '
               'serialize() that packs it (helpers and loops included) is compared, field by field (size and kind), with '
               'the sequence of Channel::unpack<T> calls of the Transition constructor that deserialize_transition selects '
               'for that type. Each side is the specification of the other; nothing is executed.')
CH = 'simgrid::mc::Channel'
TT = 'simgrid::mc::Transition::Type'
OBS = 'simgrid::kernel::actor::SimcallObserver'


def run(ctx):
    obs_units = sorted(glob.glob(REPO + '/src/kernel/actor/*Observer.cpp'))
    tr_units = sorted(glob.glob(REPO + '/src/mc/transition/Transition*.cpp'))
    if not obs_units or not tr_units:
        raise AnalysisBroken('observer or transition units not found')
    base = [u[len(REPO) + 1:] for u in obs_units + tr_units]
    P0 = ctx.load(base)
    # construction sites of observers that carry their type in a field: every unit naming such an observer class
    carriers = []
    for f in P0.overriders(OBS, 'serialize'):
        cls = f.get('cls')
        if cls and any(t.endswith('Transition::Type') for (_, t, _) in lib.fields(P0, cls)):
            carriers.append(cls)
    names = sorted(set(c.rsplit('::', 1)[-1] for c in carriers))
    extra = ir.units_mentioning(names) if names else []
    if ctx.tier == 'thorough':
        extra = ctx.all_units()
    P = ctx.load(base, extra=[u for u in extra])
    A = ctx.analyzer
    types = lib.enum_values(P, TT)
    tname = {v: k for k, v in types.items()}

    sizes = {}

    def tok_of_call(ev, what):
        """token of a pack/unpack call event"""
        c = ev.node.get('c') or {}
        targs = c.get('targs') or []
        if not targs:
            # the non-template pack(const void*, size_t)
            return ('raw', '?', 0)
        t = targs[0]
        if t.startswith('std::basic_string<char') or t == 'std::string':
            return ('string', 'std::string', 0)
        key = c.get('n')
        if key not in sizes:
            fn = P.fns.get(key)
            sz = None
            if fn is not None:
                for el in fn['elems']:
                    for n in ex.walk(el['x']):
                        if n.get('k') == 'SizeOf' and 'cv' in n:
                            sz = n['cv']
            if sz is None:
                raise AnalysisBroken('size of %s not found (instantiation %s missing)' % (t, key))
            sizes[key] = sz
        kind = 'type' if t == TT else 'pod'
        return (kind, t, sizes[key])

    helper_cache = {}

    def chan_param(fn):
        for p in fn['params']:
            if fn.tstr(p['t']).startswith(CH):
                return True
        return False

    def seqs_of(fn, what, stack=()):
        """list of (conds, tokens) per normal path; conds = constraints on the type carrier gathered on the path"""
        v = A.view(fn)
        out = []
        paths = v.paths(max_paths=4000)
        ctx.count('paths', len(paths))
        for p in paths:
            if p.exit in ('noreturn', 'cut', 'throw'):
                continue
            evs = v.path_events(p)
            alts = [([], [])]
            for e in evs:
                if e.kind == 'branch':
                    a = e.atom
                    if a[0] == 'bin' and a[1] == '==' and a[3][0] == 'enum' and a[3][1].startswith(TT + '::'):
                        for al in alts:
                            al[0].append(('eq', a[2], a[3][2], e.pol))
                elif e.kind == 'case' and e.val is not None:
                    sw = v.blocks[e.bid]
                    labs = [v.blocks[s].get('label') for s in sw['s'] if s is not None]
                    vals = [l.get('v') for l in labs if l and l.get('k') == 'case']
                    lab = e.labels
                    if lab and lab.get('k') == 'case':
                        for al in alts:
                            al[0].append(('eq', e.val, lab.get('v'), True))
                    else:
                        for al in alts:
                            al[0].append(('notin', e.val, tuple(vals), True))
                elif e.kind == 'call':
                    if e.q == CH + '::' + what:
                        tok = tok_of_call(e, what)
                        if tok[0] == 'type' and what == 'pack':
                            tok = ('type', e.args[0] if e.args else None, tok[2])
                        for al in alts:
                            al[1].append(tok)
                        ctx.count('call_sites')
                    elif e.q in (CH + '::pack', CH + '::unpack'):
                        raise AnalysisBroken('%s mixes pack and unpack' % fn['q'])
                    else:
                        callee = A.resolve(e)
                        if callee is not None and chan_param(callee) and not callee['q'].startswith(CH + '::'):
                            if callee['key'] in stack or callee['q'].endswith('deserialize_transition'):
                                for al in alts:
                                    al[1].append(('REC',))
                                continue
                            hs = helper(callee, what, stack + (fn['key'],))
                            if hs['record']:
                                for al in alts:
                                    al[1].append(('REC',))
                            else:
                                nalts = []
                                for al in alts:
                                    for (hc, ht) in hs['seqs']:
                                        nalts.append((al[0] + hc, al[1] + ht))
                                alts = nalts
            out.extend(alts)
        return out

    def type_conds(v, evs):
        """constraints on a transition-type carrier gathered along one path"""
        cs = []
        for e in evs:
            if e.kind == 'branch':
                a = e.atom
                if a[0] == 'bin' and a[1] == '==' and a[3][0] == 'enum' and a[3][1].startswith(TT + '::'):
                    cs.append(('eq', a[2], a[3][2], e.pol))
            elif e.kind == 'case' and e.val is not None:
                sw = v.blocks[e.bid]
                labs = [v.blocks[s_].get('label') for s_ in sw['s'] if s_ is not None]
                vals = [l.get('v') for l in labs if l and l.get('k') == 'case']
                lab = e.labels
                if lab and lab.get('k') == 'case':
                    cs.append(('eq', e.val, lab.get('v'), True))
                else:
                    cs.append(('notin', e.val, tuple(vals), True))
        return cs

    def helper(fn, what, stack):
        h = helper_cache.get(fn['key'])
        if h is None:
            s = seqs_of(fn, what, stack)
            rec = bool(s) and all(t and t[0][0] == 'type' for (_, t) in s) if what == 'pack' else False
            h = {'seqs': s, 'record': rec, 'fn': fn}
            helper_cache[fn['key']] = h
        return h

    def feasible(conds, carrier_test, T):
        for c in conds:
            if not carrier_test(c[1]):
                continue
            if c[0] == 'eq':
                if (c[2] == T) != c[3]:
                    return False
            elif c[0] == 'notin':
                if T in c[2]:
                    return False
        return True

    def show(tokens):
        return '[' + ', '.join(('%s:%d' % (t[1].replace('simgrid::mc::', '').replace('unsigned int', 'unsigned'), t[2]) if t[0] in ('pod',) else t[0] if t[0] != 'type' else 'Type')
                               for t in tokens) + ']'

    def shape(tokens):
        return tuple((t[0], t[2]) if t[0] == 'pod' else (t[0],) for t in tokens)

    # ---- reader: deserialize_transition ------------------------------------------------------------------------------
    ctx.rule('R1', 'deserialize_transition maps each type to a Transition class constructed from the channel', 20)
    des = P.fn('simgrid::mc::deserialize_transition')
    dv = A.view(des)
    reader = {}   # type value -> (class ctor fn, passes type?)
    for p in dv.paths():
        if p.exit in ('noreturn', 'cut'):
            continue
        evs = dv.path_events(p)
        labs = [e for e in evs if e.kind == 'case']
        news = [e for e in evs if e.kind == 'new']
        if not labs or not news:
            continue
        lab = labs[0].labels
        if not lab or lab.get('k') != 'case':
            continue
        tv = lab['v']
        ctor_ev = [e for e in evs if e.kind == 'call' and e.eid <= news[0].eid and e.q.rsplit('::', 1)[-1].endswith('Transition')]
        if not ctor_ev:
            raise AnalysisBroken('deserialize_transition: constructor call not found for type %s' % tname.get(tv, tv))
        cf = A.resolve(ctor_ev[-1])
        has_chan = cf is not None and chan_param(cf)
        reader[tv] = (cf, ctor_ev[-1], has_chan)
        ctx.holds('R1', 'type %s -> %s' % (tname.get(tv, tv), ctor_ev[-1].q.rsplit('::', 1)[-1]), where(des, ctor_ev[-1].line), 'reader case')

    def reader_seqs(tv):
        cf, cev, has_chan = reader[tv]
        if not has_chan:
            return [()]
        if cf is None:
            raise AnalysisBroken('constructor %s has no body in the loaded units' % cev.q)
        tparm = [i for i, p_ in enumerate(cf['params']) if cf.tstr(p_['t']) == TT]

        def carrier(t):
            return t[0] == 'var' and t[1] == 'parm' and any(cf['params'][i]['n'] == t[2] for i in tparm)
        res = set()
        for conds, toks in seqs_of(cf, 'unpack'):
            if feasible(conds, carrier, tv):
                res.add(tuple(toks))
        return sorted(res)

    # ---- writers -----------------------------------------------------------------------------------------------------------
    ctx.rule('R2', 'per transition type: packed field sequence = unpacked field sequence (order, size, kind, loops)', 20)
    ctx.rule('R3', 'every type a writer can pack has a reader case (NOMC types excepted: they must have none)', 20)
    ctx.rule('R4', 'straight-line records: a member name shared by the observer and the transition class is packed and unpacked at the same position (two fields of the same wire '
             'type are not exchanged)', 8)
    writers = []   # (fn, class or None)
    for f in P.overriders(OBS, 'serialize'):
        writers.append(f)
    ctx.require(len(writers) >= 15, 'R2', 'only %d serialize() overrides found' % len(writers))
    # type constants passed to constructors of carrier classes
    ctor_types = {}
    for cls in carriers:
        ctor_types[cls] = set()
    for fn in P.fns.values():
        for el in fn.get('elems') or ():
            for n in ex.walk(el['x']):
                if n.get('k') == 'New0':
                    c = n.get('c') or {}
                    cls = c.get('cls')
                    if cls in ctor_types:
                        found = False
                        for a in n.get('a', ()):
                            a2 = a
                            if a2.get('k') == 'R':
                                a2 = fn['elems'][a2['r']]['x']
                            if a2.get('k') == 'Ref' and a2['d'].get('dk') == 'enumc' and a2['d']['n'].startswith(TT + '::'):
                                ctor_types[cls].add(a2['d']['v'])
                                found = True
                            elif fn.tstr(a2) == TT:
                                found = True
                                if not (fn.get('cls') in ctor_types and fn.get('kind') == 'ctor'):
                                    ctx.unrecognised('R3', 'non-constant transition type passed to %s at %s' % (cls, where(fn, el.get('l'))))
                        if not found and not (fn.get('kind') == 'ctor'):
                            pass
    seen_types = set()
    done_helpers = set()

    nroles = [0]

    GENERIC = {'id', 'size', 'get', 'value', 'impl', 'pimpl'}

    def member_names(t):
        """names an expression is built from: members of this, and the getters (get_mutex() -> mutex) applied on the way"""
        ns = set(x[2].rsplit('::', 1)[-1].strip('_') for x in ex.subterms(t) if x[0] == 'field' and x[1] == ('this',))
        for x in ex.subterms(t):
            if x[0] == 'call' and isinstance(x[1], str):
                g = x[1].rsplit('::', 1)[-1]
                if g.startswith('get_') or g.startswith('is_'):
                    ns.add(g.split('_', 1)[1].strip('_'))
            elif x[0] == 'field' and x[1] != ('this',):
                ns.add(x[2].rsplit('::', 1)[-1].strip('_'))
        return ns - GENERIC

    def check_roles(f, label, tv, nm, wcarrier):
        """R4: two fields of the same wire type are not exchanged between the two sides.  The writer packs expressions over its members (comm_, mbox_, tag_...), the reader
        stores each unpacked value in a member; when member names are shared by the two classes, a name may not sit at position i on one side and at position j on the other"""
        cf, cev, has_chan = reader[tv]
        if not has_chan or cf is None:
            return
        fv, rv = A.view(f), A.view(cf)

        def along_paths(view, pick, carrier_test):
            """the picked events in execution order when every normal path this type can take gives the same list, else None (looping records: only their shape is decided, R2)"""
            seqs = set()
            keep = None
            for p_ in view.paths(max_visits=1, max_paths=400):
                if p_.exit in ('noreturn', 'cut', 'throw'):
                    continue
                pev = view.path_events(p_)
                if not feasible(type_conds(view, pev), carrier_test, tv):
                    continue
                evs = [x for x in (pick(e) for e in pev) if x is not None]
                seqs.add(tuple(repr(x[1:]) for x in evs))
                keep = evs
            return keep if len(seqs) == 1 else None
        tparm = [i for i, p_ in enumerate(cf['params']) if cf.tstr(p_['t']) == TT]

        def rcarrier(t):
            return t[0] == 'var' and t[1] == 'parm' and any(cf['params'][i]['n'] == t[2] for i in tparm)
        packs = along_paths(fv, lambda e: (e, member_names(e.args[0]) if e.args else set()) if e.kind == 'call' and e.q == CH + '::pack' and tok_of_call(e, 'pack')[0] != 'type' else None, wcarrier)
        unp = along_paths(rv, lambda e: (e, member_names(e.lhs) if e.lhs[0] == 'field' else set()) if e.kind == 'assign' and any(x[0] == 'call' and x[1] == CH + '::unpack' for x in ex.subterms(e.rhs)) else None, rcarrier)
        allun = along_paths(rv, lambda e: (e, 0) if e.kind == 'call' and e.q == CH + '::unpack' else None, rcarrier)
        if not packs or not unp or allun is None or len(packs) != len(unp) or len(allun) != len(unp):
            return
        w = [names for _, names in packs]
        r = [names for _, names in unp]
        packs = [e for e, _ in packs]
        nroles[0] += 1
        swapped = None
        for i in range(len(w)):
            for j in range(len(w)):
                if i != j and (w[i] & r[j]) and not (w[i] & r[i]) and not (w[j] & r[j]):
                    swapped = (i, j)
        ctx.check(swapped is None, 'R4', '%s / %s: no field is packed at one position and unpacked at another' % (nm, label), where(f, packs[swapped[0]].line if swapped else None),
                  ('position %d packs %s but position %d is stored in %s (and position %d in %s): two fields of the same wire type are exchanged' %
                   (swapped[0], sorted(w[swapped[0]]), swapped[1], sorted(r[swapped[1]]), swapped[0], sorted(r[swapped[0]]))) if swapped else
                  'writer %s ; reader %s' % ([sorted(x) for x in w], [sorted(x) for x in r]), key='R4|%s|%s' % (nm, label))

    def check_writer(f, label):
        cls = f.get('cls')
        wseqs = seqs_of(f, 'pack')
        if not wseqs:
            ctx.holds('R2', '%s never returns normally (aborts loudly); nothing is packed' % label, where(f), 'no normal path')
            return
        # delegation only?
        if all(tuple(t) == (('REC',),) for (_, t) in wseqs):
            ctx.holds('R2', '%s delegates to a record-writing helper' % label, where(f), 'checked at the helper')
            return
        # which types?
        tvals = set()
        carrier_field = None
        for (_, toks) in wseqs:
            if not toks or toks[0][0] != 'type':
                ctx.violation('R2', '%s: record does not start with its transition type' % label, where(f), show(toks), key='R2|%s|no leading type' % label)
                return
            a = toks[0][1]
            if a is not None and a[0] == 'enum':
                tvals.add(a[2])
            elif a is not None and a[0] == 'field' and a[1] == ('this',):
                carrier_field = a
            else:
                ctx.unrecognised('R2', '%s: leading type is neither a constant nor a member (%s)' % (label, ex.pretty(a) if a else '?'))
                return
        if carrier_field is not None:
            if cls not in ctor_types or not ctor_types[cls]:
                ctx.unrecognised('R3', '%s: no construction site with a constant type found for %s' % (label, cls))
                return
            tvals |= ctor_types[cls]

        def carrier(t):
            return carrier_field is not None and t == carrier_field
        for tv in sorted(tvals):
            nm = tname.get(tv, str(tv))
            if nm.endswith('_NOMC'):
                ctx.check(tv not in reader, 'R3', '%s: %s has no reader case' % (label, nm), where(f),
                          'NOMC types are never meant to reach the checker', key='R3|%s|NOMC has reader' % nm)
                continue
            seen_types.add(tv)
            ws = set()
            for conds, toks in wseqs:
                a = toks[0][1]
                if a is not None and a[0] == 'enum' and a[2] != tv:
                    continue
                if feasible(conds, carrier, tv):
                    ws.add(tuple(toks[1:]))
            if tv not in reader:
                ctx.violation('R3', '%s packs %s' % (label, nm), where(f), 'deserialize_transition has no case for this type', key='R3|%s|no reader' % nm)
                continue
            ctx.holds('R3', '%s packs %s' % (label, nm), where(f), 'reader case exists')
            rs = set(reader_seqs(tv))
            wshape = sorted(set(shape(t) for t in ws))
            rshape = sorted(set(shape(t) for t in rs))
            ok = wshape == rshape and bool(ws)
            ctx.check(ok, 'R2', '%s / %s' % (nm, label), where(f),
                      'writer %s ; reader %s %s' % (' | '.join(show(t) for t in sorted(ws)), reader[tv][1].q.rsplit('::', 1)[-1], ' | '.join(show(t) for t in sorted(rs))),
                      key='R2|%s|%s' % (nm, label))
            if ok:
                check_roles(f, label, tv, nm, carrier)
                wn = sorted(set(tuple(x[1] for x in t if x[0] == 'pod') for t in ws))
                rn = sorted(set(tuple(x[1] for x in t if x[0] == 'pod') for t in rs))
                if wn != rn:
                    ctx.notes.append('%s: same sizes, different spelled types: writer %s reader %s' % (nm, wn, rn))

    for f in writers:
        check_writer(f, f['q'].replace('simgrid::kernel::actor::', ''))
    for key, h in list(helper_cache.items()):
        if h['record'] and key not in done_helpers:
            done_helpers.add(key)
            check_writer(h['fn'], h['fn']['q'].replace('simgrid::kernel::actor::', ''))

    # reader cases without a writer are dead code on the checker side, not a disagreement: reported as a note only
    for tv in sorted(reader):
        if tv not in seen_types:
            ctx.notes.append('reader case %s has no writer in the loaded units (dead case, not a disagreement)' % tname.get(tv, tv))
    ctx.assume('type constants reaching an observer are those passed literally to its constructor in the loaded units (%s tier: %d units)' % (ctx.tier, len(ctx.units)))
    return EXPLANATION
