"""C45 — Random draws (DESIGN.md 3, C45, portability part): the xbt generator uses only the mt19937 engine and SimGrid arithmetic."""
from .. import cg, ex, lib
from ..core import where
from ..ir import AnalysisBroken

UNITS = ['src/xbt/random.cpp']
NS = 'simgrid::xbt::random::'
MT19937 = ['unsigned long', '32', '624', '397', '31', '2567483615', '11', '4294967295', '7', '2636928640', '15', '4022730752', '18', '1812433253']
EXPLANATION = ('R1 who-may-use-type: no member of XbtRandom (nor anything it calls inside simgrid::xbt::random) mentions a std::*_distribution, '
               'std::random_device or std::default_random_engine, whose output sequences are implementation-defined; the engine member is '
               'std::mersenne_twister_engine with the mt19937 parameters (fully specified by the C++ standard); the default generator is an '
               'XbtRandom.  R2 shape of the rejection sampling of uniform_int: the draw is repeated while value >= limit with limit = max - max % '
               'range, and the result is value % range + min (so it is read only once bounded by a multiple of the range).')

FORBIDDEN = ('_distribution', 'std::random_device', 'std::default_random_engine', 'std::minstd', 'std::ranlux', 'std::knuth_b', 'rand', 'random', 'drand48', 'lrand48')


def mentions_forbidden(fn):
    """names of forbidden std facilities used by a function (callees, local types, constructed types)"""
    hits = set()
    for el in fn.get('elems') or ():
        for n in ex.walk(el['x']):
            q = (n.get('c') or {}).get('q') if n.get('k') in ('Call', 'New0') else None
            if q:
                base = q.split('<')[0]
                if any((f in q) if f.startswith(('_', 'std::')) else (base == f) for f in FORBIDDEN):
                    hits.add(q.split('(')[0][:70])
            if n.get('k') == 'Decl':
                for d in n.get('decls', ()):
                    t = fn.tstr(d.get('t', -1))
                    if any(f in t for f in FORBIDDEN if f.startswith(('_', 'std::'))):
                        hits.add(t[:70])
    return hits


def run(ctx):
    P = ctx.load(UNITS)
    A = ctx.analyzer
    G = cg.CallGraph(P)
    ctx.rule('R1', 'XbtRandom draws use only the mt19937 engine and SimGrid arithmetic; the engine is the standard-specified mt19937; the default generator is XbtRandom', 6)
    methods = [f for f in P.methods_of(NS + 'XbtRandom') if f.get('elems')]
    names = sorted(set(f['q'].rsplit('::', 1)[-1] for f in methods))
    ctx.require({'uniform_int', 'uniform_real', 'exponential', 'normal'} <= set(names), 'R1', 'XbtRandom methods not found: %s' % names)
    # closure inside the namespace
    todo = [f['key'] for f in methods]
    seen = set()
    while todo:
        k = todo.pop()
        if k in seen or k not in P.fns:
            continue
        seen.add(k)
        f = P.fns[k]
        if not (f['q'].startswith(NS) or f['file'].endswith('random.cpp') or f['file'].endswith('random.hpp')):
            continue
        if f['q'].startswith(NS + 'StdRandom'):
            continue
        hits = mentions_forbidden(f)
        if f['q'].startswith(NS + 'XbtRandom') or hits:
            ctx.check(not hits, 'R1', '%s uses no implementation-defined random facility' % f['q'].replace(NS, ''), where(f), 'uses %s: the sequence of draws would depend on the standard library' % sorted(hits) if hits else '',
                      key='R1|%s|std facility' % f['q'].replace(NS, ''))
        for c in G.out.get(k, ()):
            if c in P.fns and c not in seen:
                todo.append(c)
    # engine type
    eng = [t for n, t, q in lib.fields(P, NS + 'Random') if 'mt19937' in n or 'mersenne_twister_engine' in t]
    okeng = False
    detail = 'engine member not found'
    if len(eng) == 1:
        name, args = cg.parse_template(eng[0])
        okeng = name == 'std::mersenne_twister_engine' and [a.replace('UL', '').replace('U', '') for a in args] == MT19937
        detail = eng[0][:120]
    ctx.check(okeng, 'R1', 'the engine is std::mt19937 (mersenne_twister_engine<32, 624, 397, 31, 0x9908b0df, ...>)', 'include/xbt/random.hpp', detail, key='R1|Random|engine type')
    dr = [g for q, g in P.globals.items() if q.endswith('default_random')]
    okd = False
    if len(dr) == 1:
        t = ex.Norm(dr[0])(dr[0]['init']) if dr[0].get('init') else ('none',)
        okd = any(s[0] == 'call' and s[1] == 'std::make_unique' for s in ex.subterms(t)) and 'XbtRandom' in repr(dr[0]['init'])
    ctx.check(okd, 'R1', 'the default generator is an XbtRandom', where(dr[0], dr[0].get('line')) if dr else '', '', key='R1|default_random|implementation')

    ctx.rule('R2', 'uniform_int: draws are repeated while value >= max - max % range and the result is value % range + min', 3)
    ui = P.fn(NS + 'XbtRandom::uniform_int')
    v = A.view(ui)
    lim = None
    for eid in range(len(ui['elems'])):
        for e in v.events_of(eid):
            if e.kind == 'assign' and e.lhs[0] == 'var' and e.lhs[2] == 'limit':
                lim = e.rhs
    oklim = False
    if lim is not None:
        t = lim
        while t[0] in ('cast', 'conv'):
            t = t[2]
        def engine_max(x):
            # the largest value of the engine: mt19937::max() (a call, or the constant clang folded it to: 2^32-1), possibly through a constexpr local
            while x[0] in ('cast', 'conv'):
                x = x[2]
            if x[0] == 'var' and x[1] == 'local':
                dd = [e_.rhs for eid_ in range(len(ui['elems'])) for e_ in v.events_of(eid_) if e_.kind == 'assign' and e_.lhs == x]
                return len(dd) == 1 and engine_max(dd[0])
            if x[0] == 'int' or (x[0] == 'str' and str(x[1]).isdigit()):
                return int(x[1]) == 4294967295
            return x[0] == 'call' and x[1].endswith('::max') and 'mersenne_twister_engine' in x[1]
        oklim = t[0] == 'bin' and t[1] == '-' and engine_max(t[2]) and t[3][0] == 'bin' and t[3][1] == '%' and engine_max(t[3][2]) and t[3][3][0] == 'var' and t[3][3][2] == 'range'
    ctx.check(bool(oklim), 'R2', 'limit = engine max - engine max % range (the largest multiple of range), engine max = mt19937::max() = 2^32-1', where(ui), ex.pretty(lim) if lim else 'not found', key='R2|uniform_int|limit')
    okloop = False
    for h in v.loop_heads():
        at = v.cond_atom(h['id'])
        if at and at[0][0] == 'bin' and at[0][1] == '<' and at[0][2][0] == 'var' and at[0][2][2] == 'value' and at[0][3][0] == 'var' and at[0][3][2] == 'limit':
            # the edge taken when value < limit is false must lead back to the test through a new draw; the other edge leaves the loop
            ss = h['s']
            cont = ss[1] if at[1] else ss[0]
            leave = ss[0] if at[1] else ss[1]

            def reach(start, stop):
                seen_, work = set(), [start]
                while work:
                    x = work.pop()
                    if x is None or x in seen_:
                        continue
                    seen_.add(x)
                    if x == stop:
                        continue
                    work.extend(v.succs(x))
                return seen_
            rc = reach(cont, h['id'])
            draws = [e for b in rc for eid in v.blocks[b].get('e', []) for e in v.events_of(eid) if e.kind == 'assign' and e.lhs[0] == 'var' and e.lhs[2] == 'value' and 'mt19937_gen' in repr(e.rhs)]
            okloop = h['id'] in rc and bool(draws) and h['id'] not in reach(leave, -1)
    ctx.check(okloop, 'R2', 'the draw is repeated while value >= limit', where(ui), '', key='R2|uniform_int|rejection loop')
    okret = False
    for p in v.paths(max_visits=2):
        if p.exit in ('noreturn', 'cut'):
            continue
        evs = v.path_events(p)
        rets = [e for e in evs if e.kind == 'return']
        bounded = [e for e in evs if e.kind == 'branch' and e.atom[0] == 'bin' and e.atom[1] == '<' and e.atom[2][0] == 'var' and e.atom[2][2] == 'value' and e.pol]
        if rets and 'value' in repr(rets[0].val):
            t = rets[0].val
            while t[0] in ('cast', 'conv'):
                t = t[2]
            shape = t[0] == 'bin' and t[1] == '+' and any(x[0] == 'bin' and x[1] == '%' and x[2][0] == 'var' and x[2][2] == 'value' and x[3][0] == 'var' and x[3][2] == 'range' for x in (t[2], t[3])) and \
                any('min' in repr(x) for x in (t[2], t[3]))
            okret = shape and bool(bounded)
    ctx.check(okret, 'R2', 'the result is value % range + min, read after the loop bounded value by limit', where(ui), '', key='R2|uniform_int|result')
    # the number of values is max - min + 1, computed without signed overflow; the full-range shortcut still adds min
    pmin, pmax = lib.parm_i(ui, 0), lib.parm_i(ui, 1)

    def unsigned_of(t, parm):
        return t[0] in ('cast', 'conv') and 'unsigned' in str(t[1]) and (t[2] == parm or unsigned_of(t[2], parm) or (t[2][0] in ('cast', 'conv') and t[2][2] == parm))
    okcount = None
    okfull = None
    unread = False
    for p in v.paths(max_visits=2):
        if p.exit in ('noreturn', 'cut', 'throw'):
            continue
        evs = v.path_events(p)
        rets = [e for e in evs if e.kind == 'return' and e.val is not None]
        if not rets:
            continue
        rv = rets[-1].val
        ws = [e for e in evs if e.kind in ('assign', 'incdec') and e.lhs[0] == 'var' and e.lhs[2] == 'range' and e.line <= rets[-1].line]
        draws_in_ret = any(x[0] == 'call' and 'mt19937_gen' in repr(x) for x in ex.subterms(rv))
        if any(x[0] == 'bin' and x[1] == '%' for x in ex.subterms(rv)):
            # the modulo path: range = unsigned(max) - unsigned(min), then + 1 (inline, ++ or += 1), nothing else
            if not ws or ws[0].kind != 'assign':
                unread = True
                continue
            diff = ws[0].rhs
            while diff[0] in ('cast', 'conv') and not (diff[2][0] == 'var'):
                diff = diff[2]
            ones = 0
            if diff[0] == 'bin' and diff[1] == '+' and ('int', 1) in (diff[2], diff[3]):
                ones += 1
                diff = diff[3] if diff[2] == ('int', 1) else diff[2]
                while diff[0] in ('cast', 'conv') and not (diff[2][0] == 'var'):
                    diff = diff[2]
            for w_ in ws[1:]:
                if w_.kind == 'incdec' and w_.op in ('++', 'pre++', 'post++'):
                    ones += 1
                elif w_.kind == 'assign' and w_.op == '+=' and w_.rhs == ('int', 1):
                    ones += 1
                else:
                    unread = True
            if not (diff[0] == 'bin' and diff[1] == '-' and pmax in ex.subterms(diff[2]) and pmin in ex.subterms(diff[3])):
                unread = True
                continue
            okd = unsigned_of(diff[2], pmax) and unsigned_of(diff[3], pmin)
            okcount = (okcount is None or okcount) and bool(ones == 1 and okd)
        elif draws_in_ret:
            t = rv
            while t[0] in ('cast', 'conv'):
                t = t[2]
            okfull = (okfull is None or okfull) and t[0] == 'bin' and t[1] == '+' and any(pmin in ex.subterms(x) for x in (t[2], t[3]))
    ctx.require(not unread and okcount is not None, 'R2', 'uniform_int: the computation of range is not in a form this rule reads')
    ctx.check(bool(okcount), 'R2', 'the number of values is unsigned(max) - unsigned(min), plus one, before the limit is computed', where(ui),
              'range is written %s' % ('as expected' if okcount else 'otherwise: max is never drawn without the + 1, and a signed difference overflows for wide ranges'), key='R2|uniform_int|number of values')
    if okfull is not None:
        ctx.check(bool(okfull), 'R2', 'the full-range shortcut returns the draw plus min', where(ui), '', key='R2|uniform_int|full range')
    for nm_, cls_ in (('set_implem_xbt', 'XbtRandom'),):
        fs = [f for f in P.fns.values() if f['q'] == NS + nm_ and f.get('blocks')]
        if not fs:
            raise AnalysisBroken('%s not found' % nm_)
        sv = A.view(fs[0])
        made = [x[1] if x[0] == 'call' else '' for eid in range(len(fs[0]['elems'])) for e in sv.events_of(eid) for x in ex.subterms(e.rhs if e.kind == 'assign' else (e.nf if e.kind == 'call' else ('none',)))
                if x[0] == 'call' and isinstance(x[1], str) and x[1].startswith('std::make_unique')]
        types_made = set(repr(n.get('c', {}).get('targs')) for el in fs[0]['elems'] for n in ex.walk(el['x']) if (n.get('c') or {}).get('n', '').startswith('std::make_unique'))
        okm = bool(made) and all(cls_ in t for t in types_made) and bool(types_made)
        ctx.check(okm, 'R1', '%s installs an %s' % (nm_, cls_), where(fs[0]), 'make_unique of %s' % sorted(types_made), key='R1|%s|implementation' % nm_)
    # ---- R3 uniform_real stays in [min, max] by construction ------------------------------------------------------------------------------------------
    ctx.rule('R3', 'uniform_real: the result is the lower bound plus a fraction in [0, 1) of the width - min + (max - min) x numerator / divisor, factors in any order, '
             'locals resolved - or is clamped to both bounds; the draw equal to the divisor is rejected.  A two-sided interpolation (1-r) x min + r x max rounds its two '
             'products independently and leaves [min, max] for narrow or degenerate ranges', 2)
    ur = P.fn(NS + 'XbtRandom::uniform_real')
    vr = A.view(ur)
    pmin, pmax = lib.parm(ur, 'min'), lib.parm(ur, 'max')

    def strip(t):
        while t[0] in ('cast', 'conv'):
            t = t[2]
        return t

    def resolve(t, depth=0):
        t = strip(t)
        if t[0] == 'var' and t[1] == 'local' and depth < 5:
            dd = [e_.rhs for eid_ in range(len(ur['elems'])) for e_ in vr.events_of(eid_) if e_.kind == 'assign' and e_.lhs == t and e_.rhs[0] != 'none']
            if len(dd) == 1:
                return resolve(dd[0], depth + 1)
        return t

    def factors(t, num, den, inv=False):
        t = resolve(t)
        if t[0] == 'bin' and t[1] == '*':
            factors(t[2], num, den, inv)
            factors(t[3], num, den, inv)
        elif t[0] == 'bin' and t[1] == '/':
            factors(t[2], num, den, inv)
            factors(t[3], num, den, not inv)
        else:
            (den if inv else num).append(t)
    rets = [e.val for p in vr.paths(max_visits=2) if p.exit not in ('noreturn', 'cut') for e in vr.path_events(p) if e.kind == 'return' and e.val is not None]
    rets = list(dict.fromkeys(rets))
    okshape = bool(rets)
    detail = ''
    for r in rets:
        t = resolve(r)
        clamp = t[0] == 'call' and t[1] in ('std::clamp',) and pmin in [strip(x) for x in t[3]] and pmax in [strip(x) for x in t[3]]
        if clamp:
            continue
        good = False
        if t[0] == 'bin' and t[1] == '+':
            for lo, term in ((t[2], t[3]), (t[3], t[2])):
                if strip(lo) != pmin:
                    continue
                num, den = [], []
                factors(term, num, den)
                width = [x for x in num if x[0] == 'bin' and x[1] == '-' and strip(x[2]) == pmax and strip(x[3]) == pmin]
                rest = [x for x in num if x not in width]
                draw = [x for x in rest if (x[0] == 'var' and x[2] == 'numerator') or 'mt19937_gen' in repr(x)]
                good = len(width) == 1 and len(draw) == 1 and len(rest) == 1 and len(den) == 1 and (den[0][0] in ('int', 'float') or (den[0][0] == 'var' and den[0][2] == 'divisor'))
        if not good:
            okshape = False
            detail = ex.pretty(t)
    ctx.check(okshape, 'R3', 'uniform_real returns min + (max - min) x numerator / divisor (or a value clamped to [min, max])', where(ur),
              'returns %s: not the one-sided form; two independently rounded products can leave [min, max]' % detail if not okshape else 'one-sided affine form', key='R3|uniform_real|one-sided form')
    okrej = False
    for h in vr.loop_heads():
        at = vr.cond_atom(h['id'])
        if at and at[0][0] == 'bin' and at[0][1] == '==' and any(strip(x)[0] == 'var' and strip(x)[2] == 'numerator' for x in (at[0][2], at[0][3])):
            other = [strip(x) for x in (at[0][2], at[0][3]) if not (strip(x)[0] == 'var' and strip(x)[2] == 'numerator')]
            okrej = bool(other) and (other[0][0] in ('int', 'float') or (other[0][0] == 'var' and other[0][2] == 'divisor'))
    ctx.check(okrej, 'R3', 'uniform_real redraws while numerator == divisor (the fraction stays below 1)', where(ur), '', key='R3|uniform_real|rejection')
    ctx.assume('range and uniformity over all 32-bit ranges (arithmetic) are not decided; std::mt19937 produces the sequence fixed by the C++ standard')
    return EXPLANATION
