"""C24 — Hierarchical routes are composed correctly (DESIGN.md 3, C24): splice orientation, latency co-update, bypass first."""
from .. import ex, ir, lib
from ..core import where
from ..ir import AnalysisBroken, REPO
from .C13 import _dominating_facts

K = 'simgrid::kernel::'
RT = K + 'routing::'
NZ = RT + 'NetZoneImpl'
LINKVEC = 'std::vector<simgrid::kernel::resource::StandardLinkImpl *'
EXPLANATION = ('Sequence-splice orientation over src/kernel/routing and the link helpers of NetworkModel.cpp: every range insertion of one link list into '
               'another (insert(pos, first, last), assign(first, last), std::move/copy into a back_inserter) is classified by position and direction; '
               'all are forward, a reverse range exists only where a route declared symmetrical is registered for the opposite direction (under the '
               'symmetrical / !preserve_order guard) and no link list is reversed in place; in get_interzone_route legs on the destination side '
               'are appended and legs on the source side prepended, in get_global_route_with_netzones the order is source leg, common-ancestor '
               'route, destination leg; the link helpers add the latency of what they insert whenever an accumulator is supplied and the routed '
               'zones append to a route only through them; a declared bypass route short-circuits the hierarchical computation.')

REVERSE_OK = {   # function -> guard that must dominate a reverse range (one reason each)
    RT + 'RoutedZone::new_extended_route': ('preserve_order', False, 'the reversed copy is the route registered for the opposite direction of a symmetrical route'),
    RT + 'StarZone::add_route': ('symmetrical', True, 'the down route of a symmetrical star route is the up route reversed'),
}
R2_ZONES = ('FullZone', 'FloydZone', 'DijkstraZone', 'StarZone', 'RoutedZone', 'NetZoneImpl', 'VivaldiZone', 'EmptyZone', 'WifiZone')


def range_dir(fn, v, first, last):
    """('fwd'|'rev'|None, container normal form) of an iterator pair"""
    def it(t):
        while t[0] in ('cast', 'ctor') and len(t) > 2 and t[2]:
            t = t[2] if t[0] == 'cast' else t[2][0]
        if t[0] == 'call' and t[2] is not None and not t[3]:
            return t[1].rsplit('::', 1)[-1], t[2]
        if t[0] == 'call' and t[1] in ('std::begin', 'std::end', 'std::rbegin', 'std::rend', 'std::cbegin', 'std::cend') and len(t[3]) == 1:
            return t[1].rsplit('::', 1)[-1], t[3][0]
        return None, None
    a, ca = it(first)
    b, cb = it(last)
    if ca is None or ca != cb:
        return None, None
    if (a, b) in (('begin', 'end'), ('cbegin', 'cend')):
        return 'fwd', ca
    if (a, b) in (('rbegin', 'rend'), ('crbegin', 'crend')):
        return 'rev', ca
    return None, ca


def pos_kind(t, target):
    while t[0] in ('cast', 'ctor') and len(t) > 2 and t[2]:
        t = t[2] if t[0] == 'cast' else t[2][0]
    if t[0] == 'call' and t[2] == target and not t[3]:
        n = t[1].rsplit('::', 1)[-1]
        if n in ('begin', 'cbegin'):
            return 'begin'
        if n in ('end', 'cend'):
            return 'end'
    if t[0] == 'var':
        return 'var:' + t[2]
    return '?'


def splices(P, A, scope_files):
    """every range splice into a link vector: (fn, line, target, position kind, direction, source container, node)"""
    out = []
    for key, fn in sorted(P.fns.items()):
        f_rel = fn['file'][len(REPO) + 1:] if fn['file'].startswith(REPO) else fn['file']
        if not f_rel.startswith(scope_files) or not fn.get('elems'):
            continue
        v = None
        for eid, el in enumerate(fn['elems']):
            for n in ex.walk(el['x']):
                if n.get('k') != 'Call' or not n.get('c'):
                    continue
                q = n['c']['q']
                last = q.rsplit('::', 1)[-1]
                if v is None:
                    v = A.view(fn)
                if q.startswith(LINKVEC) and last in ('insert', 'assign') and len(n.get('a') or ()) == (3 if last == 'insert' else 2):
                    t = v.norm(n)
                    if t[0] != 'call':
                        continue
                    args = t[3]
                    first, lastt = (args[1], args[2]) if last == 'insert' else (args[0], args[1])
                    d, src = range_dir(fn, v, first, lastt)
                    pk = pos_kind(args[0], t[2]) if last == 'insert' else 'all'
                    out.append((fn, n.get('l', el.get('l')), t[2], pk, d, src, n))
                elif q in ('std::move', 'std::copy', 'std::reverse_copy') and len(n.get('a') or ()) == 3:
                    t = v.norm(n)
                    if t[0] != 'call':
                        continue
                    dest = t[3][2]
                    bi = [s for s in ex.subterms(dest) if s[0] == 'call' and s[1] == 'std::back_inserter']
                    if not bi:
                        continue
                    tgt = bi[0][3][0]
                    d, src = range_dir(fn, v, t[3][0], t[3][1])
                    if q == 'std::reverse_copy' and d:
                        d = 'rev' if d == 'fwd' else 'fwd'
                    out.append((fn, n.get('l', el.get('l')), tgt, 'end', d, src, n))
                elif q == 'std::reverse' and len(n.get('a') or ()) == 2:
                    t = v.norm(n)
                    d, src = range_dir(fn, v, t[3][0], t[3][1]) if t[0] == 'call' else (None, None)
                    out.append((fn, n.get('l', el.get('l')), src, 'inplace', 'rev', src, n))
    return out


def run(ctx):
    units = [u for u in ir.all_units() if '/src/kernel/routing/' in u or u.endswith('/src/kernel/resource/NetworkModel.cpp')]
    P = ctx.load([u[len(REPO) + 1:] for u in units])
    A = ctx.analyzer
    sp = splices(P, A, ('src/kernel/routing/', 'src/kernel/resource/NetworkModel.cpp'))

    # ---- R1 orientation ---------------------------------------------------------------------------------------------------------------------
    ctx.rule('R1', 'every splice of one link list into another keeps the order of the spliced list; reverse ranges only for the opposite direction of a symmetrical route; legs are placed on the right side', 10)
    for fn, line, tgt, pk, d, src, node in sp:
        inst = '%s: %s at %s of %s' % (fn['q'].replace(K, ''), {'fwd': 'forward range', 'rev': 'reverse range', None: 'unrecognised range'}[d], pk, ex.pretty(tgt) if tgt else '?')
        key = 'R1|%s|%s' % (fn['q'].replace(K, ''), ex.pretty(src) if src else '?')
        if d is None:
            ctx.unrecognised('R1', '%s (line %s): iterator pair not recognised' % (fn['q'], line))
            continue
        if d == 'fwd':
            ctx.holds('R1', inst, where(fn, line), 'source %s' % ex.pretty(src))
            continue
        rule = REVERSE_OK.get(fn['q'])
        if rule and pk != 'inplace':
            dom = _dominating_facts(A, fn, node)
            ok = any(a == lib.truthy(('var', 'parm', rule[0], 0)) and t == rule[1] for a, t in dom)
            ctx.check(ok, 'R1', inst, where(fn, line), 'allowed only under %s%s: %s' % ('' if rule[1] else '!', rule[0], rule[2]), key=key)
        else:
            ctx.violation('R1', inst, where(fn, line), 'the links of %s end up in the opposite order in %s: a multi-link leg is returned reversed' % (ex.pretty(src) if src else 'the leg', ex.pretty(tgt) if tgt else 'the route'), key=key)
    # the callers of new_extended_route asking for a reversed copy do so only for symmetrical routes
    for fn in P.fns.values():
        for el in fn.get('elems') or ():
            for n in ex.walk(el['x']):
                if n.get('k') == 'Call' and (n.get('c') or {}).get('q') == RT + 'RoutedZone::new_extended_route' and len(n.get('a') or ()) == 5:
                    a4 = n['a'][4]
                    if a4.get('k') == 'Bool' and a4.get('v') is False:
                        dom = _dominating_facts(A, fn, n)
                        ok = any(a == lib.truthy(('var', 'parm', 'symmetrical', 0)) and t for a, t in dom)
                        ctx.check(ok, 'R1', '%s registers the reversed route only when symmetrical' % fn['q'].replace(K, ''), where(fn, n.get('l')), '', key='R1|%s|reversed registration' % fn['q'].replace(K, ''))
    # positions in get_interzone_route
    gi = P.fn(NZ + '::get_interzone_route')
    g2n = lib.truthy(lib.parm(gi, 'gateway_to_netpoint'))
    mine = [s for s in sp if s[0]['key'] == gi['key']]
    npos = 0
    for fn, line, tgt, pk, d, src, node in mine:
        dom = dict(_dominating_facts(A, fn, node))
        side = dom.get(g2n)
        if pk.startswith('var:'):
            # position chosen by a variable: both assignments must agree with the flag
            v = A.view(gi)
            okv = True
            n = 0
            for p in v.paths(max_visits=1):
                evs = v.path_events(p)
                flag = None
                for e in evs:
                    if e.kind == 'branch' and e.atom == g2n:
                        flag = e.pol
                    rhs = None
                    if e.kind == 'assign' and e.lhs[0] == 'var' and e.lhs[2] == pk[4:] and e.rhs != ('none',) and not e.decl:
                        rhs = e.rhs
                    if e.kind == 'call' and e.q.endswith('::operator=') and e.obj is not None and e.obj[0] == 'var' and e.obj[2] == pk[4:] and len(e.args) == 1:
                        rhs = e.args[0]
                    if rhs is not None:
                        n += 1
                        k = pos_kind(rhs, tgt)
                        okv = okv and flag is not None and k == ('end' if flag else 'begin')
            npos += 1
            ctx.check(okv and n >= 2, 'R1', 'get_interzone_route: final leg inserted at end when going down to the netpoint, at begin when coming up from it', where(fn, line), '', key='R1|get_interzone_route|final leg position')
        else:
            npos += 1
            ctx.check(side is not None and pk == ('end' if side else 'begin'), 'R1', 'get_interzone_route: gateway_to_netpoint=%s -> leg inserted at %s' % (side, pk), where(fn, line), '',
                      key='R1|get_interzone_route|leg position')
    ctx.require(npos >= 3, 'R1', 'splices of get_interzone_route not found')
    # order in get_global_route_with_netzones
    gg = P.fn(NZ + '::get_global_route_with_netzones')
    v = A.view(gg)
    order_ok = None
    for p in v.paths(max_visits=1):
        if p.exit in ('noreturn', 'cut'):
            continue
        evs = v.path_events(p)
        seq = []
        legs = {}
        for e in evs:
            if e.kind == 'call' and e.q == NZ + '::get_interzone_route':
                legs[e.args[3]] = 'src' if e.args[2] == ('bool', False) else 'dst'
            if e.kind == 'call' and e.q == 'std::move' and len(e.args) == 3 and any(s[0] == 'call' and s[1] == 'std::back_inserter' for s in ex.subterms(e.args[2])):
                d, src = range_dir(gg, v, e.args[0], e.args[1])
                if src in legs:
                    seq.append(legs[src])
                elif src is not None and src[0] == 'field' and src[2].endswith('::link_list_'):
                    seq.append('common')
                else:
                    seq.append('?')
        if not seq:
            continue
        good = seq in (['src', 'common', 'dst'], ['common', 'dst'], ['src', 'common'], ['common'])
        order_ok = good if order_ok is None else (order_ok and good)
    ctx.check(bool(order_ok), 'R1', 'get_global_route_with_netzones appends: source leg, common-ancestor route, destination leg', where(gg), '', key='R1|get_global_route_with_netzones|leg order')

    # ---- R2 latency co-update -----------------------------------------------------------------------------------------------------------------
    ctx.rule('R2', 'the link helpers add the latency of every link they insert when an accumulator is given; routed zones append to a route only through them', 5)
    helpers = [f for f in P.fns.values() if f['q'] in (K + 'resource::add_link_latency', K + 'resource::insert_link_latency') and f.get('blocks')]
    for f in helpers:
        v = A.view(f)
        lat = lib.parm(f, 'latency')
        ok = True
        n = 0
        for p in v.paths():
            if p.exit in ('noreturn', 'cut'):
                continue
            evs = v.path_events(p)
            ins = [e for e in evs if e.kind == 'call' and e.q.startswith(LINKVEC) and e.q.rsplit('::', 1)[-1] in ('insert', 'push_back')]
            nonnull = [e.pol for e in evs if e.kind == 'branch' and e.atom == lib.truthy(lat)]
            acc = [e for e in evs if (e.kind == 'assign' and e.op == '+=' and e.lhs == ('un', '*', lat)) or (e.kind == 'call' and e.q.endswith('add_latency') and lat in e.args)]
            n += 1
            ok = ok and len(ins) == 1 and (bool(acc) or nonnull == [False])
        ctx.check(ok and n >= 1, 'R2', '%s(%s)' % (f['q'].replace(K, ''), ', '.join(f.tstr(p_['t']).split('<')[0] for p_ in f['params'][:2])), where(f), '%d path(s)' % n,
                  key='R2|%s|latency' % f['q'].replace(K, ''))
    al = [f for f in P.fns.values() if f['q'].endswith('resource::add_latency') and f.get('blocks')]
    ctx.require(len(helpers) >= 3, 'R2', 'link helpers not found')
    LL = RT + 'Route::link_list_'
    for u in lib.field_uses(P, LL):
        if u.kind != 'call' or lib.CONTAINER_OPS.get(u.method) not in ('insert_back', 'insert_at', 'insert_front', 'assign'):
            continue
        cls = (u.fn.get('cls') or '').rsplit('::', 1)[-1]
        name = u.fn['q'].rsplit('::', 1)[-1]
        if name != 'get_local_route':
            continue
        if cls not in R2_ZONES:
            ctx.notes.append('not decided (structured topology, C26): %s appends to link_list_ directly at line %s' % (u.fn['q'].replace(K, ''), u.line))
            continue
        ctx.violation('R2', '%s appends to the route with %s' % (u.fn['q'].replace(K, ''), u.method), where(u.fn, u.line), 'the latency of the link is not added to the accumulator: use add_link_latency',
                      key='R2|%s|direct append' % u.fn['q'].replace(K, ''))
    nloc = 0
    for f in P.overriders(NZ, 'get_local_route'):
        cls = (f.get('cls') or '').rsplit('::', 1)[-1]
        if cls in R2_ZONES and f.get('blocks'):
            nloc += 1
            ctx.holds('R2', '%s appends links only through the latency helpers' % f['q'].replace(K, ''), where(f), '')
    ctx.require(nloc >= 4, 'R2', 'get_local_route overrides not found')

    # ---- R3 bypass first --------------------------------------------------------------------------------------------------------------------------
    ctx.rule('R3', 'a declared bypass route is looked up before any local route is computed, and its success ends the computation', 1)
    v = A.view(gg)
    ok3 = None
    for p in v.paths(max_visits=1):
        if p.exit in ('noreturn', 'cut'):
            continue
        evs = v.path_events(p)
        bp = [i for i, e in enumerate(evs) if e.kind == 'call' and e.q == NZ + '::get_bypass_route']
        lr = [i for i, e in enumerate(evs) if e.kind == 'call' and e.q.endswith('::get_local_route')]
        found = [e.pol for e in evs if e.kind == 'branch' and 'get_bypass_route' in repr(e.atom)]
        good = len(bp) == 1 and (not lr or bp[0] < lr[0]) and (found != [True] or (not lr and p.exit in ('return', 'end')))
        ok3 = good if ok3 is None else (ok3 and good)
    ctx.check(bool(ok3), 'R3', 'get_global_route_with_netzones: bypass lookup first; found -> return', where(gg), '', key='R3|get_global_route_with_netzones|bypass')
    ctx.assume('that the gateways used are the declared ones, the Vivaldi coordinate term and the structured topologies (cluster, torus, fat-tree, dragonfly: C26) are not decided')
    # ---- R4 a scratch Route is empty whenever it is handed to get_local_route (which appends to it) ---------------------------------------------
    ctx.rule('R4', 'every local Route handed to get_local_route() is fresh (default-constructed or reset to Route()) since its previous use', 3)
    from ..cfg import abstract_run as _arun
    n4 = 0
    for f in sorted(P.fns.values(), key=lambda f_: f_['key']):
        if not f.get('blocks') or '/src/kernel/routing/' not in f['file']:
            continue
        v = A.view(f)
        evs_all = [e for eid in range(len(f['elems'])) for e in v.events_of(eid) if e.eid == eid]
        scratch = set()
        for e in evs_all:
            if e.kind == 'call' and e.q.endswith('::get_local_route') and len(e.args or ()) >= 3:
                a = e.args[2]
                if a[0] == 'un' and a[1] == '&' and a[2][0] == 'var' and a[2][1] == 'local':
                    scratch.add(a[2])
        for rv in sorted(scratch, key=repr):
            def tr4(st, e, _rv=rv):
                used, bad = st
                if e.kind == 'assign' and e.lhs == _rv:
                    r = e.rhs
                    fresh = r[0] == 'ctor' and not r[2] or (r[0] == 'ctor' and len(r[2]) == 1 and r[2][0][0] == 'ctor' and not r[2][0][2]) or r[0] in ('init', 'none')
                    return (None if fresh else used, bad)
                if e.kind == 'call' and e.q.endswith('Route::operator=') and e.obj == _rv:
                    a = e.args[0] if e.args else None
                    fresh = a is not None and a[0] == 'ctor' and not a[2]
                    return (None if fresh else used, bad)
                if e.kind == 'call' and e.q.endswith('::get_local_route') and len(e.args or ()) >= 3 and e.args[2] == ('un', '&', _rv):
                    if used:
                        return (used, bad or 'get_local_route() at line %s appends to a Route that still holds the links of the lookup of line %s: that segment ends up twice in the global route' % (e.line, used))
                    return (e.line, bad)
                return None
            ex4 = _arun(A, f, (None, None), tr4)
            sts = ex4['normal'] | ex4['throw']
            bad = sorted(set(x[1] for x in sts if x[1]))
            n4 += 1
            short = f['q'].replace('simgrid::kernel::routing::', '')
            ctx.check(bool(sts) and not bad, 'R4', '%s: the scratch route `%s` is empty at each local lookup' % (short, rv[2]), where(f), bad[0] if bad else '', key='R4|%s|fresh %s' % (short, rv[2]))
    ctx.require(n4 >= 3, 'R4', 'only %d scratch routes found' % n4)
    run_symmetrical(ctx, P, A)
    return EXPLANATION


def run_symmetrical(ctx, P, A):
    """R5: what add_route stores for a route declared symmetrical"""
    ctx.rule('R5', 'add_route of Full, Floyd and Dijkstra zones: the declared direction is stored at (src, dst) with the link list as given and the gateways as given; '
             'under `symmetrical` the opposite direction is stored at (dst, src) with the reversed link list and the gateways exchanged (Floyd: with predecessor = '
             'the origin of the stored direction, and the same cost)', 6)
    RTQ = 'simgrid::kernel::routing::'

    def strip(t):
        while t[0] in ('cast', 'conv') or (t[0] == 'ctor' and len(t[2]) == 1):
            t = t[2] if t[0] != 'ctor' else t[2][0]
        return t

    def endpoint(t):
        t = strip(t)
        if t[0] == 'call' and t[1].endswith('NetPoint::id') and t[2] is not None and strip(t[2])[0] == 'var':
            return strip(t[2])[2]
        return None

    def cell(t):
        """(table field, row endpoint, column endpoint) of `table_[a->id()][b->id()]`"""
        t = strip(t)
        if t[0] == 'call' and t[1].endswith('::operator[]') and t[2] is not None:
            inner = strip(t[2])
            if inner[0] == 'call' and inner[1].endswith('::operator[]') and inner[2] is not None and strip(inner[2])[0] == 'field':
                return (strip(inner[2])[2].rsplit('::', 1)[-1], endpoint(inner[3][0]), endpoint(t[3][0]))
        return None

    def route_args(t, env):
        for x in ex.subterms(t):
            if x[0] == 'call' and x[1].endswith('::new_extended_route') and len(x[3]) >= 4:
                gws = []
                for g in (x[3][1], x[3][2]):
                    g = strip(g)
                    gws.append(env.get(g, g)[2] if env.get(g, g)[0] == 'var' else ex.pretty(g))
                rev = None
                for y in ex.subterms(x[3][3]):
                    if y[0] == 'call' and y[1].endswith('::get_link_list_impl') and len(y[3]) >= 2 and y[3][1][0] == 'bool':
                        rev = y[3][1][1]
                return gws[0], gws[1], rev
        return None
    nz = 0
    for zone in ('FullZone', 'FloydZone', 'DijkstraZone'):
        fs = [f for f in P.fns.values() if f['q'] == RTQ + zone + '::add_route' and f.get('blocks')]
        if len(fs) != 1:
            ctx.unrecognised('R5', '%s::add_route: %d definitions' % (zone, len(fs)))
            continue
        f = fs[0]
        v = A.view(f)
        seen = {}
        for p in v.paths(max_visits=1):
            if p.exit in ('noreturn', 'cut', 'throw'):
                continue
            evs = v.path_events(p)
            env = {}
            sym = None
            gwboth = None
            stores = []
            preds = []
            for e in evs:
                if e.kind == 'branch':
                    if e.atom == ('truthy', lib.parm(f, 'symmetrical')):
                        sym = e.pol
                    continue
                if e.kind == 'assign' and strip(e.lhs)[0] == 'var' and strip(e.lhs)[1] in ('parm', 'local') and strip(e.rhs)[0] == 'var':
                    env[strip(e.lhs)] = env.get(strip(e.rhs), strip(e.rhs))
                    continue
                ra = None
                where_ = None
                if e.kind == 'assign':
                    c = cell(e.lhs)
                    if c and route_args(e.rhs, env):
                        ra, where_ = route_args(e.rhs, env), (c[1], c[2])
                    elif c and c[0].startswith('predecessor'):
                        preds.append(((c[1], c[2]), endpoint(e.rhs)))
                elif e.kind == 'call' and e.q.endswith('unique_ptr<simgrid::kernel::routing::Route>::operator=') or (e.kind == 'call' and e.q.endswith('::operator=') and e.obj is not None and cell(e.obj)):
                    c = cell(e.obj)
                    if c and e.args and route_args(e.args[0], env):
                        ra, where_ = route_args(e.args[0], env), (c[1], c[2])
                elif e.kind == 'call' and e.q.endswith('::new_edge') and len(e.args) == 3 and route_args(e.args[2], env):
                    ra, where_ = route_args(e.args[2], env), (endpoint(e.args[0]), endpoint(e.args[1]))
                if ra:
                    stores.append((where_, ra, e.line))
            sig = (sym, tuple((w_, r_) for w_, r_, _ in stores), tuple(preds))
            if sig in seen:
                continue
            seen[sig] = True
            fw = [x for x in stores if x[0] == ('src', 'dst')]
            bw = [x for x in stores if x[0] == ('dst', 'src')]
            other = [x for x in stores if x[0] not in (('src', 'dst'), ('dst', 'src'))]
            okf = len(fw) == 1 and fw[0][1] == ('gw_src', 'gw_dst', False) and not other
            ctx.check(okf, 'R5', '%s::add_route: the declared direction is stored at (src, dst), links as given, gateways as given' % zone, where(f, fw[0][2] if fw else None),
                      'stores: %s' % [(w_, r_) for w_, r_, _ in stores], key='R5|%s::add_route|declared direction' % zone)
            same = any(e.kind == 'branch' and e.atom[0] == 'bin' and e.atom[1] == '==' and sorted(strip(x)[2] for x in (e.atom[2], e.atom[3]) if strip(x)[0] == 'var') == ['dst', 'src'] and e.pol for e in evs)
            if sym and same:
                ctx.check(not bw or okf, 'R5', '%s::add_route: a route from a point to itself has no opposite direction' % zone, where(f), '', key='R5|%s::add_route|loop route' % zone)
            elif sym:
                # when a gateway is null both are (checked by add_route_check_params): an unswapped pair of null gateways is the same pair
                okb = len(bw) == 1 and bw[0][1][2] is True and (bw[0][1][:2] == ('gw_dst', 'gw_src') or (bw[0][1][:2] == ('gw_src', 'gw_dst') and any(
                    e.kind == 'branch' and e.atom[0] == 'truthy' and strip(e.atom[1])[0] == 'var' and strip(e.atom[1])[2] in ('gw_src', 'gw_dst') and not e.pol for e in evs)))
                ctx.check(okb, 'R5', '%s::add_route: a symmetrical route is also stored at (dst, src), links reversed, gateways exchanged' % zone, where(f, bw[0][2] if bw else None),
                          'stores for the opposite direction: %s' % [(w_, r_) for w_, r_, _ in bw], key='R5|%s::add_route|opposite direction' % zone)
                nz += 1
            elif sym is False:
                ctx.check(not bw, 'R5', '%s::add_route: nothing is stored at (dst, src) for a one-way route' % zone, where(f), '', key='R5|%s::add_route|one way' % zone)
            if preds:
                okp = all(p_[1] == p_[0][0] for p_ in preds)
                ctx.check(okp, 'R5', '%s::add_route: predecessor[a][b] = a for each stored direction' % zone, where(f), '%s' % preds, key='R5|%s::add_route|predecessor' % zone)
    ctx.require(nz >= 3, 'R5', 'symmetrical paths of the three add_route not all recognised (%d)' % nz)
