"""C18 — Concurrency limits are enforced without starvation (DESIGN.md 3, C18)."""
from .. import ex, lib, ir
from ..core import where
from ..ir import AnalysisBroken

SYS = 'simgrid::kernel::lmm::System'
VAR = 'simgrid::kernel::lmm::Variable'
CNS = 'simgrid::kernel::lmm::Constraint'
ELE = 'simgrid::kernel::lmm::Element'
EXPLANATION = ('CFG-path rules on lmm::System: the concurrency counter is written only by Element::increase/decrease_concurrency; '
               'enable_var/disable_var move each element between the enabled and disabled sets together with the matching counter '
               'update; every path of a System function that disables a variable (or frees one) afterwards offers the freed slots to '
               'staged variables through on_disabled_var on each constraint of that variable; staging happens only at zero slack and '
               'enabling only under can_enable(); disable_var zeroes penalty, staged penalty and value together.')


def run(ctx):
    hdr = ['src/kernel/lmm/System.hpp']
    units = ir.units_including(hdr)
    P = ctx.load([u for u in units])
    A = ctx.analyzer
    cur = CNS + '::concurrency_current_'
    cnsts = VAR + '::cnsts_'
    pen = VAR + '::sharing_penalty_'
    staged = VAR + '::staged_sharing_penalty_'
    value = VAR + '::value_'
    for q in (cur,):
        if not any(f[2] == q for f in lib.fields(P, CNS)):
            raise AnalysisBroken('field %s not found' % q)
    for q in (cnsts, pen, staged, value):
        if not any(f[2] == q for f in lib.fields(P, VAR)):
            raise AnalysisBroken('field %s not found' % q)

    # ---- R1 who writes the counter; set moves paired with counter updates --------------------------------------------------
    ctx.rule('R1', 'concurrency_current_ is written only by Element::increase_concurrency/decrease_concurrency; enable_var/disable_var pair each set move with the counter update', 4)
    for u in lib.field_uses(P, cur):
        if u.kind != 'write' or u.op == 'init':
            continue
        ok = u.fn['q'] in (ELE + '::increase_concurrency', ELE + '::decrease_concurrency')
        ctx.check(ok, 'R1', 'writer of concurrency_current_: %s' % u.fn['q'], where(u.fn, u.line), 'allowed' if ok else 'the counter is modified outside increase/decrease_concurrency', key='R1|%s|counter writer' % u.fn['q'])
    for name, from_set, to_set, op in (('enable_var', 'disabled_element_set_', 'enabled_element_set_', 'increase_concurrency'),
                                      ('disable_var', 'enabled_element_set_', 'disabled_element_set_', 'decrease_concurrency')):
        f = P.fn(SYS + '::' + name)
        v = A.view(f)
        n = 0
        for p in v.paths():
            if p.exit in ('noreturn', 'cut', 'throw'):
                continue
            ctx.count('paths')
            evs = v.path_events(p)
            loopvars = [e.lhs for e in evs if e.kind == 'assign' and e.decl and e.rhs[0] == 'call' and e.rhs[1].endswith('operator*')]
            if not loopvars:
                continue
            n += 1
            el = loopvars[0]
            er = [e for e in evs if e.kind == 'call' and e.q == 'simgrid::xbt::intrusive_erase' and len(e.args) == 2 and e.args[1] == el and e.args[0][0] == 'field' and e.args[0][2].endswith('::' + from_set)]
            ins = [e for e in evs if e.kind == 'call' and e.obj is not None and e.obj[0] == 'field' and e.obj[2].endswith('::' + to_set) and e.q.rsplit('::', 1)[-1] in ('push_front', 'push_back') and e.args == (el,)]
            cnt = [e for e in evs if e.kind == 'call' and e.q == ELE + '::' + op and e.obj == el]
            other = [e for e in evs if e.kind == 'call' and e.q in (ELE + '::increase_concurrency', ELE + '::decrease_concurrency') and e.q != ELE + '::' + op]
            ok = len(er) == 1 and len(ins) == 1 and len(cnt) == 1 and not other
            ctx.check(ok, 'R1', '%s: per element: leave %s, join %s, %s' % (name, from_set, to_set, op), where(f), 'erase x%d, insert x%d, %s x%d, opposite x%d' % (len(er), len(ins), op, len(cnt), len(other)),
                      key='R1|%s|set move pairing' % name)
        ctx.require(n >= 1, 'R1', '%s: element loop not recognised' % name)

    # the two counter functions are symmetric: += get_concurrency() / -= get_concurrency(), unconditionally; the slack is limit - current
    for nm, op in (('increase_concurrency', '+='), ('decrease_concurrency', '-=')):
        f = P.fn(ELE + '::' + nm)
        v = A.view(f)
        ws = set()
        npaths = 0
        for p_ in v.paths(max_visits=1, max_paths=400):
            if p_.exit in ('noreturn', 'cut', 'throw'):
                continue
            npaths += 1
            seq = []
            pevs = v.path_events(p_)
            for k_, e in enumerate(pevs):
                if e.kind == 'assign' and e.lhs[0] == 'field' and e.lhs[2] == cur:
                    rhs = e.rhs
                    for _ in range(3):
                        while rhs[0] in ('cast', 'conv'):
                            rhs = rhs[2]
                        if rhs[0] == 'var' and rhs[1] == 'local':
                            ds = [x for x in pevs[:k_] if x.kind == 'assign' and x.lhs == rhs]
                            if len(ds) == 1:
                                rhs = ds[0].rhs
                                continue
                        break
                    seq.append((e.op, rhs[0] == 'call' and rhs[1] == ELE + '::get_concurrency'))
            ws.add(tuple(seq))
        ws = sorted(ws)
        ok = npaths >= 1 and ws == [((op, True),)]
        ctx.check(ok, 'R1', 'Element::%s: concurrency_current_ %s get_concurrency(), unconditionally' % (nm, op), where(f), 'stores of the counter along the %d normally returning path(s) (operator, amount is get_concurrency()): %s' % (npaths, ws),
                  key='R1|%s|exact amount' % nm)
    gs = [f for f in P.fns.values() if f['q'].endswith('Constraint::get_concurrency_slack') and f.get('blocks')]
    ctx.require(len(gs) >= 1, 'R1', 'Constraint::get_concurrency_slack not found')
    for f in gs[:1]:
        v = A.view(f)
        rets = [e.val for eid in range(len(f['elems'])) for e in v.events_of(eid) if e.kind == 'return' and e.val is not None]
        diffs = [x for r in rets for x in ex.subterms(r) if x[0] == 'bin' and x[1] == '-']
        lim = [d for d in diffs if d[2][0] == 'field' and d[2][2].endswith('::concurrency_limit_') and d[3][0] == 'field' and d[3][2] == cur]
        ctx.check(len(diffs) == 1 and len(lim) == 1, 'R1', 'Constraint::get_concurrency_slack is concurrency_limit_ - concurrency_current_', where(f), 'differences: %s' % [ex.pretty(d) for d in diffs],
                  key='R1|get_concurrency_slack|limit minus current')
        big = [x for r in rets for x in ex.subterms(r) if (x[0] == 'call' and isinstance(x[1], str) and x[1].endswith('numeric_limits<int>::max')) or (x[0] == 'int' and x[1] >= 2147483647)]
        others = [r for r in rets if r[0] in ('int', 'float') and r[1] < 2147483647]
        ctx.check(len(big) >= 1 and not others, 'R1', 'Constraint::get_concurrency_slack: a negative limit (no limit) is reported as the largest slack', where(f),
                  'returned values: %s' % [ex.pretty(r) for r in rets], key='R1|get_concurrency_slack|no limit is maximal slack')

    # outside enable_var/disable_var the counter follows the enabledness of the variable: expand counts the element of an enabled variable exactly once (taking the old count
    # back first when it re-weights an element), var_free gives back one count per element of an enabled variable
    def pen_truth(a, pol, alias=None):
        """a branch on the sharing penalty: True = the variable is enabled, False = it is not, None = another test.  alias: locals holding such a test"""
        if a[0] == 'truthy' and a[1][0] == 'field' and a[1][2] == pen:
            return pol
        if a[0] == 'truthy' and alias and a[1] in alias:
            a2, p2 = alias[a[1]]
            return pen_truth(a2, pol == p2)
        if a[0] == 'bin' and a[2][0] == 'field' and a[2][2] == pen and a[3][0] in ('int', 'float') and a[3][1] == 0:
            if a[1] in ('==', '<='):
                return not pol
            if a[1] in ('!=', '>'):
                return pol
        return None

    def counter_walk(f):
        """per feasible normal path: (enabled?, events) with events = ('inc'|'dec'|'test', line); tests after a disable_var call are about another state and dropped"""
        v = A.view(f)
        res = []
        for p_ in v.paths(max_visits=2, max_paths=20000):
            if p_.exit in ('noreturn', 'cut', 'throw'):
                continue
            ctx.count('paths')
            truths = set()
            seq = []
            live = True
            alias = {}
            for e in v.path_events(p_):
                if e.kind == 'assign' and e.lhs[0] == 'var' and live:
                    try:
                        a2, p2 = ex.atom(e.rhs)
                    except Exception:
                        a2 = None
                    if a2 is not None and pen_truth(a2, True) is not None:
                        alias[e.lhs] = (a2, p2)
                    else:
                        alias.pop(e.lhs, None)
                if e.kind == 'branch' and live:
                    t = pen_truth(e.atom, e.pol, alias)
                    if t is not None:
                        truths.add(t)
                        seq.append(('test' if t else 'ntest', e.line))
                    elif any(x[0] == 'call' and isinstance(x[1], str) and x[1].startswith(VAR + '::') for x in ex.subterms(e.atom)):
                        seq.append(('utest', e.line))     # a test of the variable through one of its methods: not read by this rule
                elif e.kind == 'assign' and e.decl and e.rhs[0] == 'call' and isinstance(e.rhs[1], str) and e.rhs[1].endswith('operator*'):
                    seq.append(('iter', e.line))
                elif e.kind == 'call':
                    if e.q in (SYS + '::expand_add_to_elem', SYS + '::expand_create_elem'):
                        seq.append((e.q.rsplit('::', 1)[-1], e.line))
                    if e.q == ELE + '::increase_concurrency':
                        seq.append(('inc', e.line))
                    elif e.q == ELE + '::decrease_concurrency':
                        seq.append(('dec', e.line))
                    elif e.q == SYS + '::disable_var':
                        live = False
            if len(truths) == 2:
                continue   # the penalty is not written in between: the two tests agree
            res.append((truths.pop() if truths else None, seq))
        return res
    f = P.fn(SYS + '::expand')
    bad = None
    npaths = 0
    unrec = False
    for enabled, seq in counter_walk(f):
        npaths += 1
        incs = [i for i, x in enumerate(seq) if x[0] == 'inc']
        decs = [i for i, x in enumerate(seq) if x[0] == 'dec']
        if enabled is None:
            unrec = True    # the enabledness is tested in a form this rule does not read (a helper, another member): not a verdict
        elif enabled and not (len(incs) == 1 and len(decs) == (1 if any(x[0] == 'expand_add_to_elem' for x in seq) else 0) and all(d < incs[0] for d in decs)):
            bad = bad or ('enabled variable, %s element: %d increase(s), %d decrease(s)' % ('re-weighted' if any(x[0] == 'expand_add_to_elem' for x in seq) else 'new', len(incs), len(decs)), seq)
        elif not enabled and (incs or decs):
            bad = bad or ('disabled variable: the counter is touched', seq)
    ctx.require(npaths >= 2 and not unrec, 'R1', 'System::expand: a path does not test sharing_penalty_ directly; the enabledness test is not recognised')
    ctx.check(bad is None, 'R1', 'System::expand: the element of an enabled variable is counted exactly once (an old count is given back first), that of a disabled one never',
              where(f, bad[1][-1][1] if bad and bad[1] else None), '%s along %s' % bad if bad else '%d feasible normal path(s)' % npaths, key='R1|expand|counter follows enabledness')
    f = P.fn(SYS + '::var_free')
    bad = None
    npaths = 0
    niter = 0
    unrec_vf = False
    for enabled, seq in counter_walk(f):
        npaths += 1
        its = []
        for x in seq:
            if x[0] == 'iter':
                its.append([])
            elif its:
                its[-1].append(x[0])
            elif x[0] in ('inc', 'dec'):
                bad = bad or ('a counter update outside the element loop', seq)
        niter += len(its)
        for it in its:
            if 'utest' in it and 'test' not in it and 'ntest' not in it:
                unrec_vf = True
                continue
            it = [x for x in it if x != 'utest']
            # each element: the positive test directly followed by its decrease, or the negative test and nothing
            if it not in (['test', 'dec'], ['ntest']):
                bad = bad or ('one element sees %s' % (it or 'no test of the penalty and no counter update'), seq)
    ctx.require(npaths >= 2 and niter >= 1 and not unrec_vf, 'R1', 'System::var_free: element loop or enabledness test not recognised')
    ctx.check(bad is None, 'R1', 'System::var_free: one count is given back per element of an enabled variable, none otherwise', where(f, bad[1][-1][1] if bad and bad[1] else None),
              '%s' % bad[0] if bad else '%d feasible normal path(s)' % npaths, key='R1|var_free|counter follows enabledness')

    # ---- R2 every slot release is followed by on_disabled_var on each constraint of the variable -----------------------------
    ctx.rule('R2', 'every path of a System function that calls disable_var(v) then runs on_disabled_var(e.constraint) for each element e of v before returning', 2)
    sysfns = [f for f in P.methods_of(SYS) if f.get('blocks')]
    callers = 0
    for f in sorted(sysfns, key=lambda x: x['q']):
        if f['q'] in (SYS + '::disable_var',):
            continue
        v = A.view(f)
        try:
            paths = v.paths()
        except AnalysisBroken as e:
            ctx.unrecognised('R2', str(e))
            continue
        done = set()
        for p in paths:
            if p.exit in ('noreturn', 'cut', 'throw'):
                continue
            evs = v.path_events(p)
            idx = [i for i, e in enumerate(evs) if e.kind == 'call' and e.q == SYS + '::disable_var']
            if not idx:
                continue
            i = idx[-1]
            var = evs[i].args[0]
            after = evs[i + 1:]
            rng = [j for j, e in enumerate(after) if e.kind == 'assign' and e.decl and e.lhs[0] == 'var' and e.lhs[2].startswith('__range') and e.rhs == ('field', var, cnsts)]
            lvs = [e.lhs for e in after if e.kind == 'assign' and e.decl and e.rhs[0] == 'call' and e.rhs[1].endswith('operator*')]
            odv = [e for e in after if e.kind == 'call' and e.q == SYS + '::on_disabled_var' and e.args and e.args[0][0] == 'field' and e.args[0][1] in lvs and e.args[0][2].endswith('::constraint')]
            ok = bool(rng) and len(odv) == len(lvs)
            sig = (evs[i].line, bool(rng), len(lvs), len(odv))
            if sig in done:
                continue
            done.add(sig)
            callers += 1
            short = f['q'].rsplit('::', 1)[-1]
            ctx.check(ok, 'R2', '%s: disable_var(%s) at line %d, path visiting %d element(s)' % (short, ex.pretty(var), evs[i].line, len(lvs)), where(f, evs[i].line),
                      ('followed by on_disabled_var on each constraint' if ok else 'the freed concurrency slots are never offered to staged variables: no traversal of %s.cnsts_ calling on_disabled_var after disable_var (range traversal found: %s, on_disabled_var calls: %d)' % (ex.pretty(var), bool(rng), len(odv))),
                      key='R2|%s|disable_var without on_disabled_var' % short)
    ctx.require(callers >= 2, 'R2', 'callers of disable_var not recognised (%d)' % callers)
    vf = P.fn(SYS + '::var_free')
    v = A.view(vf)
    n = 0
    for p in v.paths():
        if p.exit in ('noreturn', 'cut', 'throw'):
            continue
        evs = v.path_events(p)
        lvs = [e.lhs for e in evs if e.kind == 'assign' and e.decl and e.rhs[0] == 'call' and e.rhs[1].endswith('operator*')]
        if not lvs:
            continue
        n += 1
        el = lvs[0]
        odv = [e for e in evs if e.kind == 'call' and e.q == SYS + '::on_disabled_var' and e.args == (('field', el, ELE + '::constraint'),)]
        ina = [e for e in evs if e.kind == 'call' and e.q == SYS + '::make_constraint_inactive' and e.args == (('field', el, ELE + '::constraint'),)]
        ctx.check(len(odv) + len(ina) == 1, 'R2', 'var_free: each element\'s constraint is either deactivated (no element left) or offered to staged variables', where(vf),
                  'on_disabled_var x%d, make_constraint_inactive x%d' % (len(odv), len(ina)), key='R2|var_free|slot release')
    ctx.require(n >= 2, 'R2', 'var_free: element loop not recognised')

    # ---- R3 staging only at zero slack, enabling only when allowed ------------------------------------------------------------
    ctx.rule('R3', 'update_variable_penalty stages instead of enabling only when the minimum concurrency slack is 0; on_disabled_var enables only staged variables that can_enable()', 3)
    uvp = P.fn(SYS + '::update_variable_penalty')
    v = A.view(uvp)
    nst = 0
    for p in v.paths():
        if p.exit in ('noreturn', 'cut', 'throw'):
            continue
        evs = v.path_events(p)
        st = [i for i, e in enumerate(evs) if e.kind == 'assign' and e.lhs[0] == 'field' and e.lhs[2] == staged and e.rhs != ('int', 0) and e.rhs != ('float', 0.0)]
        if not st:
            continue
        en = [e for e in evs if e.kind == 'call' and e.q == SYS + '::enable_var']
        slack0 = None
        slackvars = [e.lhs for e in evs if e.kind == 'assign' and e.rhs[0] == 'call' and e.rhs[1] == VAR + '::get_min_concurrency_slack']
        other_form = None
        for e in evs[st[0]:]:
            if e.kind != 'branch' or not any(ex.mentions(e.atom, sv) for sv in slackvars):
                continue
            if e.atom[0] == 'truthy' and e.atom[1] in slackvars:
                slack0 = not e.pol   # atom is `minslack != 0`
            else:
                lf = lib.int_lt0(e.atom, e.pol)
                sv = slackvars[0]
                if lf == (frozenset({(sv, 1)}), -1):      # minslack < 1  (== 0 for a non-negative slack)
                    slack0 = True
                elif lf == (frozenset({(sv, -1)}), 0):    # minslack >= 1
                    slack0 = False
                else:
                    other_form = (e, lf)
        if other_form is not None:
            nst += 1
            ctx.violation('R3', 'update_variable_penalty: staging decided by %s' % ex.pretty(other_form[0].atom), where(uvp, other_form[0].line),
                          'a variable must be staged (not enabled) exactly when the minimum concurrency slack is 0; this test uses another threshold', key='R3|update_variable_penalty|staging threshold')
            continue
        if slack0 is None:
            ctx.unrecognised('R3', 'update_variable_penalty: slack test not recognised on a staging path')
            continue
        nst += 1
        ctx.check((len(en) == 0) == slack0, 'R3', 'update_variable_penalty: staged without enabling iff min slack == 0 (slack==0: %s)' % slack0, where(uvp), 'enable_var x%d' % len(en), key='R3|update_variable_penalty|staging')
    ctx.require(nst >= 2, 'R3', 'staging paths not recognised')
    odvf = P.fn(SYS + '::on_disabled_var')
    v = A.view(odvf)
    nen = 0
    for p in v.paths():
        if p.exit in ('noreturn', 'throw'):
            continue
        evs = v.path_events(p)
        for ev, facts in lib.facts_walk(evs):
            if ev.kind == 'call' and ev.q == SYS + '::enable_var':
                nen += 1
                varx = ev.args[0]
                can = facts.get(lib.truthy(('call', VAR + '::can_enable', varx, ())))
                stg = [t for a, t in facts.items() if a[0] == 'bin' and a[1] == '<=' and a[2] == ('field', varx, staged) and a[3] in (('int', 0), ('float', 0.0))]
                ctx.check(can is True and stg == [False], 'R3', 'on_disabled_var enables %s only when staged and can_enable()' % ex.pretty(varx), where(odvf, ev.line), 'can_enable=%s staged>0=%s' % (can, stg), key='R3|on_disabled_var|enable guard')
                break
    ctx.require(nen >= 1, 'R3', 'on_disabled_var: enable site not found')

    # ---- R4 disable zeroes everything --------------------------------------------------------------------------------------------
    ctx.rule('R4', 'disable_var zeroes sharing_penalty_, staged_sharing_penalty_ and value_ on every path', 1)
    dv = P.fn(SYS + '::disable_var')
    v = A.view(dv)
    var = lib.parm_i(dv, 0)
    for p in v.paths():
        if p.exit in ('noreturn', 'cut', 'throw'):
            continue
        evs = v.path_events(p)
        z = {}
        for e in evs:
            if e.kind == 'assign' and e.lhs[0] == 'field' and e.lhs[1] == var and e.lhs[2] in (pen, staged, value):
                z[e.lhs[2]] = e.rhs in (('int', 0), ('float', 0.0))
        ctx.check(z == {pen: True, staged: True, value: True}, 'R4', 'disable_var path zeroes the three fields', where(dv), str({k.rsplit('::', 1)[-1]: v_ for k, v_ in z.items()}), key='R4|disable_var|zeroing')

    # ---- R5 the scan of on_disabled_var survives the enabling of the current element -----------------------------------------------------------
    ctx.rule('R5', 'on_disabled_var: the successor of the scanned element is read from the disabled set before enable_var() can move the element out of it', 1)
    from ..cfg import abstract_run as _arun
    odv = P.fn(SYS + '::on_disabled_var')

    def reads_link(e):
        # the position of an element in disabled_element_set_: iterator_to(*elem) on that set, or the state of its hook
        if e.kind == 'call' and e.q.endswith('::iterator_to') and e.obj is not None and 'disabled_element_set_' in repr(e.obj):
            return True
        if e.kind == 'call' and e.q.endswith('::is_linked') and e.obj is not None and 'disabled_element_set_hook' in repr(e.obj):
            return True
        if e.kind == 'branch' and 'disabled_element_set_hook' in repr(e.atom) and 'is_linked' in repr(e.atom):
            return True
        return False

    def tr5(st, e):
        moved, bad = st
        if e.kind == 'call' and e.q == SYS + '::enable_var':
            return (e.line, bad)
        if e.kind == 'assign' and e.lhs[0] == 'var' and e.lhs[2] == 'elem' and not e.decl:
            return (None, bad)      # the cursor now designates another element
        if moved and reads_link(e):
            return (moved, bad or 'the link of the scanned element in disabled_element_set_ is read at line %s after enable_var() (line %s) may have moved it to the enabled set: '
                                  'the scan then stops and the other staged variables stay staged although there is room' % (e.line, moved))
        return None
    ex5 = _arun(A, odv, (None, None), tr5)
    sts5 = ex5['normal']
    bad5 = sorted(set(s_[1] for s_ in sts5 if s_[1]))
    has_enable = any(e.kind == 'call' and e.q == SYS + '::enable_var' for eid in range(len(odv['elems'])) for e in A.view(odv).events_of(eid))
    ctx.check(bool(sts5) and has_enable and not bad5, 'R5', 'on_disabled_var reads the next element before enabling the current one', where(odv), bad5[0] if bad5 else '', key='R5|on_disabled_var|successor before enable')

    # ---- R6 a recycled variable starts clean --------------------------------------------------------------------------------------------------------
    ctx.rule('R6', 'lmm variables are recycled through a mallocator (their constructor runs once): Variable::initialize stores every arithmetic or pointer member of the class on every '
             'path, so that nothing of the previous life of the object - a staged penalty in particular - survives', 6)
    VQ = SYS.rsplit('::', 1)[0] + '::Variable'
    vn = P.fn(SYS + '::variable_new')
    vnv = A.view(vn)
    recycled = any(e.kind == 'call' and 'mallocator' in e.q.lower() for eid in range(len(vn['elems'])) for e in vnv.events_of(eid))
    ini = P.fn(VQ + '::initialize')
    iv = A.view(ini)
    skip = {'backtrace_': 'debug aid, has a default member initialiser and is deleted by var_free'}
    members = [(n_, t_, q_) for n_, t_, q_ in lib.fields(P, VQ) if (t_.endswith('*') or t_ in ('double', 'int', 'unsigned int', 'unsigned', 'bool', 'long', 'unsigned long', 'float')) and 'hook' not in n_]
    ctx.require(len(members) >= 6, 'R6', 'members of lmm::Variable not found (%d)' % len(members))
    if not recycled:
        ctx.holds('R6', 'variable_new does not take its objects from a mallocator: nothing to reset', where(vn), '')
    else:
        paths = [p for p in iv.paths() if p.exit not in ('noreturn', 'cut', 'throw')]
        for n_, t_, q_ in members:
            if n_ in skip:
                ctx.holds('R6', 'Variable::%s: %s' % (n_, skip[n_]), where(ini), 'listed exception')
                continue
            ok = bool(paths) and all(any(e.kind == 'assign' and e.op == '=' and e.lhs == lib.this_field(q_) for e in iv.path_events(p)) for p in paths)
            ctx.check(ok, 'R6', 'Variable::initialize stores %s' % n_, where(ini), '' if ok else
                      'a recycled variable keeps the %s of the variable that owned the object before (a default member initialiser only acts when the object is constructed)' % n_,
                      key='R6|initialize|%s' % n_)
    return EXPLANATION
