"""C36 — Per-rank globals (DESIGN.md 3, C36): the data segment is switched on every resumption and before every kernel-side copy."""
from .. import ex, lib
from ..cfg import abstract_run
from ..core import where
from ..ir import AnalysisBroken

UNITS = ['src/kernel/actor/ActorImpl.cpp', 'src/smpi/internals/smpi_global.cpp', 'src/smpi/internals/smpi_memory.cpp', 'src/smpi/mpi/smpi_datatype.cpp',
         'src/smpi/mpi/smpi_op.cpp', 'src/smpi/mpi/smpi_request.cpp', 'src/smpi/internals/smpi_bench.cpp']
SW = 'smpi_switch_data_segment'
EXPLANATION = ('R1: in ActorImpl::yield every normal return after the context switch passes through smpi_switch_data_segment(self) unless the actor is '
               'dying (finite-state exploration).  R2: each kernel-side copy of user buffers is preceded on its path by a switch to the owner of the '
               'buffer: the copy callback switches to the source actor before saving the private blocks and to the destination actor before the '
               'final copy; the detached-send duplication switches to the sender; the unserialisation on completion, Datatype::copy and Op::apply '
               'switch to the current actor first.  R3: smpi_switch_data_segment remaps (mmap at the fixed address and records the loaded page) on '
               'every path on which the loaded page is not the requested actor\'s, and skips the work only when it already is.')


def run(ctx):
    P = ctx.load(UNITS)
    A = ctx.analyzer
    # ---- R1 ------------------------------------------------------------------------------------------------------------------------------------
    ctx.rule('R1', 'ActorImpl::yield: every normal return after context_->suspend() switches the data segment to this actor (unless dying)', 1)
    yf = P.fn('simgrid::kernel::actor::ActorImpl::yield')

    def tr(st, e):
        resumed, switched, dying, bad = st
        if e.kind == 'call' and e.q.endswith('Context::suspend'):
            return (True, False, None, bad)
        if not resumed:
            return None
        if e.kind == 'call' and e.q == 'simgrid::kernel::actor::ActorImpl::yield':
            return (True, True, dying, bad)     # the recursive yield ends by the same switch (checked on its own paths)
        if e.kind == 'branch' and e.atom[0] == 'truthy' and e.atom[1][0] == 'call' and e.atom[1][1].endswith('::wannadie'):
            return (resumed, switched, e.pol, bad)
        if e.kind == 'call' and e.q == SW and e.args and e.args[0][0] == 'call' and e.args[0][1].endswith('::get_iface') and e.args[0][2] == ('this',):
            return (resumed, True, dying, bad)
        return None
    exits = abstract_run(A, yf, (False, False, None, None), tr)
    sts = exits['normal']
    bad = [s for s in sts if s[0] and not s[1] and s[2] is not True]
    ctx.check(bool(sts) and not bad, 'R1', 'yield(): normal returns pass through smpi_switch_data_segment(get_iface())', where(yf), 'exit states (resumed, switched, dying) %s' % sorted(set(s[:3] for s in sts), key=repr),
              key='R1|yield|switch on resume')
    ctx.notes.append('the exceptional return of yield() (kernel-posted exception) does not switch: the MPI entry points that block re-switch through the destructor of their SmpiBenchGuard while the '
                     'exception unwinds; entry points without a guard (PMPI_Cart_sub, PMPI_Wtime, PMPI_Init/Finalize/Abort...) are not decided - an MPI program cannot catch that exception')

    # ---- R2 --------------------------------------------------------------------------------------------------------------------------------------
    ctx.rule('R2', 'every kernel-side copy of a user buffer is preceded on its path by a data-segment switch to the owner of that buffer', 5)
    cb = P.fn('smpi_comm_copy_buffer_callback')
    v = A.view(cb)
    ok = None
    n = 0
    for p in v.paths(max_visits=1):
        if p.exit in ('noreturn', 'cut'):
            continue
        evs = v.path_events(p)
        seq = []
        for e in evs:
            if e.kind == 'call' and e.q == SW:
                who = 'src' if 'src_actor_' in repr(e.args[0]) else ('dst' if 'dst_actor_' in repr(e.args[0]) else '?')
                seq.append(('switch', who))
            if e.kind == 'call' and e.q == 'memcpy_private':
                kind = 'to_tmp' if (e.args[0][0] == 'var' and 'tmpbuff' in e.args[0][2]) else ('to_dst' if 'dst_buff_' in repr(e.args[0]) else '?')
                seq.append(('copy', kind))
        if not any(s[0] == 'copy' for s in seq):
            continue
        n += 1
        last = None
        good = True
        for s in seq:
            if s[0] == 'switch':
                last = s[1]
            else:
                good = good and ((s[1] == 'to_tmp' and last == 'src') or (s[1] == 'to_dst' and last == 'dst'))
        ok = good if ok is None else (ok and good)
    ctx.check(bool(ok) and n >= 1, 'R2', 'copy callback: switch(src actor) before saving from the source, switch(dst actor) before writing the destination', where(cb), '%d copying path shape(s)' % n,
              key='R2|smpi_comm_copy_buffer_callback|owner switch')

    def switch_before(fq, sink_pred, who_pred, label, nparams=None):
        f = P.fn(fq, nparams)
        vv = A.view(f)

        def t2(st, e):
            sw, bad = st
            if e.kind == 'call' and e.q == SW and who_pred(e):
                return (True, bad)
            if sink_pred(e) and not sw:
                return (sw, bad or e.line)
            return None
        ex2 = abstract_run(A, f, (False, None), t2)
        sts2 = ex2['normal'] | ex2['throw']
        badl = sorted(set(s[1] for s in sts2 if s[1]))
        # the sink must exist
        has = any(sink_pred(e) for eid in range(len(f['elems'])) for e in vv.events_of(eid))
        ctx.check(has and not badl, 'R2', label, where(f, badl[0] if badl else None), 'copy at line %s is reachable without a switch' % badl if badl else '', key='R2|%s|switch first' % fq.rsplit('::', 1)[-1])
    self_pred = lambda e: e.args and 'Actor::self' in repr(e.args[0])   # noqa: E731
    switch_before('simgrid::smpi::Datatype::copy', lambda e: e.kind == 'call' and (e.q in ('memcpy', 'std::memcpy') or e.q.endswith('::serialize') or e.q.endswith('::unserialize')), self_pred,
                  'Datatype::copy switches to the current actor before touching the buffers')
    switch_before('simgrid::smpi::Op::apply', lambda e: e.kind == 'call' and (e.q == '<indirect>' or 'func_' in repr(e.nf)), self_pred,
                  'Op::apply switches to the current actor before calling the reduction kernel')
    # detached send duplication and unserialisation in smpi_request.cpp
    rq = [f for f in P.fns.values() if f['q'] in ('simgrid::smpi::Request::start', 'simgrid::smpi::Request::finish_wait') and f.get('blocks')]
    for f in rq:
        vv = A.view(f)
        if f['q'].endswith('::start'):
            sink = lambda e: e.kind == 'call' and e.q in ('memcpy', 'std::memcpy') and 'oldbuf' in repr(e.args[1])   # noqa: E731
            who = lambda e: e.args and 'by_pid' in repr(e.args[0]) and 'src_' in repr(e.args[0])   # noqa: E731
            label = 'Request::start: the detached-send copy of the user buffer follows a switch to the sender'
        else:
            sink = lambda e: e.kind == 'call' and (e.q.endswith('::unserialize') or e.q.endswith('Op::apply')) and 'old_buf_' in repr(e.args)   # noqa: E731
            who = self_pred
            label = 'Request::finish_wait: unserialisation / accumulate into the user buffer follows a switch to the current actor'

        def t3(st, e, sink=sink, who=who):
            sw, bad = st
            if e.kind == 'call' and e.q == SW and who(e):
                return (True, bad)
            if sink(e) and not sw:
                return (sw, bad or e.line)
            return None
        ex3 = abstract_run(A, f, (False, None), t3)
        badl = sorted(set(s[1] for s in (ex3['normal'] | ex3['throw']) if s[1]))
        has = any(sink(e) for eid in range(len(f['elems'])) for e in vv.events_of(eid))
        ctx.check(has and not badl, 'R2', label, where(f, badl[0] if badl else None), '' if not badl else 'line %s reachable without the switch' % badl, key='R2|%s|switch first' % f['q'].rsplit('::', 1)[-1])
    ctx.require(len(rq) == 2, 'R2', 'Request::start / finish_wait not found')

    # ---- R3 ---------------------------------------------------------------------------------------------------------------------------------------
    ctx.rule('R3', 'smpi_switch_data_segment remaps unless the loaded page already belongs to the requested actor; it maps that actor\'s region; an address is concerned iff it lies in [start, start + size)', 3)
    sw = P.fn(SW)
    v = A.view(sw)
    shapes = set()
    for p in v.paths():
        if p.exit in ('noreturn', 'cut'):
            continue
        evs = v.path_events(p)
        same = [e.pol for e in evs if e.kind == 'branch' and e.atom[0] == 'bin' and e.atom[1] == '==' and 'smpi_loaded_page' in repr(e.atom)]
        mm = [e for e in evs if e.kind == 'call' and e.q == 'mmap']
        rec = [e for e in evs if e.kind == 'assign' and e.lhs[0] == 'var' and e.lhs[2] == 'smpi_loaded_page' and not e.decl]
        ret = [e.val for e in evs if e.kind == 'return']
        if not same:
            continue
        fixed = bool(mm) and 'MAP_FIXED' in repr(mm[0].args) or (bool(mm) and any(a[0] == 'int' and (a[1] & 0x10) for a in ex.subterms(mm[0].args[3]) if a[0] == 'int'))
        okrec = bool(rec) and 'get_pid' in repr(rec[0].rhs)
        shapes.add((same[0], bool(mm), fixed if mm else None, okrec if rec else None, ret[0] if ret else None))
    want_same = [s for s in shapes if s[0] is True]
    want_diff = [s for s in shapes if s[0] is False]
    ok3 = bool(want_same) and bool(want_diff) and all(not s[1] and s[4] == ('bool', True) for s in want_same) and all(s[1] and s[2] and s[3] and s[4] == ('bool', True) for s in want_diff)
    ctx.check(ok3, 'R3', 'smpi_switch_data_segment: loaded == requested -> nothing to do; otherwise mmap(MAP_FIXED) the actor\'s region and record it', where(sw), 'path shapes %s' % sorted(shapes, key=repr),
              key='R3|smpi_switch_data_segment|remap')
    # whose region is mapped, and which addresses are concerned
    actor_p = lib.parm_i(sw, 0)
    okfd = None
    for p in v.paths():
        if p.exit in ('noreturn', 'cut'):
            continue
        evs = v.path_events(p)
        mm = [e for e in evs if e.kind == 'call' and e.q == 'mmap']
        if not mm:
            continue
        env = {}
        for e in evs:
            if e.kind == 'assign' and e.lhs[0] == 'var':
                env[e.lhs] = e.rhs

        def res(t, d=0):
            while t[0] in ('cast', 'conv'):
                t = t[2]
            if t[0] == 'var' and t in env and d < 6:
                return res(env[t], d + 1)
            if t[0] == 'field':
                return ('field', res(t[1], d + 1), t[2])
            if t[0] == 'call':
                return ('call', t[1], res(t[2], d + 1) if t[2] is not None else None, tuple(res(a, d + 1) for a in t[3]))
            return t
        fd = res(mm[0].args[4]) if len(mm[0].args) > 4 else ('none',)
        good = any(x[0] == 'call' and x[1].endswith('smpi_process_remote') and x[3] and ex.mentions(x[3][0], actor_p) for x in ex.subterms(fd)) and 'file_descriptor' in repr(fd)
        okfd = good if okfd is None else (okfd and good)
    ctx.check(bool(okfd), 'R3', 'smpi_switch_data_segment maps the privatised region of the requested actor (smpi_process_remote(actor))', where(sw), '', key='R3|smpi_switch_data_segment|whose region')
    rng = None
    for b in v.blocks:
        c = v.cond_elem(b['id'])
        if c is None:
            continue
        t = v.norm(c)
        for x in ex.subterms(t):
            if x[0] == 'bin' and x[1] in ('<', '<=') and 'smpi_data_exe_size' in repr(x):
                up = x[3]
                while up[0] in ('cast', 'conv'):
                    up = up[2]
                ops = []
                if up[0] == 'bin' and up[1] == '+':
                    for y in (up[2], up[3]):
                        while y[0] in ('cast', 'conv'):
                            y = y[2]
                        ops.append(y[2] if y[0] == 'var' else ex.pretty(y))
                good = x[1] == '<' and sorted(ops) == ['smpi_data_exe_size', 'smpi_data_exe_start'] and 'addr' in repr(x[2])
                rng = good if rng is None else (rng and good)
    ctx.check(bool(rng), 'R3', 'smpi_switch_data_segment: an address is concerned iff start <= addr < start + size of the data segment', where(sw), '', key='R3|smpi_switch_data_segment|address range')
    # ---- R4 the data segment is located by comparing the memory map before and after the application is loaded ------------------------------
    ctx.rule('R4', 'mmap privatisation set-up: smpi_prepare_global_memory_segment() (snapshot of the memory map) runs before dlopen() of the application, smpi_backup_global_memory_segment() after it', 1)
    ip = [f for f in P.fns.values() if f['q'].endswith('smpi_init_privatization_no_dlopen') and f.get('blocks')]
    if len(ip) != 1:
        ctx.unrecognised('R4', 'smpi_init_privatization_no_dlopen: %d definitions' % len(ip))
    else:
        f4 = ip[0]

        def is_mmap_atom(a):
            return a[0] == 'bin' and a[1] == '==' and 'smpi_cfg_privatization' in repr(a) and 'MMAP' in repr(a)

        def tr4(st, e):
            mm, seq, bad = st
            if e.kind == 'branch' and is_mmap_atom(e.atom):
                if mm is not None and mm != e.pol:
                    return set()
                return (e.pol, seq, bad)
            if e.kind == 'call':
                nm = e.q.rsplit('::', 1)[-1]
                if nm in ('smpi_prepare_global_memory_segment', 'dlopen', 'smpi_backup_global_memory_segment'):
                    tag = {'smpi_prepare_global_memory_segment': 'P', 'dlopen': 'D', 'smpi_backup_global_memory_segment': 'B'}[nm]
                    return (mm, seq + tag, bad)
            return None
        ex4 = abstract_run(A, f4, (None, '', None), tr4)
        seqs = sorted(set(x[1] for x in ex4['normal'] if x[0] is True))
        ok4 = bool(seqs) and all(sq == 'PDB' for sq in seqs)
        ctx.check(ok4, 'R4', 'smpi_init_privatization_no_dlopen (mmap): prepare, dlopen, backup in that order', where(f4),
                  'sequence(s) under mmap privatisation: %s%s' % (seqs, '' if ok4 else ' - the snapshot taken after the application is loaded already contains its segments, so the size of the data+bss '
                                                                  'segment to privatise is computed wrong and part of the globals stays shared by all ranks'), key='R4|smpi_init_privatization_no_dlopen|snapshot before load')
    ctx.assume('dlopen privatisation is link-time duplication and is not covered; correctness of the mapping (file descriptors, segment bounds) is not decided')
    return EXPLANATION
