"""C02 — Outcome does not depend on context factory or worker threads (DESIGN.md 3, C02): the hand-off structure."""
from .. import cfg, cg, ex, lib
from ..cfg import LOG_MACROS
from ..core import where, EXCLUDED_UNITS
from ..ir import AnalysisBroken, REPO

K = 'simgrid::kernel::'
CX = K + 'context::'
EI = K + 'EngineImpl'
AC = K + 'actor::ActorImpl'
EXPLANATION = ('Sibling agreement of the run_all implementations (thread serial/parallel, swapped serial/parallel): every actor of the run list is '
               'handed exactly one turn, in list order in the serial variants (range-for release+wait; the index chain process_index_ = 1, '
               'i = process_index_++, i < count in SwappedContext::suspend), and run_all returns to maestro only after every actor yielded; maestro '
               'passes its own run list.  Who-may-call over all library units: ActorImpl::simcall_handle is called only by the '
               'sequential loop of EngineImpl::run, by the simcall entry point under is_maestro(self), and by the model-checking side; no '
               'context, factory or parmap function calls simcall_handle, simcall_answer or the run-list insertion.')


def range_loops(P, A, f):
    """[(head block, body blocks, range normal form, calls in body in order)] of the range-for loops of f"""
    v = A.view(f)
    out = []
    for h in v.loop_heads():
        if h['t'].get('k') != 'CXXForRangeStmt':
            continue
        rng = [d for el in f['elems'] if el['x'].get('k') == 'Decl' and el.get('l') == h['t'].get('l') for d in el['x'].get('decls', ())
               if d.get('d', {}).get('n', '').startswith('__range') and d.get('init') is not None]
        body = cg.natural_loop(v, h['id'])
        calls = []
        for b in sorted(body, reverse=True):
            for eid in v.blocks[b].get('e', []):
                for e in v.events_of(eid):
                    if e.kind == 'call':
                        calls.append(e)
        conds = [b for b in body if len(v.succs(b)) > 1 and not v.is_log_branch(b)]
        out.append((h, body, v.norm(rng[0]['init']) if rng else None, calls, conds))
    return out


def run_thread_handoff(ctx, P, A):
    """R5/R6: the hand-off of the thread factory.  A worker slot (ParallelThreadContext::thread_sem_, contexts/nthreads of them) is taken by start_hook() and
    given back by yield_hook(); an actor thread that waits for maestro (begin_.acquire()) or ends while holding its slot starves the other actors as soon as
    nthreads of them did so, and only with the thread factory and nthreads > 1."""
    TC = CX + 'ThreadContext::'
    ctx.rule('R5', 'an actor thread never waits for maestro and never ends while holding a worker slot: on every path of wrapper/suspend/attach_start/attach_stop '
             '(start() and yield() inlined) begin_.acquire() is reached with the slot given back (yield_hook() after the last start_hook()), and wrapper and '
             'attach_stop return with the slot given back', 4)
    entries = {TC + 'wrapper': ('free', 'free'), TC + 'suspend': ('held', None), TC + 'attach_start': ('free', None), TC + 'attach_stop': ('held', 'free')}
    hooks = 0
    for q, (init, want) in sorted(entries.items()):
        f = P.fn(q)
        bad = []
        seen = {'start_hook': 0, 'yield_hook': 0, 'acquire': 0}

        def transfer(st, ev, bad=bad, seen=seen):
            if ev.kind != 'call':
                return st
            if ev.q == TC + 'start_hook' or ev.q.endswith('ThreadContext::start_hook'):
                seen['start_hook'] += 1
                return 'held'
            if ev.q == TC + 'yield_hook' or ev.q.endswith('ThreadContext::yield_hook'):
                seen['yield_hook'] += 1
                return 'free'
            if ev.q.endswith('OsSemaphore::acquire') and ev.obj is not None and ev.obj[0] == 'field' and ev.obj[2] == TC + 'begin_':
                seen['acquire'] += 1
                if st == 'held':
                    bad.append((ev.line, 'waits for maestro on begin_ while holding its worker slot'))
            return st
        ex_ = cfg.abstract_run(A, f, init, transfer, inline=lambda ev, callee: callee['q'] in (TC + 'start', TC + 'yield', TC + 'suspend'))
        hooks += seen['start_hook'] + seen['yield_hook']
        if want is not None and any(x != want for x in ex_['normal']):
            bad.append((f['line'], 'returns while still holding its worker slot (no yield_hook() after the last start_hook())'))
        short = q.replace(CX, '')
        ctx.check(not bad, 'R5', '%s: the worker slot is given back before waiting for maestro%s' % (short, ' and before returning' if want else ''), where(f, bad[0][0] if bad else None),
                  ('%s: with contexts/factory:thread and contexts/nthreads > 1 the slot is lost, and after nthreads such events no actor can start its turn' % bad[0][1]) if bad
                  else 'start_hook x%d, yield_hook x%d, begin_.acquire x%d on the explored paths' % (seen['start_hook'], seen['yield_hook'], seen['acquire']),
                  key='R5|%s|slot' % short)
    ctx.require(hooks >= 4, 'R5', 'start_hook()/yield_hook() calls not met in the thread context functions (%d)' % hooks)
    pth = [f for f in P.fns.values() if f['q'] in (CX + 'ParallelThreadContext::start_hook', CX + 'ParallelThreadContext::yield_hook') and f.get('blocks')]
    ctx.require(len(pth) == 2, 'R5', 'ParallelThreadContext::start_hook/yield_hook not found')
    for f in pth:
        v = A.view(f)
        ops = set(e.q.rsplit('::', 1)[-1] for p_ in v.paths() for e in v.path_events(p_) if e.kind == 'call' and e.q.endswith(('OsSemaphore::acquire', 'OsSemaphore::release')))
        want = {'acquire'} if f['q'].endswith('start_hook') else {'release'}
        ctx.check(ops == want, 'R5', '%s %ss thread_sem_' % (f['q'].replace(CX, ''), sorted(want)[0]), where(f), 'operations: %s' % sorted(ops), key='R5|%s|semaphore op' % f['q'].replace(CX, ''))
    ctx.rule('R6', 'the hand-off semaphores begin_/end_ of a thread context are operated only by ThreadContext members (release/wait/start/yield, the start-up handshake of the '
             'constructor and wrapper, attach_start/attach_stop)', 6)
    allowed = {TC + 'release', TC + 'wait', TC + 'start', TC + 'yield', TC + 'wrapper', TC + 'ThreadContext', TC + 'attach_start', TC + 'attach_stop'}
    n = 0
    for fq in (TC + 'begin_', TC + 'end_'):
        for u in lib.field_uses(P, fq):
            n += 1
            who = u.fn['q']
            ctx.check(who in allowed, 'R6', '%s uses %s' % (who.replace(K, ''), fq.replace(CX, '')), where(u.fn, u.line), 'a hand-off outside the protocol functions' if who not in allowed else '',
                      key='R6|%s|%s' % (who.replace(K, ''), fq.rsplit('::', 1)[-1]))
    ctx.require(n >= 6, 'R6', 'uses of begin_/end_ not found (%d)' % n)


def run(ctx):
    units = [u for u in ctx.all_units() if u not in EXCLUDED_UNITS]
    P = ctx.load([u[len(REPO) + 1:] for u in units])
    A = ctx.analyzer

    # ---- R1/R2 thread factories ---------------------------------------------------------------------------------------------------------
    ctx.rule('R1', 'every run_all variant gives each actor of the list exactly one turn (in list order when sequential)', 4)
    ctx.rule('R2', 'run_all returns only after every resumed actor yielded back', 3)
    st = P.fn(CX + 'SerialThreadContext::run_all')
    lst = lib.parm_i(st, 0)
    loops = range_loops(P, A, st)
    ok = False
    if len(loops) == 1:
        h, body, rng, calls, conds = loops[0]
        names = [c.q.rsplit('::', 1)[-1] for c in calls if c.q.startswith(CX)]
        objs = [c.obj for c in calls if c.q.startswith(CX) and c.q.rsplit('::', 1)[-1] in ('release', 'wait')]
        ok = rng == lst and [n for n in names if n in ('release', 'wait')] == ['release', 'wait'] and len(set(objs)) == 1 and not conds
    ctx.check(ok, 'R1', 'SerialThreadContext::run_all: for each actor of the list, in order: release() then wait() on its context', where(st), '', key='R1|SerialThreadContext::run_all|turns')
    ctx.check(ok, 'R2', 'SerialThreadContext::run_all waits for each actor before resuming the next', where(st), '', key='R2|SerialThreadContext::run_all|wait')
    pt = P.fn(CX + 'ParallelThreadContext::run_all')
    lst = lib.parm_i(pt, 0)
    loops = range_loops(P, A, pt)
    kinds = []
    for h, body, rng, calls, conds in sorted(loops, key=lambda x: -x[0]['id']):
        nm = [c.q.rsplit('::', 1)[-1] for c in calls if c.q.startswith(CX) and c.q.rsplit('::', 1)[-1] in ('release', 'wait')]
        kinds.append((rng == lst, tuple(nm), not conds))
    okp = kinds == [(True, ('release',), True), (True, ('wait',), True)]
    ctx.check(okp, 'R1', 'ParallelThreadContext::run_all: releases every actor of the list', where(pt), 'loops %s' % kinds, key='R1|ParallelThreadContext::run_all|turns')
    ctx.check(okp, 'R2', 'ParallelThreadContext::run_all: then waits for every actor of the list', where(pt), '', key='R2|ParallelThreadContext::run_all|wait')
    tf = P.fn(CX + 'ThreadContextFactory::run_all')
    v = A.view(tf)
    sh = set()
    for p in v.paths():
        evs = v.path_events(p)
        par = [e.pol for e in evs if e.kind == 'branch' and 'is_parallel' in repr(e.atom)]
        cl = [e.q.replace(CX, '') for e in evs if e.kind == 'call' and e.q.endswith('::run_all')]
        sh.add((tuple(par), tuple(cl)))
    ctx.check(sh == {((True,), ('ParallelThreadContext::run_all',)), ((False,), ('SerialThreadContext::run_all',))}, 'R1', 'ThreadContextFactory::run_all dispatches on is_parallel()',
              where(tf), '%s' % sorted(sh), key='R1|ThreadContextFactory::run_all|dispatch')

    # ---- swapped contexts --------------------------------------------------------------------------------------------------------------------
    sf = P.fn(CX + 'SwappedContextFactory::run_all')
    v = A.view(sf)
    PI = lib.this_field(CX + 'SwappedContextFactory::process_index_')
    seq_ok = par_ok = False
    for p in v.paths():
        if p.exit in ('noreturn', 'cut'):
            continue
        evs = v.path_events(p)
        par = [e.pol for e in evs if e.kind == 'branch' and 'is_parallel' in repr(e.atom)]
        if par == [False]:
            empty = [e.pol for e in evs if e.kind == 'branch' and e.atom[0] == 'truthy' and e.atom[1][0] == 'call' and e.atom[1][1].endswith('::empty')]
            idx = [e for e in evs if e.kind == 'assign' and e.lhs == PI]
            first = [e for e in evs if e.kind == 'call' and e.q == EI + '::get_first_actor_to_run']
            res = [e for e in evs if e.kind == 'call' and e.q == CX + 'SwappedContext::resume']
            if empty == [True]:
                continue
            if empty == [False] and len(idx) == 1 and idx[0].rhs == ('int', 1) and len(first) == 1 and len(res) == 1:
                seq_ok = True
        elif par == [True]:
            ap = [e for e in evs if e.kind == 'call' and e.q.startswith('simgrid::xbt::Parmap<') and e.q.endswith('::apply')]
            if len(ap) == 1 and ap[0].args and ap[0].args[-1] == lib.parm_i(sf, 0):
                lam = [s_ for a in ap[0].args for s_ in ex.subterms(a) if s_[0] == 'lambda']
                if lam and lam[0][1] in P.fns:
                    lv = A.view(P.fns[lam[0][1]])
                    par_ok = any(e.kind == 'call' and e.q == CX + 'SwappedContext::resume' for lp in lv.paths() for e in lv.path_events(lp))
    ctx.check(seq_ok, 'R1', 'SwappedContextFactory::run_all (sequential): process_index_ = 1 and the first actor to run is resumed', where(sf), '', key='R1|SwappedContextFactory::run_all|sequential start')
    ctx.check(par_ok, 'R1', 'SwappedContextFactory::run_all (parallel): parmap apply(resume) over the actor list', where(sf), '', key='R1|SwappedContextFactory::run_all|parallel start')
    sus = P.fn(CX + 'SwappedContext::suspend')
    v = A.view(sus)
    FPI = None
    chain_ok = None
    back_ok = None
    for p in v.paths():
        if p.exit in ('noreturn', 'cut'):
            continue
        evs = v.path_events(p)
        par = [e.pol for e in evs if e.kind == 'branch' and 'is_parallel' in repr(e.atom)]
        if par != [False]:
            continue
        rd = [e for e in evs if e.kind == 'assign' and e.decl and e.rhs[0] == 'field' and e.rhs[2].endswith('::process_index_')]
        inc = [e for e in evs if e.kind == 'incdec' and e.lhs[0] == 'field' and e.lhs[2].endswith('::process_index_') and e.op == '++']
        if len(rd) != 1 or len(inc) != 1 or evs.index(rd[0]) > evs.index(inc[0]):
            chain_ok = False
            continue
        i = rd[0].lhs
        lt = [e for e in evs if e.kind == 'branch' and e.atom[0] == 'bin' and e.atom[1] == '<' and e.atom[2] == i and e.atom[3][0] == 'call' and e.atom[3][1] == EI + '::get_actor_to_run_count']
        nxt = [e for e in evs if e.kind == 'assign' and e.lhs[0] == 'var' and e.lhs[2] == 'next_context' and e.rhs != ('none',)]
        if len(lt) != 1 or len(nxt) != 1:
            chain_ok = False
            continue
        if lt[0].pol:
            good = any(s[0] == 'call' and s[1] == EI + '::get_actor_to_run_at' and s[3] == (i,) for s in ex.subterms(nxt[0].rhs))
            chain_ok = good if chain_ok is None else (chain_ok and good)
        else:
            good = nxt[0].rhs[0] == 'field' and nxt[0].rhs[2].endswith('::maestro_context_')
            back_ok = good if back_ok is None else (back_ok and good)
    ctx.check(bool(chain_ok), 'R1', 'SwappedContext::suspend (sequential): i = process_index_++; i < count -> the i-th actor of the run list is next', where(sus), '', key='R1|SwappedContext::suspend|index chain')
    ctx.check(bool(back_ok), 'R2', 'SwappedContext::suspend (sequential): control returns to maestro only when i >= count', where(sus), '', key='R2|SwappedContext::suspend|back to maestro')
    # parallel: a worker that finds no more work goes back to its own saved context (worker_context_, which resume() set to the context that was running on this thread), never to
    # maestro's: several workers would otherwise swap into the one maestro context
    par_ok = None
    for p in v.paths():
        if p.exit in ('noreturn', 'cut'):
            continue
        evs = v.path_events(p)
        par = [e.pol for e in evs if e.kind == 'branch' and 'is_parallel' in repr(e.atom)]
        if par != [True]:
            continue
        nxt = [e for e in evs if e.kind == 'assign' and e.lhs[0] == 'var' and e.lhs[2] == 'next_context' and e.rhs != ('none',)]
        if len(nxt) != 1:
            par_ok = False
            continue
        r = nxt[0].rhs
        for _ in range(4):
            while r[0] in ('cast', 'conv'):
                r = r[2]
            if r[0] == 'var' and r[1] == 'local':
                ds = [e for e in evs[:evs.index(nxt[0])] if e.kind == 'assign' and e.lhs == r]
                if len(ds) == 1:
                    r = ds[0].rhs
                    continue
            break
        took_work = any(s[0] == 'call' and isinstance(s[1], str) and s[1].endswith('::get') for s in ex.subterms(nxt[0].rhs)) or any(s[0] == 'field' and s[2].endswith('::context_') for s in ex.subterms(nxt[0].rhs))
        if took_work:
            continue
        good = (r[0] in ('field', 'global', 'var') and repr(r).count('worker_context_') == 1)
        par_ok = good if par_ok is None else (par_ok and good)
    res = P.fn(CX + 'SwappedContext::resume')
    rv = A.view(res)
    saved = None
    for p in rv.paths():
        if p.exit in ('noreturn', 'cut'):
            continue
        evs = rv.path_events(p)
        par = [e.pol for e in evs if e.kind == 'branch' and 'is_parallel' in repr(e.atom)]
        if par != [True]:
            continue
        selfv = [e.lhs for e in evs if e.kind == 'assign' and any(s_[0] == 'call' and isinstance(s_[1], str) and s_[1].endswith('Context::self') for s_ in ex.subterms(e.rhs))]
        st = [e for e in evs if e.kind == 'assign' and 'worker_context_' in repr(e.lhs)]
        sw = [e for e in evs if e.kind == 'call' and e.q.endswith('::swap_into')]
        good = len(st) == 1 and bool(selfv) and (st[0].rhs in selfv or any(s_[0] == 'call' and isinstance(s_[1], str) and s_[1].endswith('Context::self') for s_ in ex.subterms(st[0].rhs))) and \
            bool(sw) and evs.index(st[0]) < evs.index(sw[0])
        saved = good if saved is None else (saved and good)
    ctx.check(bool(par_ok) and bool(saved), 'R2', 'SwappedContext (parallel): resume() saves the context running on this thread in worker_context_ before swapping, and a worker without more work swaps back into it', where(sus),
              'suspend goes back to worker_context_: %s; resume saves self() first: %s' % (par_ok, saved), key='R2|SwappedContext::suspend|back to the worker context')
    raa = P.fn(EI + '::run_all_actors')
    v = A.view(raa)
    okm = any(e.kind == 'call' and e.q.endswith('ContextFactory::run_all') and e.args == (lib.this_field(EI + '::actors_to_run_'),) for p in v.paths(max_visits=1) for e in v.path_events(p))
    ctx.check(okm, 'R1', 'EngineImpl::run_all_actors hands actors_to_run_ itself to the factory', where(raa), '', key='R1|run_all_actors|list identity')

    # ---- R3 who may handle simcalls -----------------------------------------------------------------------------------------------------------------
    ctx.rule('R3', 'simcall_handle is called only by EngineImpl::run, by the simcall entry point under is_maestro(self) and by the model-checking side; no context/factory/parmap function reaches the kernel scheduling functions', 5)
    handle = AC + '::simcall_handle'
    ncall = 0
    for key, fn in sorted(P.fns.items()):
        for eid, el in enumerate(fn.get('elems') or ()):
            for n in ex.walk(el['x']):
                if n.get('k') == 'Call' and (n.get('c') or {}).get('q') == handle:
                    ncall += 1
                    q = fn['q'].split('::<lambda')[0]
                    f_rel = fn['file'][len(REPO) + 1:] if fn['file'].startswith(REPO) else fn['file']
                    if q == EI + '::run':
                        ctx.holds('R3', 'simcall_handle called from EngineImpl::run', where(fn, n.get('l')), 'the sequential loop (C01-R3)')
                    elif f_rel.startswith('src/mc/'):
                        ctx.holds('R3', 'simcall_handle called from %s' % q, where(fn, n.get('l')), 'model-checking side')
                    elif q == 'simcall' and f_rel == 'src/kernel/actor/Simcall.cpp':
                        v = A.view(fn)
                        okg = True
                        np_ = 0
                        for p in v.paths():
                            evs = v.path_events(p)
                            for e, facts in lib.facts_walk(evs):
                                if e.kind == 'call' and e.q == handle:
                                    np_ += 1
                                    okg = okg and any(a[0] == 'truthy' and a[1][0] == 'call' and a[1][1] == EI + '::is_maestro' and t for a, t in facts.items())
                        ctx.check(okg and np_ >= 1, 'R3', 'simcall(): maestro handles its own simcall inline, only under is_maestro(self)', where(fn, n.get('l')), '', key='R3|simcall|maestro guard')
                        # the other branch yields
                        oky = False
                        for p in v.paths():
                            evs = v.path_events(p)
                            m = [e.pol for e in evs if e.kind == 'branch' and 'is_maestro' in repr(e.atom)]
                            if m == [False]:
                                oky = any(e.kind == 'call' and e.q == AC + '::yield' for e in evs) and not any(e.kind == 'call' and e.q == handle for e in evs)
                        ctx.check(oky, 'R3', 'simcall(): any other actor yields to maestro', where(fn), '', key='R3|simcall|actors yield')
                    else:
                        ctx.violation('R3', 'simcall_handle called from %s' % q, where(fn, n.get('l')), 'a simcall can be handled outside maestro\'s sequential loop', key='R3|%s|simcall_handle caller' % q)
    ctx.require(ncall >= 3, 'R3', 'call sites of simcall_handle not found')
    forbidden = (handle, AC + '::simcall_answer', EI + '::add_actor_to_run_list', EI + '::add_actor_to_run_list_no_check')
    nctx = 0
    nbad = 0
    for key, fn in sorted(P.fns.items()):
        f_rel = fn['file'][len(REPO) + 1:] if fn['file'].startswith(REPO) else fn['file']
        if not (f_rel.startswith(('src/kernel/context/', 'include/simgrid/kernel/context/')) or f_rel.endswith('xbt/parmap.hpp')) or not fn.get('elems'):
            continue
        nctx += 1
        for el in fn['elems']:
            for n in ex.walk(el['x']):
                if n.get('k') == 'Call' and (n.get('c') or {}).get('q') in forbidden:
                    nbad += 1
                    ctx.violation('R3', '%s calls %s' % (fn['q'].replace(K, ''), n['c']['q'].replace(K, '')), where(fn, n.get('l')),
                                  'a context/factory/parmap function takes a scheduling decision that belongs to maestro\'s sequential code', key='R3|%s|calls scheduler' % fn['q'])
    ctx.check(nbad == 0 and nctx >= 30, 'R3', 'none of the %d functions of src/kernel/context and xbt/parmap.hpp calls simcall_handle, simcall_answer or the run-list insertion' % nctx, '',
              '', key='R3|contexts|who-may-call')
    # ---- R4 who may look at the execution configuration -------------------------------------------------------------------------------------------------
    ctx.rule('R4', 'outside the context layer nothing reads the number of worker threads, the parallel mode or the factory kind (so no kernel decision can depend on them)', 2)
    CTXQ = K + 'context::Context::'
    readers = {CTXQ + 'is_parallel', CTXQ + 'get_nthreads', CTXQ + 'get_parallel_mode'}
    cfgvars = {CTXQ + 'parallel_contexts', CTXQ + 'parallel_mode', K + 'context::context_factory_name', K + 'context::factory_name'}
    benign = {('sg_config_init', CTXQ + 'is_parallel'): 'tells the mallocators whether several threads will allocate (a memory-management choice, not a simulated decision)',
              ('sg_config_finalize', CTXQ + 'is_parallel'): 'same, at teardown'}
    nread = 0
    for key, fn in sorted(P.fns.items()):
        f_rel = fn['file'][len(REPO) + 1:] if fn['file'].startswith(REPO) else fn['file']
        if f_rel.startswith(('src/kernel/context/', 'include/simgrid/kernel/context/')) or f_rel.endswith('xbt/parmap.hpp') or not fn.get('elems'):
            continue
        for el in fn['elems']:
            if el.get('m') in LOG_MACROS:
                continue        # a value printed by a log line decides nothing
            written = set(id(n['a'][0]) for n in ex.walk(el['x']) if n.get('k') == 'Bin' and n.get('op') == '=' and n.get('a'))     # configuration setters write, they do not read
            for n in ex.walk(el['x']):
                q = None
                if id(n) in written:
                    continue
                if n.get('k') == 'Call' and (n.get('c') or {}).get('q') in readers:
                    q = n['c']['q']
                elif n.get('k') in ('Ref', 'Mem') and (n.get('d') or {}).get('n') in cfgvars:
                    q = n['d']['n']
                elif n.get('k') == 'Str' and n.get('v') in ('contexts/nthreads', 'contexts/synchro', 'contexts/factory') and not f_rel.endswith(('sg_config.cpp', 'EngineImpl.cpp')):
                    q = 'the option ' + n['v']
                if q is None:
                    continue
                nread += 1
                why = benign.get((fn['q'].rsplit('::', 1)[-1], q))
                ctx.check(why is not None, 'R4', '%s reads %s' % (fn['q'].replace(K, ''), q.replace(K, '')), where(fn, n.get('l') or el.get('l')),
                          why or 'code outside the context layer can behave differently with the number of threads or the factory: the outcome may depend on them',
                          key='R4|%s|reads %s' % (fn['q'].replace(K, ''), q.rsplit('::', 1)[-1]))
    ctx.check(True, 'R4', 'every other function of the %d loaded units is silent about the execution configuration' % len(ctx.units_loaded) if hasattr(ctx, 'units_loaded') else 'every other loaded function is silent about the execution configuration', '', '%d reader(s) listed above' % nread,
              key='R4|readers|closed list')
    run_thread_handoff(ctx, P, A)
    ctx.assume('absence of data races in user code and in the few kernel counters touched from actor context, and the memory ordering of the synchro primitives, are not decided; '
               'the raw and boost factories share SwappedContext (only swap_into_for_real differs, which is a stack switch); exactly-once hand-out of the parallel map is C49')
    return EXPLANATION
