"""C35 — Private parts of partially shared buffers (DESIGN.md 3, C35, thin)."""
from .. import ex, lib
from ..core import where
from ..ir import AnalysisBroken, REPO

UNITS = ['src/smpi/internals/smpi_shared.cpp', 'src/smpi/internals/smpi_global.cpp']
EXPLANATION = ('R1 unsigned-difference belief: in shift_and_frame_private_blocks every subtraction of two unsigned operands is guarded by the comparison '
               'that makes it non-negative (conditional operand or dominating test); an unguarded a - b that is then clamped or compared against 0 '
               'wraps around instead of saturating, which drops the private block that starts before the message.  R2 extremum coherence of '
               'merge_private_blocks: an overlapping pair emits [max(begins), min(ends)) and advances the list whose block ends first; disjoint '
               'pairs advance the block that ends before the other begins.  R3 dataflow identity in smpi_comm_copy_buffer_callback: both copies '
               '(to the temporary and to the destination) use the merged block list, and memcpy_private copies [begin, end) at the same offset on '
               'both sides.')


def unsigned_t(t):
    return t.startswith('unsigned') or t in ('size_t', 'std::size_t')


from ..cg import natural_loop as cg_nl35  # noqa: E402


def strip35(t):
    while t[0] in ('cast', 'conv'):
        t = t[2]
    return t


def run_raw_lists(ctx, P, A):
    """R5: the block list filled by smpi_is_shared holds positions in the *allocation*; positions in the *message* exist only after
    shift_and_frame_private_blocks(list, offset, size) with the offset of the same call."""
    from ..cfg import abstract_run
    ctx.rule('R5', 'a private-block list filled by smpi_is_shared is used for positions (iterated, or handed to another function) only after '
             'shift_and_frame_private_blocks(list, offset of the same call, size); before that only its size and block lengths may be read', 3)
    ncall = 0
    for f in sorted(P.fns.values(), key=lambda f: f['key']):
        if not f.get('blocks') or f['q'] == 'smpi_is_shared':
            continue
        v = A.view(f)
        calls = [e for eid in range(len(f['elems'])) for e in v.events_of(eid) if e.eid == eid and e.kind == 'call' and e.q == 'smpi_is_shared' and len(e.args) == 3]
        if not calls:
            continue
        lists = {}
        for c in calls:
            lst = c.args[1]
            off = c.args[2][2] if c.args[2][0] == 'un' and c.args[2][1] == '&' else c.args[2]
            lists.setdefault(lst, set()).add(off)
        for lst, offs in sorted(lists.items(), key=repr):
            ncall += 1
            bad = []

            def transfer(st, e, lst=lst, offs=offs, bad=bad):
                if e.kind == 'call':
                    if e.q == 'smpi_is_shared' and len(e.args) == 3 and e.args[1] == lst:
                        return 'raw'
                    if e.q.endswith('shift_and_frame_private_blocks'):
                        return st
                    if e.obj == lst and e.q.rsplit('::', 1)[-1] == 'operator=':
                        fr = [t for a in e.args for t in ex.subterms(a) if t[0] == 'call' and t[1].endswith('shift_and_frame_private_blocks')]
                        if fr:
                            t = fr[0]
                            if not (len(t[3]) >= 2 and t[3][0] == lst and t[3][1] in offs):
                                bad.append((e.line, 'framed with %s, not the offset smpi_is_shared filled' % ex.pretty(t[3][1] if len(t[3]) > 1 else ('none',))))
                        return 'framed'       # re-assigned: framed, or replaced by a list of the caller
                    if e.obj == lst and e.q.rsplit('::', 1)[-1] == 'clear':
                        return 'framed'       # emptied: what the caller puts in afterwards is in its own coordinates
                    if st == 'raw':
                        if e.obj == lst and e.q.rsplit('::', 1)[-1] in ('begin', 'end', 'cbegin', 'cend', 'front', 'back', 'data'):
                            bad.append((e.line, 'iterated'))
                        elif e.obj != lst and any(ex.mentions(a, lst) and not (a[0] == 'call' and a[2] == lst) for a in e.args) and not e.q.startswith(('_xbt_log', 'xbt_log')):
                            okarg = all((not ex.mentions(a, lst)) or any(t[0] == 'call' and t[2] == lst and t[1].rsplit('::', 1)[-1] in ('size', 'empty', 'operator[]') for t in ex.subterms(a)) for a in e.args)
                            if not okarg:
                                bad.append((e.line, 'handed to %s' % e.q.rsplit('::', 1)[-1]))
                    return st
                if e.kind == 'assign':
                    rhs = e.rhs
                    while rhs[0] in ('cast', 'conv', 'ctor') and len(rhs) > 2 and isinstance(rhs[2], tuple) and rhs[2] and isinstance(rhs[2][0], str):
                        rhs = rhs[2]
                    fr = [t for t in ex.subterms(e.rhs) if t[0] == 'call' and t[1].endswith('shift_and_frame_private_blocks')]
                    if fr and e.lhs == lst:
                        t = fr[0]
                        ok = len(t[3]) >= 2 and t[3][0] == lst and t[3][1] in offs
                        if not ok:
                            bad.append((e.line, 'framed with %s, not the offset smpi_is_shared filled' % ex.pretty(t[3][1] if len(t[3]) > 1 else ('none',))))
                        return 'framed'
                    if st == 'raw' and e.lhs[0] == 'var' and e.lhs[2].startswith('__range') and ex.mentions(e.rhs, lst):
                        bad.append((e.line, 'iterated'))
                    return st
                return st
            abstract_run(A, f, 'none', transfer)
            short = f['q'].replace('simgrid::smpi::', '')
            if bad:
                line, what = sorted(set(bad))[0]
                ctx.violation('R5', '%s: %s is framed before its positions are used' % (short, ex.pretty(lst)), where(f, line),
                              'the list is %s while its blocks are still relative to the allocation: for a message that starts at a non-zero offset the private bytes are looked for at the wrong place' % what,
                              key='R5|%s|%s raw' % (short.rsplit('::', 1)[-1], ex.pretty(lst)))
            else:
                ctx.holds('R5', '%s: %s is framed before its positions are used' % (short, ex.pretty(lst)), where(f), 'typestate raw -> framed over every path')
    ctx.require(ncall >= 3, 'R5', 'only %d block list(s) filled by smpi_is_shared found' % ncall)


def run(ctx):
    smpi = sorted(u[len(REPO) + 1:] for u in ctx.all_units() if u.startswith(REPO + '/src/smpi/') and '/colls/' not in u)
    P = ctx.load(sorted(set(UNITS) | set(smpi)))
    A = ctx.analyzer
    # ---- R1 ----------------------------------------------------------------------------------------------------------------------------------
    ctx.rule('R1', 'every unsigned subtraction in shift_and_frame_private_blocks is guarded by minuend > subtrahend', 2)
    sf = P.fn('shift_and_frame_private_blocks')
    v = A.view(sf)
    nsub = 0
    for eid, el in enumerate(sf['elems']):
        # walk with the chain of enclosing conditional operators
        stack = [(el['x'], ())]
        seen_nodes = set()
        while stack:
            n, guards = stack.pop()
            if not isinstance(n, dict):
                continue
            if n.get('k') == 'R':
                continue
            if n.get('k') == 'Bin' and n.get('op') == '-' and unsigned_t(sf.tstr(n)):
                a, b = v.norm(n['a'][0]), v.norm(n['a'][1])
                if a[0] in ('int',) and b[0] in ('int',):
                    continue
                key = (ex.pretty(a), ex.pretty(b), n.get('l', el.get('l')))
                if key in seen_nodes:
                    continue
                seen_nodes.add(key)
                nsub += 1
                okg = False
                for g, branch in guards:
                    at, pol = ex.atom(g)
                    truth = (pol == branch)
                    # a > b  <=>  !(a <= b)  <=>  b < a
                    if at == ('bin', '<=', a, b) and not truth:
                        okg = True
                    if at == ('bin', '<', b, a) and truth:
                        okg = True
                    if at == ('bin', '<', a, b) and not truth:
                        okg = True      # a >= b
                    if at == ('bin', '<=', b, a) and truth:
                        okg = True
                if not okg:
                    from .C13 import _dominating_facts
                    for at, truth in _dominating_facts(A, sf, el['x']):
                        if (at == ('bin', '<=', a, b) and not truth) or (at == ('bin', '<', b, a) and truth) or (at == ('bin', '<', a, b) and not truth) or (at == ('bin', '<=', b, a) and truth):
                            okg = True
                ctx.check(okg, 'R1', 'unsigned %s - %s' % key[:2], where(sf, key[2]),
                          'guarded by %s >= %s' % key[:2] if okg else 'size_t difference with no guard: when %s < %s it wraps to a huge value (clamping or comparing it with 0 afterwards cannot repair it) '
                          'and the private block that starts before the message offset is lost' % key[:2], key='R1|shift_and_frame_private_blocks|%s - %s' % key[:2])
            if n.get('k') == 'Cond' and len(n.get('a') or ()) == 3:
                g = v.norm(n['a'][0])
                stack.append((n['a'][0], guards))
                stack.append((n['a'][1], guards + ((g, True),)))
                stack.append((n['a'][2], guards + ((g, False),)))
                continue
            for k in ex.kids(n):
                stack.append((k, guards))
    ctx.require(nsub >= 2, 'R1', 'unsigned subtractions of shift_and_frame_private_blocks not found (%d)' % nsub)
    # the result keeps only non-empty blocks inside the buffer
    okf = False
    for p in v.paths(max_visits=2):
        evs = v.path_events(p)
        for e in evs:
            if e.kind == 'call' and e.q.endswith('::push_back'):
                okf = True
    ctx.check(okf, 'R1', 'shifted blocks are appended to the result', where(sf), '', key='R1|shift_and_frame_private_blocks|append')

    # both ends of a shifted block are clamped to the size of the message, and a block is kept iff something of it is left inside the message
    mk = [e for eid in range(len(sf['elems'])) for e in v.events_of(eid) if e.kind == 'call' and e.q == 'std::make_pair' and len(e.args) == 2]
    bs = lib.parm(sf, 'buff_size')
    okclamp = len(mk) >= 1 and all(strip35(a)[0] == 'call' and strip35(a)[1] == 'std::min' and bs in [strip35(x) for x in strip35(a)[3]] for a in mk[0].args)
    ctx.check(okclamp, 'R1', 'shift_and_frame_private_blocks: both ends of the shifted block are clamped to the size of the message', where(sf, mk[0].line if mk else None),
              '' if okclamp else 'an end is not min(., buff_size): the copy runs past the end of the message', key='R1|shift_and_frame_private_blocks|both ends clamped')
    keep = None
    for p in v.paths(max_visits=2):
        if p.exit in ('noreturn', 'cut', 'throw'):
            continue
        evs = v.path_events(p)
        pb = [i for i, e in enumerate(evs) if e.kind == 'call' and e.q.endswith('::push_back')]
        if not pb:
            continue
        facts = [(e.atom, e.pol) for e in evs[:pb[0]] if e.kind == 'branch' and ('first' in repr(e.atom) or 'second' in repr(e.atom)) and 'new_block' in repr(e.atom)]
        nonempty = any(a[0] == 'bin' and ((a[1] == '<=' and 'second' in repr(a[2]) and strip35(a[3]) in (('int', 0),) and not pol) or (a[1] == '>' and 'second' in repr(a[2]) and strip35(a[3]) == ('int', 0) and pol)) for a, pol in facts)
        inside = any(a[0] == 'bin' and a[1] == '<' and 'first' in repr(a[2]) and strip35(a[3]) == bs and pol for a, pol in facts)
        good = nonempty and inside and len(facts) == 2
        keep = good if keep is None else (keep and good)
    ctx.check(bool(keep), 'R1', 'shift_and_frame_private_blocks keeps a shifted block iff its end is > 0 and its begin is < the size of the message', where(sf),
              '' if keep else 'a block cut at the start of the message (begin 0) or at its end would be dropped: its private bytes are not copied', key='R1|shift_and_frame_private_blocks|kept blocks')

    # ---- R2 ----------------------------------------------------------------------------------------------------------------------------------------
    ctx.rule('R2', 'merge_private_blocks: overlap -> [max(begins), min(ends)), advance the list whose block ends first; disjoint -> advance the earlier block', 3)
    mg = P.fn('merge_private_blocks')
    v = A.view(mg)
    shapes = {}
    for p in v.paths(max_visits=2):
        if p.exit in ('noreturn', 'cut'):
            continue
        evs = v.path_events(p)
        # first iteration only
        it = 0
        tests = []
        made = None
        inc = None
        for e in evs:
            if e.kind == 'branch' and 'size' in repr(e.atom) and ('i_src' in repr(e.atom) or 'i_dst' in repr(e.atom)) and e.atom[0] == 'bin' and e.atom[1] == '<':
                if 'i_src' in repr(e.atom[2]) and it >= 1 and tests:
                    break
                it += 1 if 'i_src' in repr(e.atom[2]) else 0
                continue
            if it != 1:
                continue
            if e.kind == 'branch':
                tests.append((ex.pretty(e.atom), e.pol))
            if e.kind == 'call' and e.q == 'std::make_pair':
                made = e
            if e.kind == 'incdec' and inc is None:
                inc = e.lhs[2] if e.lhs[0] == 'var' else None
        if it >= 1 and inc:
            shapes[tuple(tests)] = (made, inc)
    n_ok = 0
    for tests, (made, inc) in shapes.items():
        td = dict(tests)
        # adjacent blocks (one ends where the other begins) may be treated as disjoint (<=) or as an empty overlap (<): both copy the same bytes
        td.update({k.replace(' < ', ' <= '): v_ for k, v_ in tests if ' < ' in k and ' <= ' not in k})
        s_le_d = td.get('(src.operator[](i_src).second <= dst.operator[](i_dst).first)')
        d_le_s = td.get('(dst.operator[](i_dst).second <= src.operator[](i_src).first)')
        if s_le_d is True:
            ctx.check(inc == 'i_src' and made is None, 'R2', 'src block ends before dst block begins -> i_src++', where(mg), 'advances %s' % inc, key='R2|merge_private_blocks|disjoint src first')
            n_ok += 1
        elif s_le_d is False and d_le_s is True:
            ctx.check(inc == 'i_dst' and made is None, 'R2', 'dst block ends before src block begins -> i_dst++', where(mg), 'advances %s' % inc, key='R2|merge_private_blocks|disjoint dst first')
            n_ok += 1
        elif s_le_d is False and d_le_s is False:
            good = made is not None and made.args[0][0] == 'call' and made.args[0][1] == 'std::max' and made.args[1][0] == 'call' and made.args[1][1] == 'std::min' and \
                all(r.endswith('.first') for r in [ex.pretty(x) for x in made.args[0][3]]) and all(r.endswith('.second') for r in [ex.pretty(x) for x in made.args[1][3]]) and \
                {('src' in ex.pretty(x)) for x in made.args[0][3]} == {True, False} and {('src' in ex.pretty(x)) for x in made.args[1][3]} == {True, False}
            adv = td.get('(src.operator[](i_src).second < dst.operator[](i_dst).second)')
            okadv = adv is not None and inc == ('i_src' if adv else 'i_dst')
            ctx.check(good and okadv, 'R2', 'overlap -> [max(begins), min(ends)); src ends first: %s -> %s++' % (adv, inc), where(mg, made.line if made else None),
                      ex.pretty(made.nf)[:120] if made else 'no block emitted', key='R2|merge_private_blocks|overlap')
            n_ok += 1
    ctx.require(n_ok >= 3, 'R2', 'iteration shapes of merge_private_blocks not recognised (%d): %s' % (n_ok, list(shapes)[:2]))
    # the merge runs as long as both lists have a block left: i_src < src.size() && i_dst < dst.size(), the indices compared as they are
    vm_ = A.view(mg)
    conds = []
    for b_ in ([1] if vm_.loop_heads() else []):
        for b in [x['id'] for x in vm_.blocks]:
            at = vm_.cond_atom(b)
            if at and at[0][0] == 'bin' and at[0][1] == '<' and any(t[0] == 'call' and t[1].endswith('::size') for t in ex.subterms(at[0][3])):
                lhs = strip35(at[0][2])
                szobj = [t[2] for t in ex.subterms(at[0][3]) if t[0] == 'call' and t[1].endswith('::size')][0]
                conds.append((lhs[2] if lhs[0] == 'var' else ex.pretty(lhs), szobj[2] if szobj[0] == 'var' else ex.pretty(szobj)))
    ctx.check(sorted(conds) == [('i_dst', 'dst'), ('i_src', 'src')], 'R2', 'merge_private_blocks loops while i_src < src.size() && i_dst < dst.size()', where(mg), 'loop tests: %s' % sorted(conds),
              key='R2|merge_private_blocks|loop bounds')

    # ---- R3 ------------------------------------------------------------------------------------------------------------------------------------------
    ctx.rule('R3', 'the copy callback copies exactly the merged blocks, with the same list for the temporary and the destination; memcpy_private copies [begin,end) at equal offsets', 2)
    cb = P.fn('smpi_comm_copy_buffer_callback')
    v = A.view(cb)
    ok3 = None
    for p in v.paths(max_visits=1):
        if p.exit in ('noreturn', 'cut'):
            continue
        evs = v.path_events(p)
        mg_ = [e for e in evs if e.kind == 'call' and e.q == 'merge_private_blocks']
        cps = [e for e in evs if e.kind == 'call' and e.q == 'memcpy_private']
        if not cps:
            continue
        mv = [e.lhs for e in evs if e.kind == 'assign' and mg_ and e.rhs == mg_[0].nf]
        good = len(mg_) == 1 and bool(mv) and all(c.args[2] == mv[0] for c in cps) and \
            mg_[0].args[0][0] == 'var' and 'src_private_blocks' in mg_[0].args[0][2] and 'dst_private_blocks' in mg_[0].args[1][2]
        ok3 = good if ok3 is None else (ok3 and good)
    ctx.check(bool(ok3), 'R3', 'smpi_comm_copy_buffer_callback: every memcpy_private uses merge_private_blocks(src blocks, dst blocks)', where(cb), '', key='R3|copy callback|merged blocks')
    mp = P.fn('memcpy_private')
    v = A.view(mp)
    okm = False
    for p in v.paths(max_visits=2):
        for e in v.path_events(p):
            if e.kind == 'call' and e.q in ('memcpy', 'std::memcpy'):
                d, s_, n = [ex.pretty(a) for a in e.args]
                okm = 'dest' in d and 'block_begin' in d and 'src' in s_ and 'block_begin' in s_ and n.replace(' ', '') in ('(block_end-block_begin)',)
    ctx.check(okm, 'R3', 'memcpy_private: memcpy(dest + begin, src + begin, end - begin)', where(mp), '', key='R3|memcpy_private|offsets')
    ctx.assume('which bytes end up copied for a given layout (the arithmetic of the private block table built by smpi_shared_malloc_partial) is not decided')
    # ---- R4 the out-parameter of smpi_is_shared is written on every successful path -------------------------------------------------------------
    ctx.rule('R4', 'smpi_is_shared stores the offset of the pointer in its allocation (*offset) on every path that reports "shared"; the callback frames each side with the offset of that side', 2)
    from ..cfg import abstract_run as _arun
    isf = P.fn('smpi_is_shared')
    offp = None
    for i_, p_ in enumerate(isf['params']):
        if p_['n'] == 'offset' or (isf.tstr(p_['t']).endswith('*') and 'size_t' in isf.tstr(p_['t']) or 'unsigned long *' == isf.tstr(p_['t'])):
            offp = lib.parm_i(isf, i_)
    if offp is None:
        ctx.unrecognised('R4', 'smpi_is_shared: offset out-parameter not found')
    else:
        def tr4(st, e):
            if e.kind == 'assign' and e.lhs == ('un', '*', offp):
                return ('set', st[1])
            if e.kind == 'return' and e.val is not None:
                val = e.val
                while val[0] in ('cast', 'conv'):
                    val = val[2]
                truth = (val[0] == 'int' and val[1] != 0) or val == ('bool', True)
                if truth and st[0] != 'set':
                    return (st[0], st[1] or e.line)
            return None
        ex4 = _arun(A, isf, ('unset', None), tr4)
        bad4 = sorted(set(x[1] for x in ex4['normal'] if x[1]))
        ctx.check(bool(ex4['normal']) and not bad4, 'R4', 'smpi_is_shared: *offset is written before every `return 1`', where(isf, bad4[0] if bad4 else None),
                  'the return at line %s reports a shared buffer without storing its offset: the caller frames the private blocks with whatever the variable held (e.g. the offset of the other side)' % bad4[0] if bad4 else '',
                  key='R4|smpi_is_shared|offset out-parameter')
    cb = P.fn('smpi_comm_copy_buffer_callback')
    vcb = A.view(cb)
    calls = [e for eid in range(len(cb['elems'])) for e in vcb.events_of(eid) if e.eid == eid and e.kind == 'call' and e.q == 'smpi_is_shared' and len(e.args) == 3]
    frames = [e for eid in range(len(cb['elems'])) for e in vcb.events_of(eid) if e.eid == eid and e.kind == 'call' and e.q.endswith('shift_and_frame_private_blocks') and len(e.args) >= 2]
    okpair = len(calls) == 2 and len(frames) == 2
    detail = ''
    if okpair:
        for c_, f_ in zip(sorted(calls, key=lambda e: e.line), sorted(frames, key=lambda e: e.line)):
            ov = c_.args[2][2] if c_.args[2][0] == 'un' and c_.args[2][1] == '&' else None
            if ov is None or f_.args[1] != ov or f_.args[0] != c_.args[1]:
                okpair = False
                detail = 'line %s frames %s with %s, but smpi_is_shared (line %s) filled %s / %s' % (f_.line, ex.pretty(f_.args[0]), ex.pretty(f_.args[1]), c_.line, ex.pretty(c_.args[1]), ex.pretty(c_.args[2]))
    ctx.check(okpair, 'R4', 'copy callback: each side is framed with the block list and the offset smpi_is_shared filled for that side', where(cb), detail, key='R4|smpi_comm_copy_buffer_callback|offset of its side')
    run_raw_lists(ctx, P, A)
    return EXPLANATION
