"""C08 — Mailbox communications are exactly-once, FIFO and intact (DESIGN.md 3, C08)."""
import itertools

from .. import ex, lib
from ..core import where
from ..ir import AnalysisBroken

UNITS = ['src/kernel/activity/CommImpl.cpp', 'src/kernel/activity/MailboxImpl.cpp']
MB = 'simgrid::kernel::activity::MailboxImpl'
CO = 'simgrid::kernel::activity::CommImpl'
EXPLANATION = ('CFG-path rules on MailboxImpl::{push,push_done,remove,find_matching_comm,iprobe,clear} and CommImpl::{isend,irecv,'
               'copy_data,finish}: both queues are inserted only at the back and searched front to back; the match predicate is '
               'type == wanted && (!mine || mine(..)) && (!theirs || theirs(..)) (truth table over its atoms); the consuming call sites '
               'remove the match and the probing ones do not; isend/irecv either match or push, exactly once per path; the payload is '
               'copied at most once, min(src size, dst capacity) bytes; finish leaves the mailbox before answering.')


def run(ctx):
    P = ctx.load(UNITS)
    A = ctx.analyzer
    qs = [f for f in lib.fields(P, MB) if CO in f[1] and f[1].startswith(('boost::circular_buffer_space_optimized<', 'boost::circular_buffer<', 'std::deque<', 'std::list<', 'std::vector<'))]
    if len(qs) != 2:
        raise AnalysisBroken('expected two comm queues in MailboxImpl, found %s' % [q[0] for q in qs])
    qnames = [q[2] for q in qs]
    fmc = P.fn(MB + '::find_matching_comm')

    # ---- R1 FIFO ------------------------------------------------------------------------------------------------------------
    ctx.rule('R1', 'both comm queues are inserted only at the back; matching scans front to back; removals erase a found element', 8)
    allowed = {MB + '::push': {'insert_back'}, MB + '::push_done': {'insert_back'}, MB + '::remove': {'scan', 'erase'},
               MB + '::clear': {'iter', 'clear', 'read_back', 'remove_back'}, fmc['q']: {'read', 'alias'},
               MB + '::front': {'read_front'}, MB + '::done_front': {'read_front'}, MB + '::MailboxImpl': {'arg', 'write'},
               MB + '::iprobe': {'addr'}}   # iprobe: address printed by a debug log line
    _eff, _owners = lib.effective_allowed(allowed, lib.class_call_closure(P, A, 'simgrid::kernel::activity::'))
    for qn in qnames:
        for u in lib.field_uses(P, qn):
            if u.kind == 'write' and u.op == 'init':
                continue
            cls = u.kind if u.kind != 'call' else lib.CONTAINER_OPS.get(u.method, 'other:' + str(u.method))
            if cls == 'query':
                continue
            own = _owners(u.fn['q'])      # the operations of a private helper belong to the entry points that call it
            ok = bool(own) and all(cls in _eff.get(o, set()) for o in own)
            ctx.check(ok, 'R1', '%s op %s in %s' % (qn.rsplit('::', 1)[-1], u.method or u.kind, u.fn['q'].replace('simgrid::kernel::activity::', '')), where(u.fn, u.line),
                      'class %s %s' % (cls, '' if ok else 'not allowed here'), key='R1|%s|%s' % (u.fn['q'].rsplit('::', 1)[-1], cls))
    # inside find_matching_comm the selected queue is bound to a reference; the scan must be begin()->end() on it
    v = A.view(fmc)
    paths = [p for p in v.paths() if p.exit not in ('noreturn', 'cut', 'throw')]
    ctx.count('paths', len(paths))
    done_p = lib.parm(fmc, 'done') if any(p['n'] == 'done' for p in fmc['params']) else None
    rem_p = None
    for p_ in fmc['params']:
        if fmc.tstr(p_['t']) == 'bool' and 'remove' in p_['n']:
            rem_p = ('var', 'parm', p_['n'], 0)
    if rem_p is None:
        raise AnalysisBroken('find_matching_comm: remove flag parameter not found')
    npaths = 0
    lam_key = None
    for p in paths:
        evs = v.path_events(p)
        alias = [e for e in evs if e.kind == 'assign' and e.decl and e.rhs[0] == 'cond']
        ff = [e for e in evs if e.kind == 'call' and e.q in ('std::find_if', 'boost::range::find_if')]
        if len(ff) == 0 and len(alias) <= 1:
            # a way out of the search that never looked at the queue: whatever it returns, an older matching communication may have been skipped
            conds = [('%s%s' % ('' if e.pol else '!', ex.pretty(e.atom))) for e in evs if e.kind == 'branch']
            ret = [e for e in evs if e.kind == 'return']
            if any(e.kind == 'branch' and e.pol and e.atom[0] == 'truthy' and e.atom[1][0] == 'call' and e.atom[1][1].endswith('::empty') and
                   (e.atom[1][2] in [a_.lhs for a_ in alias] or (e.atom[1][2][0] == 'field' and e.atom[1][2][2] in qnames)) for e in evs) and ret and ret[0].val is not None and 'null' in repr(ret[0].val):
                continue        # nothing to scan in an empty queue: same answer as the scan
            ctx.violation('R1', 'find_matching_comm returns without scanning the queue', where(fmc, ret[0].line if ret else None),
                          'on the path %s the result (%s) is decided without the front-to-back scan: the oldest matching communication can be missed' % (' && '.join(conds)[:200] or '(unconditional)', ex.pretty(ret[0].val) if ret and ret[0].val else 'void'),
                          key='R1|find_matching_comm|scan skipped')
            continue
        if len(ff) != 1 or len(alias) != 1:
            ctx.unrecognised('R1', 'find_matching_comm: queue selection / search idiom not recognised')
            continue
        qv = alias[0].lhs
        sel = alias[0].rhs
        oksel = {sel[2][2] if sel[2][0] == 'field' else None, sel[3][2] if sel[3][0] == 'field' else None} == set(qnames)
        f = ff[0]
        fwd = len(f.args) == 3 and f.args[0] == ('call', f.args[0][1], qv, ()) and f.args[0][1].endswith('::begin') and f.args[1][0] == 'call' and f.args[1][1].endswith('::end') and f.args[1][2] == qv
        npaths += 1
        ctx.check(oksel and fwd, 'R1', 'find_matching_comm scans the selected queue from begin() to end()', where(fmc, f.line), ex.pretty(f.nf)[:120], key='R1|find_matching_comm|direction')
        lam_key = f.args[2][1] if f.args[2][0] == 'lambda' else None
        it = [e.lhs for e in evs if e.kind == 'assign' and e.rhs == f.nf]
        found = None
        for e in evs:
            if e.kind == 'branch' and e.atom[0] == 'bin' and e.atom[1] == '==' and it and it[0] in (e.atom[2], e.atom[3]) and any(t[0] == 'call' and t[1].endswith('::end') for t in (e.atom[2], e.atom[3])):
                found = not e.pol
        rm = None
        for e in evs:
            if e.kind == 'branch' and e.atom == lib.truthy(rem_p):
                rm = e.pol
        erases = [e for e in evs if e.kind == 'call' and e.obj == qv and e.q.endswith('::erase')]
        ret = [e for e in evs if e.kind == 'return']
        if found is None:
            ctx.unrecognised('R3', 'find_matching_comm: found test not recognised')
        elif not found:
            ctx.check(not erases and ret and ret[0].val == ('null',), 'R3', 'find_matching_comm: nothing found -> nothing removed, null returned', where(fmc), '', key='R3|find_matching_comm|not found')
        else:
            ok = rm is not None and (len(erases) == 1) == rm and (not erases or erases[0].args == (it[0],)) and ret and ret[0].val != ('null',)
            ctx.check(ok, 'R3', 'find_matching_comm: found, remove_matching=%s' % rm, where(fmc), 'erase x%d' % len(erases), key='R3|find_matching_comm|erase iff remove_matching')
    ctx.require(npaths >= 3, 'R1', 'find_matching_comm paths not recognised')

    # ---- R2 predicate ---------------------------------------------------------------------------------------------------------
    ctx.rule('R2', 'match predicate == (type == wanted) && (!mine || mine(my data, their data, comm)) && (!theirs || theirs(their data, my data, my synchro))', 32)
    if lam_key is None or lam_key not in P.fns:
        ctx.unrecognised('R2', 'predicate lambda not found')
    else:
        lf = P.fns[lam_key]
        lv = A.view(lf)
        rets = []
        for lp in lv.paths():
            if lp.exit in ('noreturn', 'cut', 'throw'):
                continue
            for e in lv.path_events(lp):
                if e.kind == 'return':
                    rets.append(e.val)
        rets = list(dict.fromkeys(rets))
        if len(rets) != 1:
            ctx.unrecognised('R2', 'predicate has %d distinct return expressions' % len(rets))
        else:
            t = rets[0]
            atoms = lib.bool_atoms(t)
            comm = lib.parm_i(lf, 0)

            def cls(a):
                r = repr(a)
                if a[0] == 'bin' and a[1] == '==' and 'get_type' in r:
                    return 'T'
                inner = a[1] if a[0] == 'truthy' else a
                if inner[0] == 'call' and inner[1].endswith('::operator()'):
                    return 'MR' if inner[2][0] == 'var' else 'CR'
                if inner[0] == 'var':
                    return 'M'
                if inner[0] == 'field' and inner[1] == comm:
                    return 'C'
                return '?'
            kinds = [cls(a) for a in atoms]
            missing = [k_ for k_ in ('C', 'CR', 'M', 'MR', 'T') if k_ not in kinds]
            if '?' not in kinds and missing and len(set(kinds)) == len(kinds):
                # every atom present is one of the reference conjuncts, some reference conjunct is gone
                names = {'T': 'the type test', 'M': 'the filter of the searching side', 'MR': 'the filter of the searching side', 'C': 'the filter of the queued side', 'CR': 'the filter of the queued side'}
                ctx.violation('R2', 'predicate keeps every conjunct of the reference', where(lf), 'the predicate no longer contains %s: a queued communication that must be refused is matched' % ' and '.join(sorted(set(names[m] for m in missing))),
                              key='R2|predicate|truth table')
            elif sorted(kinds) != ['C', 'CR', 'M', 'MR', 'T']:
                ctx.unrecognised('R2', 'predicate atoms not recognised: %s' % [ex.pretty(a) for a in atoms])
            else:
                for row in itertools.product((False, True), repeat=5):
                    val = dict(zip(atoms, row))
                    k = dict(zip(kinds, row))
                    want = k['T'] and ((not k['M']) or k['MR']) and ((not k['C']) or k['CR'])
                    got = lib.bool_eval(t, val)
                    ctx.check(got == want, 'R2', 'predicate row %s' % ' '.join('%s=%d' % (n, k[n]) for n in ('T', 'M', 'MR', 'C', 'CR')), where(lf), 'code %s reference %s' % (got, want), key='R2|predicate|truth table')
                # argument order of the two user predicates
                mr = [a for a in atoms if cls(a) == 'MR'][0]
                cr = [a for a in atoms if cls(a) == 'CR'][0]
                mr = mr[1] if mr[0] == 'truthy' else mr
                cr = cr[1] if cr[0] == 'truthy' else cr
                names_m = [x[2] if x[0] == 'var' else ex.pretty(x) for x in mr[3]]
                names_c = [x[2] if x[0] == 'var' else ex.pretty(x) for x in cr[3]]
                okm = len(names_m) == 3 and names_m[0] == 'this_match_data' and names_m[1] == 'other_match_data' and mr[3][2] == comm
                okc = len(names_c) == 3 and names_c[0] == 'other_match_data' and names_c[1] == 'this_match_data' and 'my_synchro' in names_c[2]
                ctx.check(okm and okc, 'R2', 'predicate argument order (mine: my data first; theirs: their data first)', where(lf), 'mine%s theirs%s' % (names_m, names_c), key='R2|predicate|argument order')

    # ---- R3 consuming vs probing call sites -----------------------------------------------------------------------------------------
    ctx.rule('R3', 'isend/irecv call find_matching_comm with remove_matching=true, iprobe with false; a found element is erased iff remove_matching', 7)
    ridx = [i for i, p_ in enumerate(fmc['params']) if ('var', 'parm', p_['n'], 0) == rem_p][0]
    sites = {}
    for fn in P.fns.values():
        for eid in range(len(fn.get('elems') or ())):
            for n in ex.walk(fn['elems'][eid]['x']):
                if n.get('k') == 'Call' and (n.get('c') or {}).get('q') == fmc['q']:
                    a = n['a'][ridx] if len(n.get('a', ())) > ridx else None
                    sites.setdefault(fn['q'], []).append((fn, n, a))
    want_rm = {CO + '::isend': True, CO + '::irecv': True, MB + '::iprobe': False}
    for fq, lst in sorted(sites.items()):
        for fn, n, a in lst:
            val = a.get('v') if a and a.get('k') == 'Bool' else None
            if fq not in want_rm:
                ctx.violation('R3', 'unexpected caller of find_matching_comm: %s' % fq, where(fn, n.get('l')), 'only isend, irecv and iprobe search the mailbox', key='R3|%s|unexpected caller' % fq)
                continue
            ctx.check(val is want_rm[fq], 'R3', '%s passes remove_matching=%s' % (fq.rsplit('::', 1)[-1], val), where(fn, n.get('l')), 'expected %s' % want_rm[fq], key='R3|%s|remove flag' % fq.rsplit('::', 1)[-1])
    # a sender looks for queued receives and a receiver for queued sends; the match data the predicate reads for a queued comm of type T is the field that the
    # T-side entry point writes
    own = {'isend': 'SEND', 'irecv': 'RECEIVE'}
    tix = 0
    for fq, lst in sorted(sites.items()):
        short = fq.rsplit('::', 1)[-1]
        if short not in own:
            continue
        for fn, n, a in lst:
            t0 = ex.Norm(fn)(n['a'][tix]) if n.get('a') else ('none',)
            nm = t0[1].rsplit('::', 1)[-1] if t0[0] == 'enum' else ex.pretty(t0)
            ctx.check(nm in ('SEND', 'RECEIVE') and nm != own[short], 'R3', '%s searches the queue for the opposite kind (%s)' % (short, nm), where(fn, n.get('l')), 'own kind %s' % own[short],
                      key='R3|%s|searched kind' % short)
    if lam_key is not None and lam_key in P.fns:
        lf = P.fns[lam_key]
        lv = A.view(lf)
        picks = {}
        for eid in range(len(lf['elems'])):
            for e in lv.events_of(eid):
                if e.kind == 'assign' and e.rhs[0] == 'cond':
                    c, a_, b_ = e.rhs[1], e.rhs[2], e.rhs[3]
                    while a_[0] in ('cast', 'conv'):
                        a_ = a_[2]
                    while b_[0] in ('cast', 'conv'):
                        b_ = b_[2]
                    at, pol = ex.atom(c)
                    if at[0] == 'bin' and at[1] == '==' and 'get_type' in repr(at) and a_[0] == 'field' and b_[0] == 'field':
                        en = [x for x in (at[2], at[3]) if x[0] == 'enum']
                        if en:
                            tname = en[0][1].rsplit('::', 1)[-1]
                            other = 'RECEIVE' if tname == 'SEND' else 'SEND'
                            picks[tname if pol else other] = a_[2].rsplit('::', 1)[-1]
                            picks[other if pol else tname] = b_[2].rsplit('::', 1)[-1]
        writes = {}
        for short, kind in own.items():
            f = P.fn(CO + '::' + short)
            fv = A.view(f)
            for eid in range(len(f['elems'])):
                for e in fv.events_of(eid):
                    if e.kind == 'assign' and e.lhs[0] == 'field' and e.lhs[2].endswith('_match_data_') and 'get_match_data' in repr(e.rhs):
                        writes[kind] = e.lhs[2].rsplit('::', 1)[-1]
        ctx.require(len(picks) == 2 and len(writes) == 2, 'R2', 'match data: fields read by the predicate %s / written by isend, irecv %s not recognised' % (picks, writes))
        if len(picks) == 2 and len(writes) == 2:
            ctx.check(picks == writes, 'R2', 'the predicate reads, for a queued comm of each kind, the match data that the entry point of that kind stored', where(lf),
                      'predicate reads %s; isend/irecv store %s' % (sorted(picks.items()), sorted(writes.items())), key='R2|predicate|match data of the queued side')
    ctx.require(len(sites.get(CO + '::isend', [])) == 1 and len(sites.get(CO + '::irecv', [])) == 2 and len(sites.get(MB + '::iprobe', [])) == 2, 'R3', 'call sites of find_matching_comm: %s' % {k: len(v_) for k, v_ in sites.items()})

    # ---- R4 push xor match ----------------------------------------------------------------------------------------------------------
    ctx.rule('R4', 'isend/irecv: on every path exactly one of {matched an existing comm, pushed a new one}; the observer receives that comm', 4)
    for name in ('isend', 'irecv'):
        f = P.fn(CO + '::' + name)
        v = A.view(f)
        sig_seen = set()
        for p in v.paths():
            if p.exit in ('noreturn', 'cut', 'throw'):
                continue
            ctx.count('paths')
            evs = v.path_events(p)
            finds = [e for e in evs if e.kind == 'call' and e.q == fmc['q']]
            pushes = [e for e in evs if e.kind == 'call' and e.q in (MB + '::push', MB + '::push_done')]
            others = [e.lhs for e in evs if e.kind == 'assign' and finds and e.rhs == finds[-1].nf]
            other = others[0] if others else None
            ovar = [e.lhs for e in evs if e.kind == 'assign' and e.decl and e.lhs[0] == 'var' and e.lhs[2] == 'other_comm']
            ov = other or (ovar[0] if ovar else None)
            matched = None
            if finds and ov is not None:
                for e in evs:
                    if e.kind == 'branch' and e.atom == lib.truthy(ov) and e.eid is None:
                        matched = e.pol
                for e, facts in lib.facts_walk(evs):
                    pass
            # last decision on truthy(ov) after the search decides matched
            if finds and ov is not None:
                after = False
                for e in evs:
                    if e is finds[-1]:
                        after = True
                    if after and e.kind == 'branch' and e.atom == lib.truthy(ov):
                        matched = e.pol
            if not finds:
                matched = False
            sc = [e for e in evs if e.kind == 'call' and e.q.endswith('::set_comm')]
            sig = (len(finds), matched, len(pushes), len(sc))
            if sig in sig_seen:
                continue
            sig_seen.add(sig)
            if matched is None:
                ctx.unrecognised('R4', '%s: result test of the search not recognised on a path' % name)
                continue
            ok = (matched and not pushes) or (not matched and len(pushes) == 1 and ov is not None and pushes[0].args == (ov,))
            ok2 = len(sc) == 1 and ov is not None and ex.mentions(sc[0].args[0], ov)
            ctx.check(ok and ok2, 'R4', '%s path: searched x%d matched=%s pushed x%d' % (name, len(finds), matched, len(pushes)), where(f), 'set_comm x%d' % len(sc), key='R4|%s|push xor match' % name)
            # what the data transfer needs is stored on every path: the side's actor and its buffer with the capacity of that same buffer (copy_data bounds the
            # copy by these two sizes)
            if ov is not None:
                side = 'src' if name == 'isend' else 'dst'
                who = [e for e in evs if e.kind == 'assign' and e.lhs[0] == 'field' and e.lhs[1] in (ov, ('un', '*', ov)) and e.lhs[2].endswith('::%s_actor_' % side) and 'get_issuer' in repr(e.rhs)]
                buf = [e for e in evs if e.kind == 'call' and e.q.endswith('::set_%s_buff' % side) and len(e.args) == 2]
                okb = len(buf) == 1 and ('get_%s_buff' % side) in repr(buf[0].args[0]) and ('get_%s_buff_size' % side) in repr(buf[0].args[1])
                # a comm that is pushed will be examined by the later searches: it must carry the filter and the match data of its side
                if pushes:
                    mf = [e for e in evs if e.kind == 'assign' and e.lhs[0] == 'field' and e.lhs[1] in (ov, ('un', '*', ov)) and e.lhs[2].endswith('::match_fun') and 'get_match_fun' in repr(e.rhs)]
                    mf += [e for e in evs if e.kind == 'call' and e.q.endswith('::operator=') and e.obj is not None and e.obj[0] == 'field' and e.obj[2].endswith('::match_fun') and 'get_match_fun' in repr(e.args)]
                    md = [e for e in evs if e.kind == 'assign' and e.lhs[0] == 'field' and e.lhs[1] in (ov, ('un', '*', ov)) and e.lhs[2].endswith('::%s_match_data_' % side) and 'get_match_data' in repr(e.rhs)]
                    ctx.check(len(mf) >= 1 and len(md) >= 1, 'R4', '%s path that queues the comm (%s): it carries the filter and the match data of its side' % (name, pushes[0].q.rsplit('::', 1)[-1]), where(f, pushes[0].line),
                              'match_fun stored x%d, %s_match_data_ stored x%d%s' % (len(mf), side, len(md), '' if mf and md else ': the queued comm is matched by the next opposite request whatever it asked for'),
                              key='R4|%s|queued comm carries its filter' % name)
                ctx.check(len(who) == 1 and okb, 'R4', '%s path (matched=%s): %s_actor_ and set_%s_buff(buffer, size of that buffer)' % (name, matched, side, side), where(f),
                          '%s_actor_ x%d, set_%s_buff%s' % (side, len(who), side, [ex.pretty(a) for a in buf[0].args] if buf else ' missing'), key='R4|%s|actor and buffer set' % name)

    # ---- R5 copy once, bounded ----------------------------------------------------------------------------------------------------
    ctx.rule('R5', 'copy_data: guarded by !copied_, sets copied_ on every path that may copy, copies min(src size, dst capacity) bytes', 3)
    cd = P.fn(CO + '::copy_data')
    v = A.view(cd)
    COP = lib.this_field(CO + '::copied_')
    ncopy = 0
    for p in v.paths():
        if p.exit in ('noreturn', 'cut', 'throw'):
            continue
        evs = v.path_events(p)
        copies = [(e, f_) for e, f_ in lib.facts_walk(evs) if e.kind == 'call' and (e.q == '<indirect>' or e.q.endswith('::operator()')) and e.obj is not None and 'copy_data' in repr(e.obj)]
        sets = [e for e in evs if e.kind == 'assign' and e.lhs == COP and e.rhs == ('bool', True)]
        guard = [e.pol for e in evs if e.kind == 'branch' and e.atom == lib.truthy(COP)]
        if copies:
            ncopy += 1
            ctx.check(guard == [False] and len(sets) == 1 and len(copies) == 1, 'R5', 'copy_data: a copying path is under !copied_ and sets copied_', where(cd, copies[0][0].line), 'guard %s, copied_=true x%d, copies x%d' % (guard, len(sets), len(copies)), key='R5|copy_data|copy once')
            sz = copies[0][0].args[-1]
            env = {}
            for e in evs:
                if e.kind == 'assign' and e.lhs[0] == 'var':
                    env.setdefault(e.lhs, []).append(e.rhs)
            vals = env.get(sz, [])
            okmin = any(val[0] == 'call' and val[1] == 'std::min' for val in vals)
            ctx.check(okmin, 'R5', 'copy_data: the copied length is bounded by min(src size, *dst size)', where(cd, copies[0][0].line), 'length values %s' % [ex.pretty(x) for x in vals], key='R5|copy_data|length')
        elif guard == [True]:
            ctx.check(not sets, 'R5', 'copy_data: already copied -> nothing happens', where(cd), '', key='R5|copy_data|already copied')
    ctx.require(ncopy >= 2, 'R5', 'copy paths not recognised (%d)' % ncopy)

    # ---- R6 finish leaves the mailbox before answering -----------------------------------------------------------------------------
    ctx.rule('R6', 'CommImpl::finish removes the comm from its mailbox (when it is in one) before any simcall is answered', 1)
    fin = P.fn(CO + '::finish')
    from ..cfg import abstract_run
    MBOX = lib.this_field(CO + '::mbox_')

    def tr(st, e):
        inmb, removed, bad = st
        if e.kind == 'branch' and e.atom == lib.truthy(MBOX):
            inmb = 'yes' if e.pol else 'no'
        if e.kind == 'call' and e.q == MB + '::remove' and e.obj == MBOX:
            removed = True
        if e.kind == 'call' and e.q.endswith('::simcall_answer') and not (removed or inmb == 'no'):
            bad = True
        return (inmb, removed, bad)
    exits = abstract_run(A, fin, ('?', False, False), tr)
    bad = [s for s in exits['normal'] if s[2]]
    ctx.check(not bad and bool(exits['normal']), 'R6', 'finish: every answer happens after mbox_->remove(this) or with no mailbox', where(fin), 'exit states %s' % sorted(exits['normal']), key='R6|finish|answer before remove')
    return EXPLANATION
