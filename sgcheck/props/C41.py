"""C41 — Counter-examples are replayable (DESIGN.md 3, C41): the record-path writer and parser agree on the grammar."""
from .. import cg, ex, lib
from ..core import where
from ..ir import AnalysisBroken

UNITS = ['src/mc/mc_record.cpp']
RT = 'simgrid::mc::RecordTrace'
EXPLANATION = ('Writer/reader table agreement on the record path: RecordTrace::to_string emits, per transition, an optional separator (not before the '
               'first), the actor id, and - only when times_considered > 0 - a second separator followed by times_considered; the constructor '
               'parses each chunk with one sscanf format made of the same two conversions around the same second separator, accepts one or two '
               'conversions, defaults times_considered to the value the writer omits (0), and finds the next chunk with strchr of the same first '
               'separator.  The replay drives each step through the same serialize / deserialize_transition pair as the checker (C43).')


def run(ctx):
    P = ctx.load(UNITS)
    A = ctx.analyzer
    ctx.rule('R1', 'the record path printed by to_string() is exactly what the RecordTrace constructor parses', 5)
    ts = P.fn(RT + '::to_string')
    v = A.view(ts)
    # writer: the stream insertions with their guards, over one loop iteration
    chunks = []     # (kind, value, guard)
    loops = v.loop_heads()
    if len(loops) != 1:
        raise AnalysisBroken('to_string: expected one loop, found %d' % len(loops))
    body = cg.natural_loop(v, loops[0]['id'])
    from ..lib import dominating_facts
    for b in sorted(body, reverse=True):
        for eid in v.blocks[b].get('e', []):
            for e in v.events_of(eid):
                if e.kind == 'call' and e.q.endswith('operator<<') and e.eid == eid:
                    arg = e.args[-1] if e.args else None
                    if arg is None:
                        continue
                    dom = dominating_facts(A, ts, ts['elems'][eid]['x'], with_lines=True)
                    hl = loops[0]['t'].get('l', 0)
                    guards = [(a_, t_) for a_, t_, l_ in dom if l_ >= hl and not (a_ == v.cond_atom(loops[0]['id'])[0])]
                    a0 = arg
                    while a0[0] in ('cast', 'conv'):
                        a0 = a0[2]
                    if a0[0] == 'int' and 0 < a0[1] < 128:
                        chunks.append(('char', chr(a0[1]), guards, e.line))
                    elif a0[0] == 'str':
                        chunks.append(('str', a0[1], guards, e.line))
                    else:
                        chunks.append(('value', a0, guards, e.line))
    # nested insertions appear several times (a << b << c): keep distinct lines/kinds in order
    seen = set()
    seq = []
    for c in chunks:
        k = (c[0], repr(c[1]))
        if k in seen:
            continue
        seen.add(k)
        seq.append(c)
    seps = [c for c in seq if c[0] in ('char', 'str')]
    vals = [c for c in seq if c[0] == 'value']
    if len(seps) != 2 or len(vals) != 2:
        ctx.unrecognised('R1', 'to_string: expected separator, aid, separator, times; found %s' % [(c[0], c[1] if c[0] != 'value' else ex.pretty(c[1])) for c in seq])
        return EXPLANATION
    first_sep = [c for c in seps if any('begin' in repr(a_) for a_, _ in c[2])]
    second_sep = [c for c in seps if c not in first_sep]
    aidv = [c for c in vals if 'aid_' in repr(c[1])]
    timesv = [c for c in vals if 'times_considered_' in repr(c[1])]
    if len(first_sep) != 1 or len(second_sep) != 1 or len(aidv) != 1 or len(timesv) != 1:
        ctx.unrecognised('R1', 'to_string: roles of the emitted pieces not recognised')
        return EXPLANATION
    sep1, sep2 = first_sep[0][1], second_sep[0][1]

    # the two numbers written are the members themselves (casts aside), not something computed from them
    def plain(t):
        while t[0] in ('cast', 'conv'):
            t = t[2]
        return not any(x[0] == 'bin' and x[1] in ('+', '-', '*', '/', '%') for x in ex.subterms(t))
    ctx.check(plain(aidv[0][1]) and plain(timesv[0][1]), 'R1', 'writer: the numbers written are aid_ and times_considered_ themselves', where(ts, aidv[0][3]),
              'writes %s and %s' % (ex.pretty(aidv[0][1]), ex.pretty(timesv[0][1])), key='R1|to_string|values written')
    # guard of the first separator: not the first element
    g1 = first_sep[0][2]
    ok_g1 = any(a_[0] == 'bin' and a_[1] == '==' and 'begin' in repr(a_) and t_ is False for a_, t_ in g1)
    ctx.check(ok_g1, 'R1', "writer: '%s' is written before every element except the first" % sep1, where(ts, first_sep[0][3]), '', key='R1|to_string|separator placement')
    # guard of times: times_considered_ > 0, shared by the second separator and the value
    def gt0(gs):
        return any(a_[0] == 'bin' and a_[1] == '<=' and 'times_considered_' in repr(a_[2]) and a_[3] == ('int', 0) and t_ is False for a_, t_ in gs)
    ctx.check(gt0(second_sep[0][2]) and gt0(timesv[0][2]), 'R1', "writer: '%s' and times_considered are written together, only when times_considered > 0" % sep2, where(ts, timesv[0][3]), '',
              key='R1|to_string|times guard')
    ctx.check(not [g for g in aidv[0][2] if 'times' in repr(g)], 'R1', 'writer: the actor id is written for every transition', where(ts, aidv[0][3]), '', key='R1|to_string|aid always')

    # reader
    ct = [f for f in P.fns_named(RT + '::RecordTrace') if len(f['params']) == 1 and f.get('blocks')]
    if len(ct) != 1:
        raise AnalysisBroken('RecordTrace(const std::string&): %d definitions' % len(ct))
    ct = ct[0]
    v = A.view(ct)
    scan = None
    strchr = None
    counts = set()
    tdef = None
    for eid in range(len(ct['elems'])):
        for e in v.events_of(eid):
            if e.kind == 'call' and e.q in ('sscanf', 'std::sscanf', '__isoc99_sscanf', '__isoc23_sscanf'):
                scan = e
            if e.kind == 'call' and e.q in ('strchr', 'std::strchr'):
                strchr = e
            if e.kind == 'assign' and e.decl and e.lhs[0] == 'var' and e.lhs[2] == 'times_considered':
                tdef = e.rhs
    for b in v.blocks:
        at = v.cond_atom(b['id'])
        if at and at[0][0] == 'bin' and at[0][1] == '==' and at[0][2][0] == 'var' and at[0][2][2] == 'count' and at[0][3][0] == 'int':
            counts.add(at[0][3][1])
    if scan is None or strchr is None:
        ctx.unrecognised('R1', 'constructor: sscanf / strchr not found')
        return EXPLANATION
    fmt = scan.args[1][1] if scan.args[1][0] == 'str' else None
    ctx.check(fmt == '%u' + sep2 + '%d', 'R1', 'reader: one chunk is parsed with the format "<unsigned>%s<int>"' % sep2, where(ct, scan.line), 'format %r, writer emits aid %r times' % (fmt, sep2), key='R1|constructor|format')
    sc = strchr.args[1]
    while sc[0] in ('cast', 'conv'):
        sc = sc[2]
    ctx.check(sc[0] == 'int' and chr(sc[1]) == sep1, 'R1', "reader: the next chunk starts after the next '%s'" % sep1, where(ct, strchr.line), 'strchr(%r)' % (chr(sc[1]) if sc[0] == 'int' else '?'),
              key='R1|constructor|chunk separator')
    ctx.check(counts == {1, 2}, 'R1', 'reader: a chunk with or without times_considered is accepted', where(ct, scan.line), 'accepted conversion counts %s' % sorted(counts), key='R1|constructor|optional times')
    # the default holds for *each* chunk: times_considered is (re)set to 0 inside the loop that parses the chunks, before the sscanf of that chunk
    per_chunk = False
    sblk = ct['elems'][scan.eid]['b']
    for h in v.loop_heads():
        body = cg.natural_loop(v, h['id']) | {h['id']}
        if sblk in body:
            for eid in range(len(ct['elems'])):
                for e in v.events_of(eid):
                    if e.eid == eid and e.kind == 'assign' and e.lhs[0] == 'var' and e.lhs[2] == 'times_considered' and e.rhs == ('int', 0) and ct['elems'][eid]['b'] in body:
                        per_chunk = True
    ctx.check(tdef == ('int', 0) and per_chunk, 'R1', 'reader: an omitted times_considered is 0 (the only value the writer omits, times being non-negative), for every chunk', where(ct),
              'default %s%s' % (ex.pretty(tdef) if tdef else '?', '' if per_chunk else '; it is set once before the loop: a chunk without "/n" inherits the value parsed for an earlier chunk'),
              key='R1|constructor|default times')
    okpush = any(e.kind == 'new' and 'aid' in repr(e.nf) and 'times_considered' in repr(e.nf) for eid in range(len(ct['elems'])) for e in v.events_of(eid))
    ctx.check(okpush, 'R1', 'reader: each chunk becomes a Transition(aid, times_considered)', where(ct), '', key='R1|constructor|transition')

    ctx.rule('R2', 'replay steps go through the same serialize / deserialize_transition pair as the checker', 1)
    cm = [f for f in P.fns.values() if f['q'].endswith('create_mc_transition') and f.get('blocks')]
    ok2 = False
    for f in cm:
        vv = A.view(f)
        qs = [e.q for p in vv.paths() for e in vv.path_events(p) if e.kind == 'call']
        ok2 = any(q.endswith('SimcallObserver::serialize') for q in qs) and any(q.endswith('deserialize_transition') for q in qs)
    rp = P.fn(RT + '::replay', 0)
    vv = A.view(rp)
    handle = any(e.kind == 'call' and e.q.endswith('ActorImpl::simcall_handle') and 'times_considered_' in repr(e.args) for eid in range(len(rp['elems'])) for e in vv.events_of(eid))
    ctx.check(ok2 and handle, 'R2', 'RecordTrace::replay: simcall_handle(times_considered) then observer serialize -> deserialize_transition', where(rp), '', key='R2|replay|same codec')
    ctx.assume('that the failure reported by the checker is reached again by the replay (determinism of the application) is C01/C43, not decided here')
    return EXPLANATION
