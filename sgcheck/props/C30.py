"""C30 — Derived datatypes (DESIGN.md 3, C30, thin): extremum-update coherence of the lb/ub accumulators, rejection of negative block lengths."""
from .. import cg, ex, lib
from ..core import where
from ..ir import AnalysisBroken

UNITS = ['src/smpi/mpi/smpi_datatype.cpp', 'src/smpi/mpi/smpi_datatype_derived.cpp', 'src/smpi/bindings/smpi_pmpi_type.cpp']
D = 'simgrid::smpi::Datatype'
EXPLANATION = ('For Datatype::create_{indexed,hindexed,struct}: every update of the lb / ub accumulator is an extremum idiom `if (e < lb) lb = e` / '
               '`if (e > ub) ub = e` whose stored value is the compared value (so the bound kept is the min / max over the blocks of exactly the '
               'quantity the code compares) and whose initial value is that same quantity for block 0; a negative block length returns MPI_ERR_ARG '
               'before any type is built in the five constructors; size accumulates block_length (times the old size) for every block.')


def subst(t, a, b):
    """t with every occurrence of term a replaced by b"""
    if t == a:
        return b
    if not isinstance(t, tuple):
        return t
    return tuple(subst(x, a, b) if isinstance(x, tuple) else x for x in t)


def commut_eq(a, b):
    """structural equality modulo commutativity of + and *"""
    if a == b:
        return True
    if a[0] == 'cast':
        return commut_eq(a[2], b)
    if b[0] == 'cast':
        return commut_eq(a, b[2])
    if a[0] == 'bin' and b[0] == 'bin' and a[1] == b[1] and a[1] in ('+', '*'):
        return (commut_eq(a[2], b[2]) and commut_eq(a[3], b[3])) or (commut_eq(a[2], b[3]) and commut_eq(a[3], b[2]))
    if a[0] == b[0] and len(a) == len(b) and a[0] in ('bin', 'idx', 'un'):
        return all(commut_eq(x, y) if isinstance(x, tuple) and x and isinstance(x[0], str) else x == y for x, y in zip(a[1:], b[1:]))
    return False


def run(ctx):
    P = ctx.load(UNITS)
    A = ctx.analyzer
    ctx.rule('R1', 'each lb/ub update stores the value it compares, in the direction of its role (lb: min, ub: max), and starts from the same quantity for block 0', 6)
    ctx.rule('R2', 'a negative block length returns MPI_ERR_ARG before any datatype is constructed', 5)
    ctx.rule('R7', 'create_indexed / hindexed / struct: the lb / ub updates are reached only for blocks of positive length (a zero-length block has no entry in the type map, MPI 4.1.7)', 3)
    ctx.rule('R3', 'the size accumulates every block', 3)
    for name in ('create_indexed', 'create_hindexed', 'create_struct'):
        f = P.fn(D + '::' + name)
        v = A.view(f)
        loops = [h for h in v.loop_heads()]
        if len(loops) != 1:
            ctx.unrecognised('R1', '%s: expected one loop over the blocks, found %d' % (name, len(loops)))
            continue
        h = loops[0]
        at = v.cond_atom(h['id'])
        ivar = at[0][2] if at and at[0][0] == 'bin' and at[0][1] == '<' else None
        body = cg.natural_loop(v, h['id'])
        for acc, role in (('lb', 'min'), ('ub', 'max')):
            accv = None
            # conditional updates of the accumulator inside the loop
            found = 0
            for b in sorted(body, reverse=True):
                for eid in v.blocks[b].get('e', []):
                    for e in v.events_of(eid):
                        if e.kind == 'assign' and e.op == '=' and e.lhs[0] == 'var' and e.lhs[2] == acc and not e.decl:
                            accv = e.lhs
                            # the closest dominating comparison against the accumulator
                            from .C13 import _dominating_facts
                            dom = _dominating_facts(A, f, f['elems'][eid]['x'])
                            cmps = []
                            for a_, t_ in dom:
                                if a_[0] == 'bin' and a_[1] in ('<', '<=') and (a_[2] == accv or a_[3] == accv):
                                    # normalise to (compared expression e, relation of e to the accumulator)
                                    if a_[3] == accv:     # e op acc
                                        rel_ = {('<', True): 'lt', ('<', False): 'ge', ('<=', True): 'le', ('<=', False): 'gt'}[(a_[1], t_)]
                                        cmps.append((a_[2], rel_))
                                    else:                # acc op e
                                        rel_ = {('<', True): 'gt', ('<', False): 'le', ('<=', True): 'ge', ('<=', False): 'lt'}[(a_[1], t_)]
                                        cmps.append((a_[3], rel_))
                            forced = [a_ for a_, t_ in dom if a_[0] == 'truthy' and a_[1][0] == 'var' and a_[1][2].startswith('forced_')]
                            if not cmps:
                                if any('MPI_LB' in repr(a_) or 'MPI_UB' in repr(a_) or 'smpi_MPI_LB' in repr(a_) or 'smpi_MPI_UB' in repr(a_) for a_, _t in dom):
                                    continue     # explicit MPI_LB / MPI_UB marker: the bound is forced, not an extremum
                                ctx.unrecognised('R1', '%s: assignment to %s at line %s is not guarded by a comparison with it' % (name, acc, e.line))
                                continue
                            cexp, rel = cmps[-1]
                            found += 1
                            same = commut_eq(cexp, e.rhs)
                            okdir = rel == ('lt' if role == 'min' else 'gt')
                            ctx.check(same and okdir, 'R1', '%s: %s update' % (name, acc), where(f, e.line),
                                      'compares %s %s %s, stores %s%s' % (ex.pretty(cexp), {'lt': '<', 'gt': '>', 'le': '<=', 'ge': '>='}[rel], acc, ex.pretty(e.rhs),
                                                                            '' if same else ': the bound kept is not the %s of the compared quantity' % role),
                                      key='R1|%s|%s update' % (name, acc))
                            # initial value: the compared quantity for block 0
                            inits = [x for eid2 in range(len(f['elems'])) for x in v.events_of(eid2)
                                     if x.kind == 'assign' and x.lhs == accv and not x.decl and x.eid != eid and
                                     [bb['id'] for bb in v.blocks if x.eid in bb.get('e', [])][0] not in body]
                            if ivar is not None and inits:
                                want = subst(cexp, ivar, ('int', 0))
                                got = inits[-1].rhs
                                # block_lengths[0]*ub vs loop form: compare structurally
                                ctx.check(commut_eq(want, got), 'R1', '%s: initial %s is the compared quantity for block 0' % (name, acc), where(f, inits[-1].line),
                                          'initial %s, loop compares %s' % (ex.pretty(got), ex.pretty(cexp)), key='R1|%s|%s initial' % (name, acc))
            if found == 0:
                ctx.unrecognised('R1', '%s: no extremum update of %s found' % (name, acc))
        # R7: a block of length 0 has no entry in the type map (MPI 4.1.7: lb = min of the displacements of the entries): it may not move a bound
        unguarded = []
        nsites = 0
        for b in sorted(body, reverse=True):
            for eid in v.blocks[b].get('e', []):
                for e in v.events_of(eid):
                    if e.kind == 'assign' and e.op == '=' and e.lhs[0] == 'var' and e.lhs[2] in ('lb', 'ub') and not e.decl:
                        from .C13 import _dominating_facts
                        dom = _dominating_facts(A, f, f['elems'][eid]['x'])
                        if any('MPI_LB' in repr(a_) or 'MPI_UB' in repr(a_) for a_, _t in dom) and not any(a_[0] == 'bin' and (a_[2] == e.lhs or a_[3] == e.lhs) for a_, _t in dom):
                            continue      # forced by an explicit marker
                        nsites += 1

                        def nonempty(a_, t_):
                            if not (a_[0] == 'bin' and 'block_length' in repr(a_)):
                                return False
                            x, y = a_[2], a_[3]
                            if 'block_length' in repr(x) and y[0] == 'int':
                                return (a_[1] == '<=' and y[1] == 0 and not t_) or (a_[1] == '<' and y[1] == 1 and not t_) or (a_[1] == '==' and y[1] == 0 and not t_)
                            if 'block_length' in repr(y) and x[0] == 'int':
                                return (a_[1] == '<' and x[1] == 0 and t_) or (a_[1] == '<=' and x[1] == 1 and t_) or (a_[1] == '==' and x[1] == 0 and not t_)
                            return False
                        if not any(nonempty(a_, t_) for a_, t_ in dom):
                            unguarded.append(e)
        if nsites:
            ctx.check(not unguarded, 'R7', '%s: a block of length 0 does not move lb / ub' % name, where(f, unguarded[0].line if unguarded else None),
                      '%d of %d bound update(s) are reached for an empty block: its displacement enters the minimum / maximum although the block has no entry in the type map' % (len(unguarded), nsites)
                      if unguarded else '%d update(s), all under block length > 0' % nsites, key='R7|%s|empty blocks' % name)
        # size accumulation: unconditional in the body (only preceded by the negative-length return)
        sz = [e for b in body for eid in v.blocks[b].get('e', []) for e in v.events_of(eid) if e.kind == 'assign' and e.op == '+=' and e.lhs[0] == 'var' and e.lhs[2] == 'size']
        oks = len(sz) == 1 and 'block_lengths' in repr(sz[0].rhs) and ivar is not None and ex.mentions(sz[0].rhs, ivar)
        if oks:
            # unconditional inside the loop: the only in-loop conditions dominating it are the loop test and the negative-length rejection
            from .C13 import _dominating_facts
            IN, tb_ = _dominating_facts(A, f, f['elems'][sz[0].eid]['x'], with_lines=True, all_blocks=True)
            hl = h['t'].get('l', 0)
            extra = [a_ for a_, t_, l_ in IN.get(tb_, ()) if l_ > hl and not (a_[0] == 'bin' and a_[1] == '<' and a_[3] == ('int', 0) and 'block_length' in repr(a_[2]))
                     and not (at is not None and a_ == at[0])]
            oks = not extra
        ctx.check(oks, 'R3', '%s: size += block_lengths[i]%s for every block' % (name, ' * size of its type' if name == 'create_struct' else ''), where(f, sz[0].line if sz else None), ex.pretty(sz[0].rhs) if sz else '',
                  key='R3|%s|size' % name)
    # ---- R2 ----------------------------------------------------------------------------------------------------------------------------------------
    for name in ('create_vector', 'create_hvector', 'create_indexed', 'create_hindexed', 'create_struct'):
        f = P.fn(D + '::' + name)
        v = A.view(f)
        ok = None
        n = 0
        tb = [b_['id'] for b_ in v.blocks if v.cond_atom(b_['id']) and v.cond_atom(b_['id'])[0][0] == 'bin' and v.cond_atom(b_['id'])[0][1] == '<' and
              v.cond_atom(b_['id'])[0][3] == ('int', 0) and 'block_length' in repr(v.cond_atom(b_['id'])[0][2])]
        for p in (v.paths(start=tb[0], max_visits=1) if len(tb) == 1 else []):
            if p.exit in ('noreturn',):
                continue
            evs = v.path_events(p)
            for i, e in enumerate(evs):
                if e.kind == 'branch' and e.atom[0] == 'bin' and e.atom[1] == '<' and e.atom[3] == ('int', 0) and 'block_length' in repr(e.atom[2]) and e.pol:
                    n += 1
                    rest = evs[i + 1:]
                    ret = [x for x in rest if x.kind == 'return']
                    built = [x for x in rest if x.kind == 'new' or (x.kind == 'call' and x.q.endswith('::create_contiguous'))]
                    good = bool(ret) and ((ret[0].val[0] == 'int' and ret[0].val[1] != 0) or (ret[0].val[0] == 'enum' and ret[0].val[2] != 0)) and not built and rest.index(ret[0]) <= 1
                    ok = good if ok is None else (ok and good)
                    break
            # no construction before the test on a path that constructs
        ctx.check(bool(ok) and n >= 1, 'R2', '%s rejects a negative block length' % name, where(f), '%d path(s) through the test' % n, key='R2|%s|negative length' % name)
    ctx.assume('the extent/lb/ub formulas themselves (what quantity is compared) and the serialisation of the derived types are not decided')
    # ---- R4 packed bytes are counted in sizes, positions in the user buffer in extents ----------------------------------------------------------
    ctx.rule('R4', 'derived types: the packed cursor advances by multiples of size(), the cursor in the user buffer by byte strides/displacements or multiples of get_extent(); element strides and indices become bytes through get_extent()', 12)
    n4 = 0
    for f in sorted(P.fns.values(), key=lambda f_: f_['key']):
        q = f['q']
        if not (q.startswith('simgrid::smpi::Type_') and q.rsplit('::', 1)[-1] in ('serialize', 'unserialize') and f.get('blocks')):
            continue
        v = A.view(f)
        evs = [e for eid in range(len(f['elems'])) for e in v.events_of(eid) if e.eid == eid]
        role = {}
        for e in evs:
            if e.kind == 'assign' and e.decl and e.lhs[0] == 'var':
                src = [t for t in ex.subterms(e.rhs) if t[0] == 'var' and t[1] == 'parm']
                if src:
                    role[e.lhs] = 'user' if src[0][2].startswith('noncontiguous') else ('packed' if src[0][2].startswith('contiguous') else None)
                else:
                    loc = [t for t in ex.subterms(e.rhs) if t[0] == 'var' and t in role]
                    if loc:
                        role[e.lhs] = role[loc[0]]
        for e in evs:
            if e.kind == 'assign' and e.op == '+=' and role.get(e.lhs) in ('user', 'packed'):
                calls = [t[1].rsplit('::', 1)[-1] for t in ex.subterms(e.rhs) if t[0] == 'call']
                n4 += 1
                short = q.replace('simgrid::smpi::', '')
                if role[e.lhs] == 'packed':
                    ok = 'size' in calls and 'get_extent' not in calls
                    why = 'the packed buffer holds size() bytes per element'
                else:
                    ok = 'size' not in calls
                    why = 'consecutive elements in the user buffer are get_extent() apart, not size() (they differ for types with holes or resized types)'
                ctx.check(ok, 'R4', '%s: %s += %s' % (short, e.lhs[2], ex.pretty(e.rhs)[:70]), where(f, e.line), '' if ok else why, key='R4|%s|%s cursor line-order %d' % (short, role[e.lhs], sum(1 for x in evs if x.kind == 'assign' and x.op == '+=' and x.lhs == e.lhs and x.line <= e.line)))
    for cls, want in (('Type_Vector', 'get_extent'), ('Type_Indexed', 'get_extent')):
        cs = [f for f in P.fns.values() if f['q'] == 'simgrid::smpi::%s::%s' % (cls, cls) and f.get('blocks')]
        for f in cs:
            v = A.view(f)
            base = [e for eid in range(len(f['elems'])) for e in v.events_of(eid) if e.eid == eid and e.kind == 'call' and e.q.endswith('Type_H%s::Type_H%s' % (cls[5:].lower(), cls[5:].lower()))]
            if not base:
                continue
            args = repr(base[0].args)
            okc = 'get_extent' in args and not any(t[0] == 'call' and t[1].endswith('Datatype::size') for a_ in base[0].args for t in ex.subterms(a_))
            n4 += 1
            ctx.check(okc, 'R4', '%s: element strides / indices are converted to bytes with old_type->get_extent()' % cls, where(f, base[0].line),
                      '' if okc else 'the conversion uses size(): wrong as soon as the element type has holes or was resized', key='R4|%s|bytes per element' % cls)
    ctx.require(n4 >= 12, 'R4', 'only %d cursor updates / conversions found' % n4)
    # ---- R8 consecutive elements of a list-of-blocks type are one extent of *this* type apart, and each block sits at element base + its displacement ----------
    ctx.rule('R8', 'Type_Hindexed / Type_Struct (un)serialisers: the element base advances by this->get_extent() once per element (outer loop), and the pointer handed to the copy is '
             'the element base plus block_indices_[i]', 4)
    for cls in ('Type_Hindexed', 'Type_Struct'):
        for meth in ('serialize', 'unserialize'):
            f = P.fn('simgrid::smpi::%s::%s' % (cls, meth))
            v = A.view(f)
            heads = sorted(v.loop_heads(), key=lambda h_: len(cg.natural_loop(v, h_['id'])), reverse=True)
            if len(heads) != 2:
                ctx.unrecognised('R8', '%s::%s: expected the element loop and the block loop, found %d loop(s)' % (cls, meth, len(heads)))
                continue
            outer = set(cg.natural_loop(v, heads[0]['id']))
            inner = set(cg.natural_loop(v, heads[1]['id'])) | {heads[1]['id']}
            adv = []
            other = []
            blockptr = []
            for b in v.blocks:
                for eid in b.get('e', []):
                    for e in v.events_of(eid):
                        if e.eid != eid or e.kind != 'assign' or e.lhs[0] not in ('var',):
                            continue
                        uses_user = e.lhs[2].startswith('noncontiguous')
                        if not uses_user:
                            continue
                        this_ext = any(t[0] == 'call' and t[1] == D + '::get_extent' and t[2] == ('this',) for t in ex.subterms(e.rhs))
                        if b['id'] in outer and b['id'] not in inner and e.op in ('+=', '='):
                            if this_ext:
                                adv.append(e)
                            elif not e.decl or True:
                                other.append(e)
                        elif b['id'] in inner and e.op == '=':
                            blockptr.append(e)
            ldefs = {}
            for eid in range(len(f['elems'])):
                for e in v.events_of(eid):
                    if e.eid == eid and e.kind == 'assign' and e.lhs[0] == 'var' and e.lhs[1] == 'local':
                        ldefs.setdefault(e.lhs, []).append(e.rhs)

            def res(t, depth=0):
                if not isinstance(t, tuple) or depth > 3:
                    return t
                if t[0] == 'var' and t[1] == 'local' and len(ldefs.get(t, [])) == 1 and not t[2].startswith('noncontiguous'):
                    return res(ldefs[t][0], depth + 1)
                return tuple(res(x, depth) if isinstance(x, tuple) else x for x in t)
            okadv = len(adv) == 1 and not other
            okblk = len(blockptr) >= 1 and all(any(t[0] == 'idx' and any(y[0] == 'field' and y[2].endswith('::block_indices_') for y in ex.subterms(t)) for t in ex.subterms(res(e.rhs))) and
                                               not any(t[0] == 'bin' and t[1] == '+' and t[3] == ('int', 1) for t in ex.subterms(res(e.rhs))) for e in blockptr)
            ctx.check(okadv and okblk, 'R8', '%s::%s: element j+1 starts get_extent() after element j; blocks at base + displacement' % (cls, meth), where(f, (other or adv or blockptr or [None])[0].line if (other or adv or blockptr) else None),
                      'advance by this->get_extent(): %d; other per-element moves of the user pointer: %s; block pointers from block_indices_[i]: %s' %
                      (len(adv), [ex.pretty(e.rhs)[:50] for e in other], okblk) +
                      ('' if okadv and okblk else ': the next element is placed where the last block ended, which is only right when the first block is at displacement 0 and the blocks are stored in increasing order'),
                      key='R8|%s::%s|element stride' % (cls, meth))
    run_units(ctx, P, A)
    run_subarray(ctx, P, A)
    return EXPLANATION


def run_units(ctx, P, A):
    """R5: bytes and elements in the layout arithmetic of the constructors (P20)"""
    from .. import dims
    ctx.rule('R5', 'units of the layout arithmetic of Datatype::create_*: lb(), ub() and byte displacements / strides in [byte], size() and get_extent() in [byte/element], block '
             'lengths and element displacements / strides in [element], counts are pure numbers; both sides of every sum, comparison and store agree. The upper bound of a block '
             'is displacement + (block length - 1) x extent + ub: `block length x ub` is [element·byte] and is only equal to it for element types whose lb is 0', 45)
    DT = D + '::'
    Dm = dims.Dims(('byte', 'elem'), {})
    u = Dm.unit
    B, E, BPE, ONE = u(byte=1), u(elem=1), u(byte=1, elem=-1), Dm.one
    Dm.getters = {DT + 'size': BPE, DT + 'get_extent': BPE, DT + 'lb': B, DT + 'ub': B}
    pu = {}
    for fn, params in {'create_contiguous': {'count': E, 'lb': B}, 'create_vector': {'count': ONE, 'block_length': E, 'stride': E}, 'create_hvector': {'count': ONE, 'block_length': E, 'stride': B},
                       'create_indexed': {'count': ONE, 'block_lengths': E, 'indices': E}, 'create_hindexed': {'count': ONE, 'block_lengths': E, 'indices': B},
                       'create_struct': {'count': ONE, 'block_lengths': E, 'indices': B}, 'create_resized': {'lb': B, 'extent': B}}.items():
        for n_, un in params.items():
            pu[(DT + fn, n_)] = un
    Dm.param_units = pu
    # create_contiguous is also used as "count bytes of MPI_CHAR" by create_struct and with an element count by the others: its own parameters are given above and the
    # call sites are not unified with them
    fns = sorted([f for f in P.fns.values() if f['q'].startswith(DT + 'create_') and f.get('blocks') and 'subarray' not in f['q']], key=lambda f: f['key'])
    ctx.require(len(fns) >= 7, 'R5', 'only %d create_* constructors found' % len(fns))
    Dm.run(A, fns)
    calls = lambda r: r['what'].startswith('argument ')       # noqa: E731
    for r in Dm.decided:
        if not calls(r):
            ctx.holds('R5', '%s: %s %s %s' % (r['fn'].replace(DT, ''), r['a'][:70], r['what'], r['b'][:70]), '', '[%s]' % Dm.show(r['da']))
    for r in Dm.conflicts:
        if calls(r):
            continue
        f = [x for x in fns if x['q'] == r['fn']][0]
        ctx.violation('R5', '%s: %s %s %s' % (r['fn'].replace(DT, ''), r['a'][:70], r['what'], r['b'][:70]), where(f, r['line']), 'left side in [%s], right side in [%s]' % (Dm.show(r['da']), Dm.show(r['db'])),
                      key='R5|%s|%s %s %s' % (r['fn'].replace(DT, ''), r['a'][:50], r['what'], r['b'][:50]))
    for fq in ('create_vector', 'create_hvector', 'create_indexed', 'create_hindexed', 'create_struct'):
        ctx.require(any(r['fn'] == DT + fq and 'ub' in r['a'] + r['b'] for r in Dm.decided + Dm.conflicts), 'R5', 'no decided site mentions ub in %s' % fq)


def run_subarray(ctx, P, A):
    """R6: a subarray type is resized to lb 0 and the extent of the whole array (MPI 4.1.3), in the general constructor and in the one-dimensional shortcut of the binding"""
    ctx.rule('R6', 'every construction of a subarray type ends with create_resized(_, 0, E, newtype) where E is the extent of the element type times the number of elements of '
             'the whole array (every entry of array_of_sizes reaches E: a product accumulated over the dimensions, or array_of_sizes[0] when there is one dimension)', 2)
    RES = D + '::create_resized'

    def flow(f):
        """variable -> terms assigned to it anywhere in f (compound assignments included), and whether one of them is a multiplicative update inside a loop"""
        v = A.view(f)
        defs, loopmul = {}, set()
        inloop = set()
        for h in v.loop_heads():
            inloop |= set(cg.natural_loop(v, h['id']))
        for b in v.blocks:
            for eid in b.get('e', []):
                for e in v.events_of(eid):
                    if e.kind == 'assign' and e.lhs[0] == 'var':
                        defs.setdefault(e.lhs, []).append(e.rhs)
                        if e.op == '*=' and b['id'] in inloop:
                            loopmul.add(e.lhs)
        return v, defs, loopmul

    def closure(t, defs):
        """terms that flow into t through the local definitions"""
        seen, todo, out = set(), [t], []
        while todo:
            x = todo.pop()
            for y in ex.subterms(x):
                out.append(y)
                if y[0] == 'var' and y not in seen:
                    seen.add(y)
                    todo += defs.get(y, [])
        return out

    def decide(f, label, one_dim):
        v, defs, loopmul = flow(f)
        sizes_p = [('var', 'parm', p_['n'], i) for i, p_ in enumerate(f['params']) if p_['n'] == 'array_of_sizes']
        if not sizes_p:
            raise AnalysisBroken('%s: parameter array_of_sizes not found' % label)
        calls = [e for eid in range(len(f['elems'])) for e in v.events_of(eid) if e.kind == 'call' and e.q == RES]
        ctx.check(len(calls) >= 1, 'R6', '%s: the type is resized' % label, where(f), '%d create_resized call(s)' % len(calls), key='R6|%s|resized' % label)
        for e in calls:
            lbv, extv = e.args[1], e.args[2]
            while lbv[0] in ('cast', 'conv'):
                lbv = lbv[2]
            flows = closure(extv, defs)
            has_ext = any(x[0] == 'call' and isinstance(x[1], str) and x[1] == D + '::get_extent' for x in flows)
            carriers = [x for x in flows if x[0] == 'idx' and any(y[0] == 'var' and y[2] == 'array_of_sizes' for y in ex.subterms(x))]
            has_sizes = bool(carriers) or any(y[0] == 'var' and y[2] == 'array_of_sizes' for y in flows)
            prod = one_dim or any(x in loopmul for x in flows if x[0] == 'var')
            top = extv
            while top[0] in ('cast', 'conv'):
                top = top[2]
            is_product = top[0] == 'bin' and top[1] == '*' or (top[0] == 'var' and any(d[0] == 'bin' and d[1] == '*' for d in defs.get(top, [])))
            handed = any(x[0] == 'call' and any(a_[0] == 'var' and a_[2] == 'array_of_sizes' or (a_[0] == 'bin' and any(y[0] == 'var' and y[2] == 'array_of_sizes' for y in ex.subterms(a_)) and
                                                     not any(y[0] == 'idx' for y in ex.subterms(a_))) for a_ in (x[3] if len(x) > 3 and isinstance(x[3], tuple) else ())) for x in flows)
            if handed and not prod:
                ctx.unrecognised('R6', '%s: the array of sizes is handed to a function (an accumulate?) on its way to the extent; the product is not read by this rule' % label)
                continue
            ok = lbv == ('int', 0) and has_ext and has_sizes and prod and is_product
            ctx.check(ok, 'R6', '%s: resized to lb 0 and extent = elements of the whole array x extent of the element type' % label, where(f, e.line),
                      'create_resized(_, %s, %s, _): extent of the element type %s, array_of_sizes %s%s' % (ex.pretty(lbv), ex.pretty(extv)[:80], 'reaches it' if has_ext else 'does not reach it',
                                                                                                      'reaches it' if has_sizes else 'does not reach it',
                                                                                                      '' if prod else ', but no product is accumulated over the dimensions'),
                      key='R6|%s|extent of the whole array' % label)
    f = P.fn(D + '::create_subarray')
    decide(f, 'Datatype::create_subarray', False)
    g = [x for x in P.fns.values() if x['q'] == 'PMPI_Type_create_subarray' and x.get('blocks')]
    if not g:
        raise AnalysisBroken('PMPI_Type_create_subarray not found')
    g = g[0]
    gv = A.view(g)
    # the one-dimensional shortcut: the paths on which ndims == 1 holds and that do not reach Datatype::create_subarray
    short = 0
    bad = None
    for p_ in gv.paths(max_visits=2, max_paths=20000):
        if p_.exit in ('noreturn', 'cut', 'throw'):
            continue
        evs = gv.path_events(p_)
        one = any(e.kind == 'branch' and e.pol and e.atom[0] == 'bin' and e.atom[1] == '==' and e.atom[2][0] == 'var' and e.atom[2][2] == 'ndims' and e.atom[3] == ('int', 1) for e in evs)
        if not one or any(e.kind == 'call' and e.q == D + '::create_subarray' for e in evs):
            continue
        builds = [e for e in evs if e.kind == 'call' and e.q.startswith(D + '::create_')]
        if not builds:
            continue
        short += 1
        if builds[-1].q != RES:
            bad = bad or builds[-1]
    if short:
        ctx.check(bad is None, 'R6', 'PMPI_Type_create_subarray, one dimension: the last constructor called is create_resized', where(g, bad.line if bad else None),
                  'the type is returned as built by %s' % bad.q.rsplit('::', 1)[-1] if bad else '%d path(s)' % short, key='R6|PMPI_Type_create_subarray|one dimension resized')
        if bad is None:
            decide(g, 'PMPI_Type_create_subarray (one dimension)', True)
