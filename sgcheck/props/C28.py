"""C28 — MPI point-to-point matching and non-overtaking (DESIGN.md 3, C28)."""
import itertools

from .. import ex, lib
from ..cfg import abstract_run
from ..core import where
from ..ir import AnalysisBroken

UNITS = ['src/smpi/mpi/smpi_request.cpp']
RQ = 'simgrid::smpi::Request'
EXPLANATION = ('Request::match_common is reduced to a truth table over its nine comparison atoms (512 rows, from the path '
               'conditions of its CFG) and compared with (comm equal or undefined) && (source equal or ANY_SOURCE with sender in the '
               'group) && (tag equal or ANY_TAG with a non-negative sender tag); the values copied on a match, the truncation flag, the '
               'message-id bookkeeping of match_recv/match_send and the look-ahead probes of Request::start (temporary PROBE flag '
               'always cleared before the real simcall, message id recorded once) are path rules.')


def run(ctx):
    P = ctx.load(UNITS)
    A = ctx.analyzer
    mc = P.fn(RQ + '::match_common')
    v = A.view(mc)
    sender = lib.parm_i(mc, 1)
    receiver = lib.parm_i(mc, 2)
    paths = [p for p in v.paths(max_paths=50000)]
    ctx.count('paths', len(paths))

    def fld(o, n):
        return ('field', o, RQ + '::' + n)

    def comm_id(o):
        return ('call', 'simgrid::smpi::Comm::id', fld(o, 'comm_'), ())
    # discover the atoms by role
    found = {}
    consts = {}
    for p in paths:
        for e in v.path_events(p):
            if e.kind != 'branch':
                continue
            a = e.atom
            if a[0] == 'bin' and a[1] == '==':
                l, r = a[2], a[3]
                if {l, r} == {comm_id(receiver), comm_id(sender)}:
                    found['A3'] = a
                elif l == comm_id(receiver) and r[0] == 'int':
                    found['A1'] = a
                    consts['A1'] = r[1]
                elif l == comm_id(sender) and r[0] == 'int':
                    found['A2'] = a
                    consts['A2'] = r[1]
                elif l == fld(receiver, 'src_') and r[0] == 'int':
                    found['B1'] = a
                    consts['B1'] = r[1]
                elif l[0] == 'call' and l[1] == 'simgrid::smpi::Group::rank' and l[3] == (fld(sender, 'src_'),) and r[0] == 'int':
                    found['B2'] = a
                    consts['B2'] = r[1]
                elif {l, r} == {fld(receiver, 'src_'), fld(sender, 'src_')}:
                    found['B3'] = a
                elif l == fld(receiver, 'tag_') and r[0] == 'int':
                    found['C1'] = a
                    consts['C1'] = r[1]
                elif {l, r} == {fld(receiver, 'tag_'), fld(sender, 'tag_')}:
                    found['C3'] = a
            elif a == ('bin', '<', fld(sender, 'tag_'), ('int', 0)):
                found['C2'] = a
    roles = ['A1', 'A2', 'A3', 'B1', 'B2', 'B3', 'C1', 'C2', 'C3']
    missing = [r for r in roles if r not in found]
    if len(missing) > 3:
        raise AnalysisBroken('match_common: comparison atoms not recognised: %s' % missing)
    for r in missing:
        # the function no longer tests this comparison: it becomes a "don't care" column, and the rows on which the reference
        # depends on it will disagree
        found[r] = ('missing', r)
        consts.setdefault(r, consts.get('A1', consts.get('A2')))
        ctx.notes.append('match_common does not test atom %s any more' % r)

    # ---- R1 truth table ---------------------------------------------------------------------------------------------------------
    ctx.rule('R1', 'match_common returns true iff (comm ids equal or one undefined) && (src equal or (ANY_SOURCE && sender in group)) && (tag equal or (ANY_TAG && sender tag >= 0))', 512)
    ctx.check(consts.get('A1') == consts.get('A2') == consts.get('B2'), 'R1', 'the same MPI_UNDEFINED constant is used for both comm ids and the rank lookup', where(mc), str(consts), key='R1|match_common|constants')
    atoms = [found[r] for r in roles]

    def outcome(p, evs):
        for e in evs:
            if e.kind == 'return':
                return e.val
        return None
    tt = lib.truth_table(v, [p for p in paths if p.exit == 'return'], atoms, outcome, ignore_unknown=True)
    bad = 0
    for row in itertools.product((False, True), repeat=9):
        k = dict(zip(roles, row))
        # B2 and C2 are stored in negative form (rank == UNDEFINED, tag < 0)
        want = (k['A1'] or k['A2'] or k['A3']) and ((k['B1'] and not k['B2']) or k['B3']) and ((k['C1'] and not k['C2']) or k['C3'])
        got = tt.get(row, set())
        ok = got == {('bool', want)}
        if not ok:
            bad += 1
            if bad <= 3:
                ctx.violation('R1', 'match_common row %s' % ' '.join('%s=%d' % (r, k[r]) for r in roles), where(mc), 'returns %s, reference %s' % (sorted(ex.pretty(g) for g in got), want), key='R1|match_common|truth table')
        else:
            ctx.holds('R1', 'row %s' % ''.join(str(int(x)) for x in row), where(mc), 'returns %s' % want)

    # ---- R1b values copied on a match --------------------------------------------------------------------------------------------
    ctx.rule('R1b', 'on a match: real source/tag copied from the sender exactly under the wildcards; truncation flagged iff not a probe and receive size < send size', 6)
    probe_v = P.consts.get('MPI_REQ_PROBE', {}).get('v')
    if probe_v is None:
        raise AnalysisBroken('constant MPI_REQ_PROBE not found')
    seen = set()
    for p in paths:
        if p.exit != 'return':
            continue
        evs = v.path_events(p)
        ret = [e for e in evs if e.kind == 'return']
        if not ret or ret[0].val != ('bool', True):
            continue
        last = {}
        for e in evs:
            if e.kind == 'branch':
                last[e.atom] = e.pol
        rs = [e for e in evs if e.kind == 'assign' and e.lhs == fld(receiver, 'real_src_')]
        rt = [e for e in evs if e.kind == 'assign' and e.lhs == fld(receiver, 'real_tag_')]
        tr = [e for e in evs if e.kind == 'assign' and e.lhs == fld(receiver, 'truncated_')]
        anysrc = last.get(found['B1'])
        anytag = last.get(found['C1'])
        pr = [t for a, t in last.items() if a[0] == 'truthy' and a[1][0] == 'bin' and a[1][1] == '&' and a[1][2] == fld(receiver, 'flags_') and a[1][3] == ('int', probe_v)]
        smaller = last.get(('bin', '<', fld(receiver, 'real_size_'), fld(sender, 'real_size_')))
        sig = (anysrc, anytag, tuple(pr), smaller, len(rs), len(rt), len(tr))
        if sig in seen:
            continue
        seen.add(sig)
        ok1 = (len(rs) == 1 and rs[0].rhs == fld(sender, 'src_')) if anysrc else not rs
        ok2 = (len(rt) == 1 and rt[0].rhs == fld(sender, 'tag_')) if anytag else not rt
        want_tr = (pr == [False]) and smaller is True
        ok3 = (len(tr) == 1 and tr[0].rhs == ('bool', True)) if want_tr else not tr
        ctx.check(ok1 and ok2 and ok3, 'R1b', 'match path any_source=%s any_tag=%s probe=%s smaller=%s' % (anysrc, anytag, pr, smaller), where(mc),
                  'real_src_ writes %d, real_tag_ writes %d, truncated_ writes %d' % (len(rs), len(rt), len(tr)), key='R1b|match_common|copied values')

    # ---- R2 message ids ---------------------------------------------------------------------------------------------------------------
    ctx.rule('R2', 'match_recv erases the message id and increments the received counter together, only when neither request is a probe; match_send/match_recv pass (sender, receiver) in the right order', 4)
    mr = P.fn(RQ + '::match_recv')
    ms = P.fn(RQ + '::match_send')
    vr = A.view(mr)
    a0, b0 = lib.parm_i(mr, 0), lib.parm_i(mr, 1)
    n = 0
    for p in vr.paths():
        if p.exit in ('noreturn', 'cut', 'throw'):
            continue
        evs = vr.path_events(p)
        env = {}
        for e in evs:
            if e.kind == 'assign' and e.decl and e.lhs[0] == 'var':
                env[e.lhs] = e.rhs
        calls = [e for e in evs if e.kind == 'call' and e.q == RQ + '::match_common']
        if calls:
            args = [env.get(x, x) for x in calls[0].args]
            args = [x[2] if x[0] == 'cast' else x for x in args]
            ctx.check(args == [b0, b0, a0], 'R2', 'match_recv calls match_common(req=b, sender=b, receiver=a)', where(mr, calls[0].line), str([ex.pretty(x) for x in args]), key='R2|match_recv|argument order')
        er = [e for e in evs if e.kind == 'call' and e.q.endswith('::erase') and e.obj is not None and e.obj[0] == 'field' and e.obj[2] == RQ + '::message_id_']
        inc = [e for e in evs if e.kind == 'call' and e.q == 'simgrid::smpi::Comm::increment_received_messages_count']
        probes = [pol for e in evs if e.kind == 'branch' and e.atom[0] == 'truthy' and e.atom[1][0] == 'bin' and e.atom[1][1] == '&' and e.atom[1][3] == ('int', probe_v) for pol in [e.pol]]
        if er or inc:
            n += 1
            ctx.check(len(er) == 1 and len(inc) == 1 and probes == [False, False], 'R2', 'match_recv: id erased and counter incremented together, neither side a probe', where(mr), 'erase x%d, increment x%d, probe tests %s' % (len(er), len(inc), probes), key='R2|match_recv|bookkeeping')
    ctx.require(n >= 1, 'R2', 'match_recv bookkeeping path not found')
    # the counters are keyed (rank of the source, rank of the destination, tag) of the *message*: the lookup and the increment of match_recv use the same key, and so do the
    # two sender-side calls of start(); a message whose id is not the expected one is refused
    def key_of(e):
        out = []
        for a in e.args[:3]:
            fs = [x[2].rsplit('::', 1)[-1] for x in ex.subterms(a) if x[0] == 'field' and x[2].rsplit('::', 1)[-1] in ('src_', 'dst_', 'tag_')]
            out.append(fs[-1] if fs else ex.pretty(a))
        return tuple(out)
    keys = {}
    for fnq in ('match_recv', 'start'):
        g = P.fn(RQ + '::' + fnq)
        gv = A.view(g)
        for eid in range(len(g['elems'])):
            if g['elems'][eid].get('m') in ('XBT_DEBUG', 'XBT_VERB'):
                continue
            for e in gv.events_of(eid):
                if e.kind == 'call' and e.q.startswith('simgrid::smpi::Comm::') and e.q.rsplit('::', 1)[-1] in ('get_received_messages_count', 'increment_received_messages_count', 'get_sent_messages_count', 'increment_sent_messages_count') and len(e.args) >= 3:
                    keys.setdefault(e.q.rsplit('::', 1)[-1], set()).add(key_of(e))
    allk = set(k for v_ in keys.values() for k in v_)
    ctx.check(len(keys) == 4 and allk == {('src_', 'dst_', 'tag_')}, 'R2', 'the four message counters are keyed (rank of src_, rank of dst_, tag_) at every call', where(mr),
              '%s' % {k: sorted(v_) for k, v_ in sorted(keys.items())}, key='R2|message counters|same key')
    refused = None
    for p in vr.paths():
        if p.exit in ('noreturn', 'cut', 'throw'):
            continue
        evs = vr.path_events(p)
        found = [e.pol for e in evs if e.kind == 'branch' and e.atom[0] == 'bin' and e.atom[1] == '==' and 'message_id_' in repr(e.atom) and '::end' in repr(e.atom)]
        if found != [True]:
            continue        # the expected id is there (or the test was not reached: no match, uninitialised or smp communicator)
        rets = [e.val for e in evs if e.kind == 'return' and e.val is not None]
        falses = [e for e in evs if e.kind == 'assign' and e.lhs[0] == 'var' and e.lhs[2] == 'match' and e.rhs == ('bool', False)]
        good = bool(rets) and (rets[-1] == ('bool', False) or (rets[-1][0] == 'var' and rets[-1][2] == 'match' and bool(falses)))
        refused = good if refused is None else (refused and good)
    ctx.check(bool(refused), 'R2', 'match_recv refuses a message whose id is not the one expected next for its (source, destination, tag)', where(mr), '' if refused else
              'a path on which the expected id is absent from message_id_ still reports a match: a later message overtakes an earlier one', key='R2|match_recv|unexpected id refused')
    vs = A.view(ms)
    for p in vs.paths():
        evs = vs.path_events(p)
        env = {}
        for e in evs:
            if e.kind == 'assign' and e.decl and e.lhs[0] == 'var':
                env[e.lhs] = e.rhs
        for e in evs:
            if e.kind == 'call' and e.q == RQ + '::match_common':
                args = [env.get(x, x) for x in e.args]
                args = [x[2] if x[0] == 'cast' else x for x in args]
                a1, b1 = lib.parm_i(ms, 0), lib.parm_i(ms, 1)
                ctx.check(args == [b1, a1, b1], 'R2', 'match_send calls match_common(req=b, sender=a, receiver=b)', where(ms, e.line), str([ex.pretty(x) for x in args]), key='R2|match_send|argument order')

    # ---- R3 look-ahead probes of start ------------------------------------------------------------------------------------------------
    ctx.rule('R3', 'Request::start: look-ahead iprobe calls happen under the temporary PROBE flag, which is cleared (unless the request is itself a probe) before the irecv/isend simcall; the message id is recorded once per start', 3)
    st = P.fn(RQ + '::start')
    FL = lib.this_field(RQ + '::flags_')
    MID = lib.this_field(RQ + '::message_id_')

    def lam_calls(key, names):
        lf = P.fns.get(key)
        if lf is None:
            return False
        for el in lf.get('elems') or ():
            for n_ in ex.walk(el['x']):
                if n_.get('k') == 'Call' and (n_.get('c') or {}).get('q') in names:
                    return True
        return False

    def tr(stt, e):
        forced, isprobe, ids, bad = stt
        if e.kind == 'assign' and e.lhs == FL and e.op == '|=' and e.rhs == ('int', probe_v):
            forced = True
        if e.kind == 'assign' and e.lhs == FL and e.op == '&=' and e.rhs in (('un', '~', ('int', probe_v)), ('int', ~probe_v), ('int', (~probe_v) & 0xffffffff)):
            forced = False
        if e.kind == 'branch' and e.atom[0] == 'truthy' and e.atom[1][0] == 'var' and e.atom[1][2] == 'is_probe':
            isprobe = e.pol
        if e.kind == 'assign' and e.decl and e.lhs[0] == 'var' and e.lhs[2] == 'is_probe':
            isprobe = None
        if e.kind == 'call' and e.q == 'simgrid::s4u::Mailbox::iprobe' and not forced:
            bad = bad | frozenset(['iprobe without the PROBE flag at line %d' % e.line])
        if e.kind == 'lambda' and lam_calls(e.key, ('simgrid::kernel::activity::CommImpl::irecv', 'simgrid::kernel::activity::CommImpl::isend')):
            if forced and isprobe is not True:
                bad = bad | frozenset(['simcall issued with the temporary PROBE flag still set (line %d)' % e.line])
        if e.kind == 'call' and e.obj == MID and e.q.endswith('::push_back'):
            ids = min(ids + 1, 2)
        return (forced, isprobe, ids, bad)
    exits = abstract_run(A, st, (False, None, 0, frozenset()), tr)
    ctx.count('paths', len(exits['normal']))
    allbad = set()
    for s_ in exits['normal']:
        allbad |= set(s_[3])
    ctx.check(not allbad, 'R3', 'start: probes under the temporary flag, flag cleared before the simcall', where(st), '; '.join(sorted(allbad)) or '%d exit states' % len(exits['normal']), key='R3|start|probe flag')
    ids = sorted(set(s_[2] for s_ in exits['normal']))
    ctx.check(ids and max(ids) <= 1, 'R3', 'start records at most one message id', where(st), 'ids recorded per exit state: %s' % ids, key='R3|start|message id once')
    ctx.check(1 in ids, 'R3', 'start records a message id on the send side', where(st), 'ids recorded per exit state: %s' % ids, key='R3|start|message id recorded')
    # ---- R4 a status lands in the slot of the request it describes --------------------------------------------------------------------------------
    ctx.rule('R4', 'Request::waitall stores the status of a completed request in status[i] where i is the position of that request (what waitany returned, or the request waited for), not the iteration count', 1)
    wa = P.fn('simgrid::smpi::Request::waitall')
    vw = A.view(wa)

    def sub_of(t):
        # status[X] -> X   (pointer subscript normal forms: ('index', base, X) or *(base + X))
        if t[0] in ('idx', 'index'):
            return t[1], t[2]
        if t[0] == 'un' and t[1] == '*' and t[2][0] == 'bin' and t[2][1] == '+':
            return t[2][2], t[2][3]
        return None, None
    stat_p = lib.parm(wa, 'status') if any(p_['n'] == 'status' for p_ in wa['params']) else lib.parm_i(wa, 2)
    req_p = lib.parm_i(wa, 1)
    problems, nstore = set(), 0
    for p_ in vw.paths(max_visits=2):
        if p_.exit in ('noreturn', 'cut'):
            continue
        slot = None         # position of the request completed last on this path
        alias = {}
        for e in vw.path_events(p_):
            if e.kind == 'assign' and e.lhs[0] == 'var':
                r = e.rhs
                while r[0] in ('cast', 'conv'):
                    r = r[2]
                if r[0] == 'call' and r[1].endswith('Request::waitany'):
                    slot = e.lhs
                    alias = {e.lhs: e.lhs}
                elif slot is not None and (r == slot or alias.get(r) is not None):
                    alias[e.lhs] = slot
                else:
                    alias.pop(e.lhs, None)
                    if e.lhs == slot:
                        slot = None
            if e.kind == 'call' and e.q.endswith('Request::wait') and e.args:
                a0 = e.args[0]
                if a0[0] == 'un' and a0[1] == '&':
                    b_, x_ = sub_of(a0[2])
                    if b_ == req_p:
                        slot = x_
                        alias = {x_: x_}
            if e.kind == 'call' and e.q.endswith('::operator=') and e.obj is not None and e.args and 'pstat' in repr(e.args[0]):
                b_, x_ = sub_of(e.obj)
                if b_ == stat_p:
                    nstore += 1
                    if slot is None or alias.get(x_) is None:
                        problems.add('line %s: status[%s] receives the status of the request at position %s' % (e.line, ex.pretty(x_), ex.pretty(slot) if slot is not None else '?'))
            if e.kind == 'assign' and e.lhs[0] in ('idx', 'index', 'un') and 'pstat' in repr(e.rhs):
                b_, x_ = sub_of(e.lhs)
                if b_ == stat_p:
                    nstore += 1
                    if slot is None or alias.get(x_) is None:
                        problems.add('line %s: status[%s] receives the status of the request at position %s' % (e.line, ex.pretty(x_), ex.pretty(slot) if slot is not None else '?'))
    ctx.check(nstore >= 1 and not problems, 'R4', 'waitall: status[index of the completed request] = its status', where(wa), '; '.join(sorted(problems)) or '%d store(s) on the explored paths' % nstore,
              key='R4|waitall|status slot')
    return EXPLANATION
