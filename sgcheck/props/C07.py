"""C07 — Barrier semantics (DESIGN.md 3, C07)."""
from .. import ex, lib, sync
from ..core import where
from ..ir import AnalysisBroken

UNITS = ['src/kernel/activity/BarrierImpl.cpp', 'src/s4u/s4u_Barrier.cpp']
B = 'simgrid::kernel::activity::BarrierImpl'
ACQ = 'simgrid::kernel::activity::BarrierAcquisitionImpl'
EXPLANATION = ('CFG-path rules on BarrierImpl::acquire_async and BarrierAcquisitionImpl::wait_for: the arriving actor is queued '
               'iff queue size + 1 < expected (linear normal form, any equivalent spelling accepted); otherwise every queued '
               'acquisition is granted in queue order, those already blocked are finished, the queue is cleared (re-arm) and the '
               'arriving one is granted; no other site grants; a wait finishes at once only when granted; MC/non-MC agree.')


def run(ctx):
    P = ctx.load(UNITS)
    A = ctx.analyzer
    queue = lib.field_where(P, B, lambda n, t: ACQ in t and t.startswith(('std::deque<', 'std::list<', 'std::vector<')), 'arrival queue')
    expected = lib.field_where(P, B, lambda n, t: t in ('unsigned int', 'int', 'unsigned long') and 'expect' in n, 'expected actors')
    granted = lib.field_where(P, ACQ, lambda n, t: t == 'bool' and 'grant' in n, 'granted flag')
    Q, EXP = lib.this_field(queue), lib.this_field(expected)
    aa = P.fn(B + '::acquire_async')
    v = A.view(aa)
    paths = [p for p in v.paths() if p.exit not in ('noreturn', 'cut', 'throw')]
    ctx.count('paths', len(paths))

    # ---- R1 -----------------------------------------------------------------------------------------------------------------
    ctx.rule('R1', 'the arriving actor is queued iff queue.size() + 1 < expected_actors', 2)
    want = None
    nq = nr = 0
    for p in paths:
        evs = v.path_events(p)
        forms = []
        for e in evs:
            if e.kind == 'branch':
                lf = lib.int_lt0(e.atom, e.pol)
                if lf is not None:
                    forms.append((lf, e))
        pushes = [e for e in evs if e.kind == 'call' and e.obj == Q and e.q.endswith(('::push_back', '::emplace_back'))]
        size_terms = [x for (lf, e) in forms for (x, c) in lf[0] if x[0] == 'call' and x[1].endswith('::size') and x[2] == Q]
        if not size_terms:
            ctx.unrecognised('R1', 'acquire_async: a path does not compare the queue size with the expected count')
            continue
        sz = size_terms[0]
        enq = (frozenset({(sz, 1), (EXP, -1)}), 1)      # size - expected + 1 < 0
        rel = (frozenset({(sz, -1), (EXP, 1)}), -2)     # !(enq)  <=>  -size + expected - 2 < 0
        got = [lf for (lf, e) in forms if any(x == sz for (x, c) in lf[0])]
        if pushes:
            nq += 1
            ctx.check(got == [enq], 'R1', 'enqueue path guarded by size + 1 < expected', where(aa, pushes[0].line), 'guard normal form %s' % [show_lf(g) for g in got], key='R1|acquire_async|enqueue guard')
        else:
            nr += 1
            ctx.check(got == [rel], 'R1', 'release path taken exactly when size + 1 >= expected', where(aa), 'guard normal form %s' % [show_lf(g) for g in got], key='R1|acquire_async|release guard')
    ctx.require(nq >= 1 and nr >= 1, 'R1', 'enqueue/release paths not both found (%d/%d)' % (nq, nr))

    # ---- R2 -----------------------------------------------------------------------------------------------------------------
    ctx.rule('R2', 'release: every queued acquisition granted in queue order (forward traversal), blocked ones finished, then the queue is cleared and the arriving one granted; no other granting site', 5)
    it_use = [u for u in lib.field_uses(P, queue, [aa]) if u.kind == 'iter']
    ctx.check(len(it_use) == 1, 'R2', 'release traverses the queue forward (range-for)', where(aa, it_use[0].line if it_use else None), '%d traversal(s)' % len(it_use), key='R2|acquire_async|traversal')
    for u in lib.field_uses(P, queue):
        if u.kind == 'write' and u.op == 'init':
            continue
        cls = u.kind if u.kind != 'call' else lib.CONTAINER_OPS.get(u.method, 'other:' + str(u.method))
        if cls == 'query':
            continue
        ok = u.fn['q'] == aa['q'] and cls in ('insert_back', 'iter', 'clear')
        ctx.check(ok, 'R2', 'queue op %s in %s' % (u.method or u.kind, u.fn['q'].replace('simgrid::kernel::activity::', '')), where(u.fn, u.line), 'class %s' % cls, key='R2|%s|%s' % (u.fn['q'].rsplit('::', 1)[-1], cls))
    for u in lib.field_uses(P, granted):
        if u.kind == 'write' and u.op != 'init':
            ctx.check(u.fn['q'] == aa['q'], 'R2', 'writer of granted_: %s' % u.fn['q'], where(u.fn, u.line), '', key='R2|%s|grant writer' % u.fn['q'])
    for p in paths:
        evs = v.path_events(p)
        pushes = [e for e in evs if e.kind == 'call' and e.obj == Q and e.q.endswith(('::push_back', '::emplace_back'))]
        grants = [e for e in evs if e.kind == 'assign' and e.lhs[0] == 'field' and e.lhs[2] == granted]
        clears = [i for i, e in enumerate(evs) if e.kind == 'call' and e.obj == Q and e.q.endswith('::clear')]
        if pushes:
            ctx.check(not grants and not clears, 'R2', 'enqueue path grants nobody', where(aa), '', key='R2|acquire_async|enqueue grants')
            continue
        loopvars = [e.lhs for e in evs if e.kind == 'assign' and e.decl and e.rhs[0] == 'call' and e.rhs[1].endswith('operator*')]
        resv = [e.lhs for e in evs if e.kind == 'assign' and e.decl and e.lhs[0] == 'var' and e.lhs[2] == 'res'] or [None]
        g_loop = [(i, e) for i, e in enumerate(evs) if e.kind == 'assign' and e.lhs[0] == 'field' and e.lhs[2] == granted and e.lhs[1] in loopvars]
        g_res = [(i, e) for i, e in enumerate(evs) if e.kind == 'assign' and e.lhs[0] == 'field' and e.lhs[2] == granted and e.lhs[1] not in loopvars]
        iterated = bool(loopvars)
        ok = len(clears) == 1 and len(g_res) == 1 and g_res[0][1].rhs == ('bool', True) and all(i < clears[0] for i, _ in g_loop) and \
            (not iterated or len(g_loop) == len(loopvars)) and all(e.rhs == ('bool', True) for _, e in g_loop)
        ctx.check(ok, 'R2', 'release path (%d queued element(s) visited): grant each, clear once after, grant the arriving one' % len(loopvars), where(aa),
                  'loop grants %d, clear x%d, arriving grants %d' % (len(g_loop), len(clears), len(g_res)), key='R2|acquire_async|release sequence')
        if iterated:
            fins = [e for e in evs if e.kind == 'call' and e.q == ACQ + '::finish' and e.obj in loopvars]
            waiting = None
            for e in evs:
                if e.kind == 'branch' and e.atom[0] == 'bin' and e.atom[1] == '==' and e.atom[2][0] == 'call' and e.atom[3][0] == 'call':
                    f_, e_ = sorted([e.atom[2], e.atom[3]], key=lambda t: t[1].endswith('::end'))
                    if f_[1] in ('std::find', 'boost::range::find') and f_[3][-1] in loopvars:
                        waiting = not e.pol
            if waiting is None and fins and not any(e.kind == 'branch' and any(ex.mentions(e.atom, lv) for lv in loopvars) for e in evs):
                # finish() asserts that exactly one simcall waits on the acquisition: calling it with no test of the queued acquisition at all
                ctx.violation('R2', 'release finishes a queued acquisition iff its issuer is blocked on it', where(aa, fins[0].line),
                              'finish() is called on a queued acquisition with no test that its issuer is blocked on it (an actor that has not reached its wait yet has no simcall to answer)',
                              key='R2|acquire_async|finish iff waiting')
            elif waiting is None and not fins and not any(e.kind == 'branch' and any(ex.mentions(e.atom, lv) for lv in loopvars) for e in evs):
                ctx.violation('R2', 'release finishes a queued acquisition iff its issuer is blocked on it', where(aa),
                              'the queued acquisitions are granted but never finished: the actors blocked on the barrier are not woken', key='R2|acquire_async|finish iff waiting')
            elif waiting is None:
                ctx.unrecognised('R2', 'release: membership test in waiting_synchros_ not recognised')
            else:
                ctx.check((len(fins) == 1) == waiting, 'R2', 'release finishes a queued acquisition iff its issuer is blocked on it (waiting=%s)' % waiting, where(aa), 'finish x%d' % len(fins), key='R2|acquire_async|finish iff waiting')

    # ---- R3 -----------------------------------------------------------------------------------------------------------------
    ctx.rule('R3', 'BarrierAcquisitionImpl::wait_for registers once and finishes at once only when granted', 2)
    wf = P.fn(ACQ + '::wait_for')
    vw = A.view(wf)
    for p in vw.paths():
        if p.exit in ('noreturn', 'cut', 'throw'):
            continue
        evs = vw.path_events(p)
        regs = [e for e in evs if e.kind == 'call' and e.q.endswith('::register_simcall')]
        fins = [e for e in evs if e.kind == 'call' and e.q.endswith('::finish')]
        g = None
        for e in evs:
            if e.kind == 'branch' and e.atom == lib.truthy(lib.this_field(granted)):
                g = e.pol
        ctx.check(len(regs) == 1 and g is not None and (len(fins) == 1) == g, 'R3', 'wait_for path granted=%s' % g, where(wf), 'register x%d finish x%d' % (len(regs), len(fins)), key='R3|wait_for|finish iff granted')

    # ---- R4 -----------------------------------------------------------------------------------------------------------------
    ctx.rule('R4', 'both branches of Barrier::wait perform acquire_async(issuer) then wait_for(issuer, -1)', 2)
    bw = P.fn('simgrid::s4u::Barrier::wait')
    seqs = sync.lambda_kernel_seqs(ctx, bw, (B + '::acquire_async', ACQ + '::wait_for'))
    wantseq = (('acquire_async', ('issuer',)), ('wait_for', ('issuer', '-1')))
    ctx.require(len(seqs) >= 2, 'R4', 'branches not recognised')
    for i, (c, s) in enumerate(seqs):
        ctx.check(s == wantseq, 'R4', 'Barrier::wait branch %d' % i, where(bw), 'sequence %s' % (s,), key='R4|wait|sequence')
    ctx.assume('expected_actors_ >= 1 (the comparison is unsigned: expected - 1 must not wrap)')
    return EXPLANATION


def show_lf(lf):
    cs, k = lf
    return ' '.join('%+d*%s' % (c, ex.pretty(x)) for x, c in sorted(cs, key=repr)) + ' %+d < 0' % k
