"""C04 — Mutex semantics: exclusion, FIFO hand-off, ownership, recursion (DESIGN.md 3, C04)."""
from .. import ex, lib
from ..core import where
from ..ir import AnalysisBroken

UNITS = ['src/kernel/activity/MutexImpl.cpp', 'src/s4u/s4u_Mutex.cpp', 'src/sthread/sthread_impl.cpp']
M = 'simgrid::kernel::activity::MutexImpl'
ACQ = 'simgrid::kernel::activity::MutexAcquisitionImpl'
EXPLANATION = ('Static rules over the CFG paths of MutexImpl::{lock_async,try_lock,unlock}, MutexAcquisitionImpl::'
               '{wait_for,finish}, s4u::Mutex::{lock,try_lock,unlock} and the sthread_mutex_* wrappers: owner guard, '
               'single owner, FIFO queue discipline, owner/depth co-update on every acquiring path, try_lock truth '
               'table, grant wakes the blocked owner, MC/non-MC agreement, sthread forwarding.')


def run(ctx):
    P = ctx.load(UNITS)
    A = ctx.analyzer
    owner = lib.field_where(P, M, lambda n, t: t.startswith('boost::intrusive_ptr<simgrid::kernel::actor::ActorImpl>'), 'owner')
    queue = lib.field_where(P, M, lambda n, t: ACQ in t and t.startswith(('std::deque<', 'std::list<', 'std::vector<', 'std::queue<')), 'acquisition queue')
    isrec = lib.field_where(P, M, lambda n, t: t == 'bool', 'recursive flag')
    depth = lib.field_where(P, M, lambda n, t: t == 'int', 'recursion depth')
    acq_depth = lib.field_where(P, ACQ, lambda n, t: t == 'int', 'acquisition depth')
    OWN, Q, REC, DEP = (lib.this_field(x) for x in (owner, queue, isrec, depth))

    lock_async = P.fn(M + '::lock_async')
    try_lock = P.fn(M + '::try_lock')
    unlock = P.fn(M + '::unlock')
    views = {f['q']: A.view(f) for f in (lock_async, try_lock, unlock)}
    paths = {q: v.paths() for q, v in views.items()}
    for q in paths:
        ctx.count('paths', len(paths[q]))

    def is_mutation(ev):
        if ev.kind in ('assign', 'incdec') and ev.lhs in (OWN, DEP):
            return True
        if ev.kind == 'call' and ev.obj == Q and lib.CONTAINER_OPS.get(ev.q.rsplit('::', 1)[-1]) not in ('query', 'scan', 'read_front', 'read_back', 'lookup', 'index'):
            return True
        return False

    # ---- R1 only the owner releases -------------------------------------------------------------------------------
    ctx.rule('R1', 'in unlock, the first state change on every path is preceded by the guard owner == issuer', 3)
    issuer_u = lib.parm_i(unlock, 0)
    guard = lib.eq_atom(OWN, issuer_u)
    v = views[unlock['q']]
    for p in paths[unlock['q']]:
        evs = v.path_events(p)
        for ev, facts in lib.facts_walk(evs):
            if is_mutation(ev):
                ctx.check(facts.get(guard) is True, 'R1', 'unlock: %r' % ev, where(unlock, ev.line),
                          'first state change of the path %s the guard owner_ == issuer; path: %s' %
                          ('follows' if facts.get(guard) is True else 'is NOT dominated by', lib.fmt_path(evs)),
                          key='R1|unlock|unguarded %s' % ex.pretty(ev.lhs if ev.kind != 'call' else ev.nf))
                break

    # ---- R2 at most one owner ---------------------------------------------------------------------------------------
    ctx.rule('R2', 'a non-null store to the owner happens only when the mutex is free (lock paths) or hands over to the '
                   'issuer of the acquisition taken from the front of the queue (unlock)', 4)
    for f in (lock_async, try_lock):
        v = views[f['q']]
        issuer = lib.parm_i(f, 0)
        for p in paths[f['q']]:
            evs = v.path_events(p)
            for ev, facts in lib.facts_walk(evs):
                if ev.kind == 'assign' and ev.lhs == OWN and ev.rhs != ('null',):
                    ok = facts.get(lib.truthy(OWN)) is False and ev.rhs == issuer
                    ctx.check(ok, 'R2', '%s: %r' % (f['q'].rsplit('::', 1)[-1], ev), where(f, ev.line),
                              'owner store %s; value %s; path: %s' % ('under owner_ == nullptr' if facts.get(lib.truthy(OWN)) is False else 'NOT guarded by owner_ == nullptr',
                                                                   ex.pretty(ev.rhs), lib.fmt_path(evs)),
                              key='R2|%s|owner store unguarded' % f['q'].rsplit('::', 1)[-1])
    v = views[unlock['q']]
    for p in paths[unlock['q']]:
        evs = v.path_events(p)
        front_var = None
        for ev in evs:
            if ev.kind == 'assign' and ev.rhs[0] == 'call' and ev.rhs[2] == Q and ev.rhs[1].endswith('::front'):
                front_var = ev.lhs
            if ev.kind == 'assign' and ev.lhs == OWN and ev.rhs != ('null',):
                ok = front_var is not None and ev.rhs[0] == 'call' and ev.rhs[1] == ACQ + '::get_issuer' and ev.rhs[2] == front_var
                ctx.check(ok, 'R2', 'unlock: %r' % ev, where(unlock, ev.line),
                          'new owner is %s; front element bound to %s' % (ex.pretty(ev.rhs), ex.pretty(front_var) if front_var else 'nothing'),
                          key='R2|unlock|new owner not the front acquisition')

    # ---- R3 FIFO ----------------------------------------------------------------------------------------------------
    ctx.rule('R3', 'the acquisition queue is inserted only at the back and granted only from the front', 4)
    allowed = {
        lock_async['q']: {'insert_back', 'iter', 'query'},
        unlock['q']: {'read_front', 'remove_front', 'query'},
    }
    _eff, _owners = lib.effective_allowed(allowed, lib.class_call_closure(P, A, 'simgrid::kernel::activity::'))
    uses = lib.field_uses(P, queue)
    ctx.count('call_sites', len(uses))
    for u in uses:
        if u.kind == 'write' and u.op == 'init':
            continue  # construction of the empty queue
        cls = u.kind if u.kind != 'call' else lib.CONTAINER_OPS.get(u.method, 'other:' + str(u.method))
        fq = u.fn['q']
        if cls in ('query',):
            ctx.holds('R3', '%s: %s' % (fq, u.method), where(u.fn, u.line), 'size/empty query')
            continue
        own = _owners(fq)      # the operations of a private helper belong to the entry points that call it
        ok = bool(own) and all(cls in _eff.get(o, set()) for o in own)
        ctx.check(ok, 'R3', '%s: %s' % (fq.rsplit('::', 2)[-2] + '::' + fq.rsplit('::', 1)[-1], u.method or u.kind), where(u.fn, u.line),
                  'operation class %s on the queue %s' % (cls, 'allowed here' if ok else 'breaks the FIFO discipline (allowed: back insertion in lock_async, front removal in unlock)'),
                  key='R3|%s|%s' % (fq.rsplit('::', 1)[-1], cls))
    # the element removed in unlock is the one read from the front
    v = views[unlock['q']]
    for p in paths[unlock['q']]:
        evs = v.path_events(p)
        names = [e.q.rsplit('::', 1)[-1] for e in evs if e.kind == 'call' and e.obj == Q]
        if 'pop_front' in names or 'front' in names:
            seq = [n for n in names if n in ('front', 'pop_front')]
            ctx.check(seq == ['front', 'pop_front'], 'R3', 'unlock path: %s' % seq, where(unlock), 'front() then pop_front() exactly once on a hand-off path',
                      key='R3|unlock|front/pop_front pairing')

    # ---- R4 ownership / depth co-update ---------------------------------------------------------------------------------
    ctx.rule('R4', 'every path that stores a non-null owner also stores the recursion depth; every re-entry by the owner '
                   'of a recursive mutex increments it; unlock decrements it and keeps ownership while positive', 8)
    for f in (lock_async, try_lock, unlock):
        v = views[f['q']]
        short = f['q'].rsplit('::', 1)[-1]
        for p in paths[f['q']]:
            if p.exit in ('noreturn', 'cut'):
                continue
            evs = v.path_events(p)
            stores_owner = [e for e in evs if e.kind == 'assign' and e.lhs == OWN and e.rhs != ('null',)]
            stores_depth = [e for e in evs if e.kind in ('assign', 'incdec') and e.lhs == DEP]
            if stores_owner:
                e = stores_owner[0]
                ctx.check(bool(stores_depth), 'R4', '%s: %r' % (short, e), where(f, e.line),
                          ('depth co-updated by %r' % stores_depth[0]) if stores_depth else
                          'path acquires ownership (%r) but never sets the recursion depth; path: %s' % (e, lib.fmt_path(evs)),
                          key='R4|%s|owner stored without depth' % short)
                if stores_depth and short != 'unlock':
                    d = stores_depth[0]
                    ctx.check(d.kind == 'assign' and d.rhs == ('int', 1), 'R4', '%s: fresh acquisition depth %r' % (short, d), where(f, d.line),
                              'a fresh acquisition starts at depth 1', key='R4|%s|fresh depth not 1' % short)
                if stores_depth and short == 'unlock':
                    d = stores_depth[-1]
                    ok = d.kind == 'assign' and d.rhs[0] == 'field' and d.rhs[2] == acq_depth
                    ctx.check(ok, 'R4', 'unlock: hand-off depth %r' % d, where(f, d.line), 'on hand-off the depth is the acquisition\'s recorded depth',
                              key='R4|unlock|hand-off depth')
        if short in ('lock_async', 'try_lock'):
            issuer = lib.parm_i(f, 0)
            g = lib.eq_atom(OWN, issuer)
            n = 0
            for p in paths[f['q']]:
                if p.exit in ('noreturn', 'cut'):
                    continue
                evs = v.path_events(p)
                facts = {}
                for ev, fa in lib.facts_walk(evs):
                    if ev.kind == 'branch':
                        facts[ev.atom] = ev.pol
                if facts.get(g) is True and facts.get(lib.truthy(REC)) is True:
                    n += 1
                    inc = [e for e in evs if (e.kind == 'incdec' and e.op == '++' and e.lhs == DEP) or
                           (e.kind == 'assign' and e.op == '+=' and e.lhs == DEP and e.rhs == ('int', 1))]
                    ctx.check(len(inc) == 1, 'R4', '%s: re-entry by the owner' % short, where(f), 'depth incremented %d time(s) on the re-entry path' % len(inc),
                              key='R4|%s|re-entry without increment' % short)
            ctx.require(n >= 1, 'R4', '%s: no re-entry path (owner == issuer and recursive) recognised' % short)
    v = views[unlock['q']]
    le0 = ('bin', '<=', DEP, ('int', 0))
    nrec = 0
    for p in paths[unlock['q']]:
        if p.exit in ('noreturn', 'cut'):
            continue
        evs = v.path_events(p)
        fin = {}
        for ev in evs:
            if ev.kind == 'branch':
                fin.setdefault(ev.atom, ev.pol)
        if fin.get(lib.truthy(REC)) is True:
            nrec += 1
            dec = [e for e in evs if e.kind == 'incdec' and e.op == '--' and e.lhs == DEP]
            ctx.check(len(dec) == 1, 'R4', 'unlock: recursive path decrements depth', where(unlock), '%d decrement(s)' % len(dec), key='R4|unlock|no decrement')
            if le0 in fin and fin[le0] is False:
                released = [e for e in evs if is_mutation(e) and not (e.kind == 'incdec' and e.lhs == DEP)]
                ctx.check(not released, 'R4', 'unlock: depth still positive keeps ownership', where(unlock),
                          'state changes on the keep path: %s' % released, key='R4|unlock|release while depth positive')
            elif le0 not in fin:
                ctx.violation('R4', 'unlock: recursive path does not test the depth', where(unlock), 'no comparison of the depth with 0 after the decrement', key='R4|unlock|no depth test')
    ctx.require(nrec >= 2, 'R4', 'unlock: recursive paths not recognised')

    # ---- R5 try_lock truth table ------------------------------------------------------------------------------------
    ctx.rule('R5', 'try_lock returns true iff (owner == issuer and recursive) or owner == null; it never blocks or queues', 8)
    issuer = lib.parm_i(try_lock, 0)
    atoms = [lib.eq_atom(OWN, issuer), lib.truthy(REC), lib.truthy(OWN)]
    v = views[try_lock['q']]

    def outcome(p, evs):
        for e in evs:
            if e.kind == 'return':
                return e.val
        return None
    tt = lib.truth_table(v, [p for p in paths[try_lock['q']] if p.exit == 'return'], atoms, outcome)
    for row in sorted(tt):
        a, r, n = row
        want = ('bool', bool((a and r) or not n))
        got = tt[row]
        ctx.check(got == {want}, 'R5', 'try_lock row owner==issuer:%s recursive:%s owner!=null:%s' % row, where(try_lock),
                  'returns %s, reference %s' % (sorted(ex.pretty(g) for g in got), ex.pretty(want)), key='R5|try_lock|row %s' % (row,))
    ctx.require(len(tt) == 8, 'R5', 'truth table incomplete (%d rows)' % len(tt))
    bad = []
    for p in paths[try_lock['q']]:
        for e in v.path_events(p):
            if e.kind == 'call' and (e.q.endswith(('::register_simcall', '::wait_for', '::yield')) or
                                     (e.obj == Q and lib.CONTAINER_OPS.get(e.q.rsplit('::', 1)[-1], '').startswith('insert'))):
                bad.append(e)
    ctx.check(not bad, 'R5', 'try_lock: no blocking call, no queue insertion', where(try_lock), 'offending: %s' % bad, key='R5|try_lock|blocks or queues')

    # ---- R6 grant wakes the blocked owner ---------------------------------------------------------------------------
    ctx.rule('R6', 'hand-off grants the acquisition and finishes it when its issuer is blocked on it; wait_for registers '
                   'the simcall once and finishes at once iff the issuer already owns the mutex', 4)
    v = views[unlock['q']]
    nh = 0
    for p in paths[unlock['q']]:
        evs = v.path_events(p)
        own = [e for e in evs if e.kind == 'assign' and e.lhs == OWN and e.rhs != ('null',)]
        if not own:
            continue
        nh += 1
        acqv = own[0].rhs[2] if own[0].rhs[0] == 'call' else None
        grants = [e for e in evs if e.kind == 'call' and e.q == ACQ + '::grant' and e.obj == acqv]
        ctx.check(len(grants) == 1, 'R6', 'unlock hand-off grants the acquisition', where(unlock, own[0].line), '%d grant() call(s) on %s' % (len(grants), ex.pretty(acqv) if acqv else '?'),
                  key='R6|unlock|grant')
        fins = [e for e in evs if e.kind == 'call' and e.q.endswith('::finish') and e.obj == acqv]
        waiting = None
        for e in evs:
            if e.kind == 'branch' and e.atom[0] == 'bin' and e.atom[1] == '==' and e.atom[2][0] == 'call' and e.atom[3][0] == 'call':
                sides = sorted([e.atom[2], e.atom[3]], key=lambda t: t[1].endswith('::end'))
                f_, e_ = sides
                if f_[1] in ('std::find', 'boost::range::find') and f_[3][-1] == acqv and e_[1].endswith('::end'):
                    waiting = not e.pol  # atom is find(..., acq) == end()
        if waiting is None and not any(e.kind == 'branch' and ex.mentions(e.atom, acqv) for e in evs):
            ctx.violation('R6', 'unlock: finish() iff the new owner waits on the acquisition', where(unlock, own[0].line),
                          'the acquisition handed the mutex is %s with no test that its issuer is blocked on it: %s' % ('finished' if fins else 'never finished',
                                                                                                                        'an actor that has not reached its wait yet has no simcall to answer' if fins else 'a blocked waiter owns the mutex but is never woken'),
                          key='R6|unlock|finish iff waiting')
        elif waiting is None:
            ctx.unrecognised('R6', 'unlock: membership test of the acquisition in the new owner\'s waiting synchros not recognised')
        else:
            ctx.check((len(fins) == 1) == waiting, 'R6', 'unlock: finish() iff the new owner waits on the acquisition (waiting=%s)' % waiting, where(unlock, own[0].line),
                      '%d finish() call(s)' % len(fins), key='R6|unlock|finish iff waiting')
    ctx.require(nh >= 2, 'R6', 'unlock: hand-off paths not recognised')
    wf = P.fn(ACQ + '::wait_for')
    v = A.view(wf)
    mutex_f = lib.field_where(P, ACQ, lambda n, t: t in (M + ' *', 'boost::intrusive_ptr<' + M + '>'), 'acquisition.mutex')
    issuer_f = lib.field_where(P, ACQ, lambda n, t: t == 'simgrid::kernel::actor::ActorImpl *', 'acquisition.issuer')
    own_atom = lib.eq_atom(('call', M + '::get_owner', lib.this_field(mutex_f), ()), lib.this_field(issuer_f))
    own_atom2 = lib.eq_atom(('field', lib.this_field(mutex_f), owner), lib.this_field(issuer_f))
    for p in v.paths():
        if p.exit in ('noreturn', 'cut'):
            continue
        ctx.count('paths')
        evs = v.path_events(p)
        regs = [e for e in evs if e.kind == 'call' and e.q.endswith('::register_simcall')]
        ctx.check(len(regs) == 1, 'R6', 'wait_for registers the simcall exactly once', where(wf), '%d registration(s)' % len(regs), key='R6|wait_for|registrations')
        fins = [e for e in evs if e.kind == 'call' and e.q.endswith('::finish')]
        owns = None
        for e in evs:
            if e.kind == 'branch' and e.atom in (own_atom, own_atom2):
                owns = e.pol
        after = evs[evs.index(regs[0]):] if regs else evs
        if owns is None and fins and not any(e.kind == 'branch' and not (e.fn is None) and 'owner' in repr(e.atom) for e in after):
            ctx.violation('R6', 'wait_for finishes at once iff the issuer owns the mutex', where(wf, fins[0].line), 'finish() with no test at all: a waiter that does not own the mutex is answered at once',
                          key='R6|wait_for|finish iff owner')
        elif owns is None:
            ctx.unrecognised('R6', 'wait_for: ownership test not recognised on a path')
        else:
            ctx.check((len(fins) == 1) == owns, 'R6', 'wait_for finishes at once iff the issuer owns the mutex (owns=%s)' % owns, where(wf), '%d finish() call(s)' % len(fins),
                      key='R6|wait_for|finish iff owner')

    # test(): the acquisition is over exactly when its issuer owns the mutex
    tf = P.fn(ACQ + '::test')
    vt = A.view(tf)
    rets = [e for p in vt.paths() if p.exit not in ('noreturn', 'cut') for e in vt.path_events(p) if e.kind == 'return' and e.val is not None]
    okt = bool(rets) and all(ex.atom(e.val)[0] in (own_atom, own_atom2) and ex.atom(e.val)[1] for e in rets)
    ctx.check(okt, 'R6', 'MutexAcquisitionImpl::test returns whether the issuer owns the mutex', where(tf), 'returns %s' % [ex.pretty(e.val) for e in rets], key='R6|test|owner')
    # a recursive waiter that asks again gets its queued acquisition back, not a second queue entry
    la = P.fn(M + '::lock_async')
    vl = A.view(la)
    nm = 0
    for p in vl.paths():
        if p.exit in ('noreturn', 'cut'):
            continue
        evs = vl.path_events(p)
        same = [(i, e) for i, e in enumerate(evs) if e.kind == 'branch' and e.pol and e.atom[0] == 'bin' and e.atom[1] == '==' and any(t[0] == 'call' and t[1].endswith('::get_issuer') for t in (e.atom[2], e.atom[3]))
                and lib.parm_i(la, 0) in (e.atom[2], e.atom[3])]
        if not same:
            continue
        nm += 1
        i0 = same[0][0]
        pushes = [e for e in evs[i0:] if e.kind == 'call' and e.q.endswith(('::push_back', '::emplace_back'))]
        ctx.check(not pushes and p.exit == 'return', 'R6', 'lock_async (recursive): an issuer already queued gets its queued acquisition back', where(la, same[0][1].line),
                  'after the match: %d enqueue(s), exit %s' % (len(pushes), p.exit), key='R6|lock_async|queued issuer not duplicated')
    ctx.require(nm >= 1, 'R6', 'lock_async: the scan for an acquisition of the same issuer was not recognised')

    # ---- R7 MC / non-MC branches of Mutex::lock ---------------------------------------------------------------------------
    ctx.rule('R7', 'both branches of s4u::Mutex::lock perform lock_async(issuer) then wait_for(issuer, -1)', 2)
    lk = P.fn('simgrid::s4u::Mutex::lock')
    v = A.view(lk)
    seqs = []
    for p in v.paths():
        if p.exit in ('noreturn', 'cut'):
            continue
        evs = v.path_events(p)
        seq = []
        for e in evs:
            if e.kind == 'lambda':
                lf = P.fns.get(e.key)
                if lf is None:
                    raise AnalysisBroken('lambda body %s not found' % e.key)
                lv = A.view(lf)
                for lp in lv.paths():
                    if lp.exit in ('noreturn', 'cut'):
                        continue
                    for le in lv.path_events(lp):
                        if le.kind == 'call' and le.q in (M + '::lock_async', ACQ + '::wait_for'):
                            seq.append((le.q.rsplit('::', 1)[-1], tuple(ex.pretty(a) for a in le.args)))
        seqs.append(tuple(seq))
    want = (('lock_async', ('issuer',)), ('wait_for', ('issuer', '-1')))
    ctx.require(len(seqs) >= 2, 'R7', 'expected at least two branches (MC / non-MC) in Mutex::lock, found %d' % len(seqs))
    for i, s in enumerate(seqs):
        ctx.check(s == want, 'R7', 'Mutex::lock branch %d' % i, where(lk), 'kernel sequence %s' % (s,), key='R7|lock|branch sequence')

    # ---- R8 sthread forwarding ------------------------------------------------------------------------------------------
    ctx.rule('R8', 'sthread_mutex_{lock,trylock,unlock} forward to {lock,try_lock,unlock} of the s4u::Mutex stored in '
                   'the same sthread_mutex_t; sthread_mutex_init creates it recursive iff the attribute says so', 5)
    S = 'simgrid::s4u::Mutex::'
    for fname, meth in (('sthread_mutex_lock', 'lock'), ('sthread_mutex_trylock', 'try_lock'), ('sthread_mutex_unlock', 'unlock')):
        f = P.fn(fname)
        v = A.view(f)
        m0 = lib.parm_i(f, 0)
        n = 0
        for p in v.paths():
            if p.exit in ('noreturn', 'cut'):
                continue
            evs = v.path_events(p)
            ret = [e for e in evs if e.kind == 'return']
            mcalls = [e for e in evs if e.kind == 'call' and e.q.startswith(S) and e.q[len(S):] in ('lock', 'try_lock', 'unlock')]
            if not ret:
                continue
            if meth == 'try_lock':
                # both outcomes call try_lock once; 0 iff it returned true
                ok = len(mcalls) == 1 and mcalls[0].q == S + meth and ex.mentions(mcalls[0].obj, m0)
                res = None
                for e in evs:
                    if e.kind == 'branch' and e.atom[0] == 'truthy' and e.atom[1][0] == 'call' and e.atom[1][1] == S + 'try_lock':
                        res = e.pol
                ok = ok and res is not None and ((ret[0].val == ('int', 0)) == res)
                n += 1
                ctx.check(ok, 'R8', '%s path returning %s' % (fname, ex.pretty(ret[0].val)), where(f, ret[0].line), 'calls: %s, try_lock result on path: %s' % (mcalls, res),
                          key='R8|%s|forwarding' % fname)
            elif ret[0].val == ('int', 0):
                ok = len(mcalls) == 1 and mcalls[0].q == S + meth and ex.mentions(mcalls[0].obj, m0) and 'mutex' in ex.pretty(mcalls[0].obj)
                n += 1
                ctx.check(ok, 'R8', '%s success path' % fname, where(f, ret[0].line), 'calls: %s' % mcalls, key='R8|%s|forwarding' % fname)
            else:
                ctx.check(not mcalls, 'R8', '%s error path returning %s' % (fname, ex.pretty(ret[0].val)), where(f, ret[0].line), 'no mutex operation on an error path: %s' % mcalls,
                          key='R8|%s|error path acts' % fname)
        ctx.require(n >= 1, 'R8', '%s: no forwarding path recognised' % fname)
    f = P.fn('sthread_mutex_init')
    v = A.view(f)
    okc = 0
    for p in v.paths():
        if p.exit in ('noreturn', 'cut'):
            continue
        for e in v.path_events(p):
            if e.kind == 'call' and e.q == S + 'create':
                attr = lib.parm_i(f, 1)
                arg = e.args[0]
                recf = [s for s in ex.subterms(arg) if s[0] == 'field' and s[1] == attr and s[2].endswith('::recursive')]
                ok = bool(recf) and arg[0] == 'bin' and arg[1] == '&&'
                okc += 1
                ctx.check(ok, 'R8', 'sthread_mutex_init creates the mutex with attr->recursive', where(f, e.line), 'argument: %s' % ex.pretty(arg), key='R8|sthread_mutex_init|recursive flag')
    ctx.require(okc >= 1, 'R8', 'sthread_mutex_init: Mutex::create call not found')
    cr = P.fn('simgrid::s4u::Mutex::create')
    v = A.view(cr)
    found = False
    for p in v.paths():
        for e in v.path_events(p):
            if e.kind == 'call' and e.q == M + '::MutexImpl':
                found = True
                ctx.check(e.args[:1] == (lib.parm_i(cr, 0),), 'R8', 'Mutex::create passes its flag to the kernel object', where(cr, e.line), 'args %s' % (e.args,), key='R8|create|flag')
    ctx.require(found, 'R8', 'Mutex::create: construction of MutexImpl not found')
    ctor = [f for f in P.fns_named(M + '::MutexImpl')]
    ctx.require(len(ctor) == 1, 'R8', 'MutexImpl constructor not found')
    if ctor:
        v = A.view(ctor[0])
        inits = [e for p in v.paths() for e in v.path_events(p) if e.kind == 'assign' and e.lhs == REC]
        ctx.check(bool(inits) and inits[0].rhs == lib.parm_i(ctor[0], 0), 'R8', 'MutexImpl constructor stores the flag', where(ctor[0]), '%s' % inits, key='R8|ctor|flag')
    ctx.assume('the interposition of pthread_* symbols onto sthread_* is link-time and not analysed')
    return EXPLANATION
