"""C06 — Condition variable semantics (DESIGN.md 3, C06)."""
from .. import ex, lib, sync
from ..core import where
from ..ir import AnalysisBroken

UNITS = ['src/kernel/activity/ConditionVariableImpl.cpp', 'src/s4u/s4u_ConditionVariable.cpp', 'src/kernel/activity/ActivityImpl.cpp']
C = 'simgrid::kernel::activity::ConditionVariableImpl'
ACQ = 'simgrid::kernel::activity::ConditionVariableAcquisitionImpl'
MUT = 'simgrid::kernel::activity::MutexImpl'
MACQ = 'simgrid::kernel::activity::MutexAcquisitionImpl'
EXPLANATION = ('CFG-path rules on ConditionVariableImpl::{signal,broadcast,acquire_async} and ConditionVariableAcquisitionImpl::'
               '{wait_for,finish,cancel}: signal grants exactly the front waiter or nothing, broadcast drains the queue, waiting '
               'releases the mutex under the ownership assertion and always enqueues at the back, every answering path of finish '
               're-locks the mutex (including the timeout path), the timeout result and sentinel, and the MC/non-MC sequences agree.')


def run(ctx):
    P = ctx.load(UNITS)
    A = ctx.analyzer
    queue = lib.field_where(P, C, lambda n, t: ACQ in t and t.startswith(('std::deque<', 'std::list<', 'std::vector<')), 'waiter queue')
    granted = lib.field_where(P, ACQ, lambda n, t: t == 'bool' and 'grant' in n, 'granted flag')
    Q = lib.this_field(queue)
    sig = P.fn(C + '::signal')
    bc = P.fn(C + '::broadcast')
    aa = P.fn(C + '::acquire_async')

    def q_empty(facts):
        return [t for a, t in facts.items() if a[0] == 'truthy' and a[1][0] == 'call' and a[1][1].endswith('::empty') and a[1][2] == Q]

    # ---- R1 -----------------------------------------------------------------------------------------------------------------
    ctx.rule('R1', 'signal grants exactly the front waiter (or nothing when nobody waits); broadcast signals until the queue is empty; '
                   'waiting unlocks the mutex under the ownership assertion and enqueues at the back', 8)
    # private helpers of the class are part of signal(): their paths are inlined (parameters bound by value) and the paths that constant propagation
    # of the literal arguments refutes are dropped, so `helper(1)` looping once is what is analysed, not the helper in general
    own_helper = lambda ev, callee: callee['q'].startswith(C + '::') and callee['q'] not in (sig['q'], bc['q'], aa['q'])     # noqa: E731
    for evs_x, exit_x in A.ipaths(sig, inline=own_helper, byvalue=True):
        if exit_x in ('noreturn', 'cut', 'throw'):
            continue
        if not lib.path_is_feasible(evs_x):
            continue
        ctx.count('paths')
        evs = [e for e in evs_x if e.kind not in ('enter', 'leave')]
        fin = {}
        for e in evs:
            if e.kind == 'branch':
                fin.setdefault(e.atom, e.pol)
        em = q_empty(fin)
        qops = [e.q.rsplit('::', 1)[-1] for e in evs if e.kind == 'call' and e.obj == Q and e.q.rsplit('::', 1)[-1] != 'empty']
        gr = [e for e in evs if e.kind == 'assign' and e.lhs[0] == 'field' and e.lhs[2] == granted]
        if em == [True]:
            ctx.check(not qops and not gr, 'R1', 'signal with no waiter is lost', where(sig), 'queue ops %s grants %d' % (qops, len(gr)), key='R1|signal|empty path acts')
        elif em == [False]:
            fv = [e.lhs for e in evs if e.kind == 'assign' and e.rhs[0] == 'call' and e.rhs[1].endswith('::front') and e.rhs[2] == Q]
            ok = qops == ['front', 'pop_front'] and len(gr) == 1 and gr[0].rhs == ('bool', True) and fv and gr[0].lhs[1] == fv[0]
            ctx.check(ok, 'R1', 'signal grants the front waiter and removes it', where(sig), 'queue ops %s; grants %s' % (qops, gr), key='R1|signal|front grant')
            fins = [e for e in evs if e.kind == 'call' and e.q == ACQ + '::finish' and fv and e.obj == fv[0]]
            waiting = None
            for e in evs:
                if e.kind == 'branch' and e.atom[0] == 'bin' and e.atom[1] == '==' and e.atom[2][0] == 'call' and e.atom[3][0] == 'call':
                    f_, e_ = sorted([e.atom[2], e.atom[3]], key=lambda t: t[1].endswith('::end'))
                    if f_[1] in ('std::find', 'boost::range::find') and fv and f_[3][-1] == fv[0]:
                        waiting = not e.pol
            if waiting is None and fv and not any(e.kind == 'branch' and ex.mentions(e.atom, fv[0]) for e in evs):
                ctx.violation('R1', 'signal finishes the waiter iff it is blocked on the acquisition', where(sig, gr[0].line if gr else None),
                              'the granted acquisition is %s with no test that its issuer is blocked on it: %s' % ('finished' if fins else 'never finished',
                                                                                                                 'an actor that has not reached its wait yet has no simcall to answer' if fins else 'a blocked waiter is signalled but never woken'),
                              key='R1|signal|finish iff waiting')
            elif waiting is None:
                ctx.unrecognised('R1', 'signal: membership test in waiting_synchros_ not recognised')
            else:
                ctx.check((len(fins) == 1) == waiting, 'R1', 'signal finishes the waiter iff it is blocked on the acquisition (waiting=%s)' % waiting, where(sig), 'finish x%d' % len(fins), key='R1|signal|finish iff waiting')
        else:
            ctx.unrecognised('R1', 'signal: path does not test the queue for emptiness')
    # broadcast: loop on !empty calling signal
    v = A.view(bc)
    loops = v.loop_heads()
    ok = False
    if len(loops) == 1:
        b = loops[0]
        ap = v.cond_atom(b['id'])
        body = b['s'][0]
        if ap and ap[0][0] == 'truthy' and ap[0][1][0] == 'call' and ap[0][1][1].endswith('::empty') and ap[0][1][2] == Q and ap[1] is False:
            # body (true successor of `!empty`) calls signal() on this and returns to the head
            bevs = [e for eid in v.blocks[body].get('e', []) for e in v.events_of(eid)]
            ok = any(e.kind == 'call' and e.q == C + '::signal' and e.obj == ('this',) for e in bevs) and v.blocks[body]['s'] and all(
                s is not None for s in v.blocks[body]['s'])
    wakes = [e for eid in range(len(bc['elems'])) for e in v.events_of(eid) if e.kind == 'call' and e.q.startswith(C + '::') and e.obj == ('this',)]
    if ok or not wakes or (not loops and all(e.q == sig['q'] for e in wakes)):
        ctx.check(ok, 'R1', 'broadcast: while (!queue.empty()) signal()', where(bc), 'loop shape recognised' if ok else ('broadcast wakes nobody' if not wakes else 'broadcast signals a bounded number of times: waiters can be left asleep'), key='R1|broadcast|drain loop')
    else:
        ctx.unrecognised('R1', 'broadcast: not the `while (!queue.empty()) signal()` idiom (calls %s): whether every waiter is woken is not decided' % sorted(set(e.q.rsplit('::', 1)[-1] for e in wakes)))
    v = A.view(aa)
    issuer = lib.parm_i(aa, 0)
    mutex = lib.parm_i(aa, 1)
    for p in v.paths():
        if p.exit in ('noreturn', 'cut', 'throw'):
            continue
        evs = v.path_events(p)
        env = {}
        okun = okpush = False
        for ev, facts in lib.facts_walk(evs):
            if ev.kind == 'assign' and ev.lhs[0] == 'var':
                env[ev.lhs] = ev.rhs
            if ev.kind == 'call' and ev.q == MUT + '::unlock' and ev.obj == mutex:
                owner_terms = [k for k, val in env.items() if val == ('call', MUT + '::get_owner', mutex, ())] + [('call', MUT + '::get_owner', mutex, ())]
                okun = ev.args == (issuer,) and any(facts.get(lib.eq_atom(o, issuer)) is True for o in owner_terms)
            if ev.kind == 'call' and ev.obj == Q and ev.q.endswith(('::push_back', '::emplace_back')):
                okpush = True
        ctx.check(okun, 'R1', 'acquire_async unlocks the mutex for the issuer under the ownership assertion', where(aa), '', key='R1|acquire_async|unlock')
        ctx.check(okpush, 'R1', 'acquire_async always enqueues the waiter at the back', where(aa), '', key='R1|acquire_async|enqueue')
        order = [e.q.rsplit('::', 1)[-1] for e in evs if e.kind == 'call' and (e.q == MUT + '::unlock' or (e.obj == Q and e.q.endswith('::push_back')))]
        ctx.check(order == ['unlock', 'push_back'], 'R1', 'acquire_async: unlock then enqueue', where(aa), str(order), key='R1|acquire_async|order')
    allowed = {aa['q']: {'insert_back'}, sig['q']: {'read_front', 'remove_front'}, ACQ + '::cancel': {'scan', 'erase'}}
    eff, owners = lib.effective_allowed(allowed, lib.class_call_closure(P, A, C + '::'))
    for u in lib.field_uses(P, queue):
        if u.kind == 'write' and u.op == 'init':
            continue
        cls = u.kind if u.kind != 'call' else lib.CONTAINER_OPS.get(u.method, 'other:' + str(u.method))
        if cls == 'query':
            continue
        own = owners(u.fn['q'])      # a helper's operations belong to the entry points that call it
        ok = bool(own) and all(cls in eff.get(o, set()) for o in own)
        ctx.check(ok, 'R1', 'queue op %s in %s' % (u.method or u.kind, u.fn['q'].replace('simgrid::kernel::activity::', '')), where(u.fn, u.line), 'class %s' % cls,
                  key='R1|%s|%s' % (u.fn['q'].rsplit('::', 1)[-1], cls))

    # ---- R2 re-lock before return ---------------------------------------------------------------------------------------------
    ctx.rule('R2', 'every path of finish() that answers the waiter outside MC mode re-locks the mutex: lock_async(issuer)->wait_for(issuer, -1), timeout path included', 3)
    fin = P.fn(ACQ + '::finish')
    v = A.view(fin)
    nomc = None
    nre = 0
    for p in v.paths():
        if p.exit in ('noreturn', 'cut', 'throw'):
            continue
        ctx.count('paths')
        evs = v.path_events(p)
        f = {}
        for e in evs:
            if e.kind == 'branch':
                f[e.atom] = e.pol
        ismc = [t for a, t in f.items() if a[0] == 'bin' and a[1] == '==' and 'get_type' in repr(a) and 'CONDVAR_NOMC' in repr(a)]
        relock = [e for e in evs if e.kind == 'call' and e.q == MUT + '::lock_async']
        waits = [e for e in evs if e.kind == 'call' and e.q == MACQ + '::wait_for']
        answers = [e for e in evs if e.kind == 'call' and e.q.endswith('::simcall_answer')]
        timeout_path = any(e.kind == 'call' and e.q.endswith('::set_result') for e in evs)
        if not ismc:
            # a path that ends before the MC / non-MC dispatch: it must not let the waiter go
            ctx.check(False, 'R2', 'finish: path returning before the MC/non-MC dispatch%s' % (' (timeout)' if timeout_path else ''), where(fin),
                      'answers x%d, re-lock x%d: the waiter is %s without the observer type being consulted' % (len(answers), len(relock), 'answered' if answers else 'left blocked'),
                      key='R2|finish|early exit%s' % ('-timeout' if timeout_path else ''))
            continue
        if ismc[0] is True:  # non-MC
            dying = any(a[0] == 'truthy' and a[1][0] == 'var' and a[1][2] == 'issuer' and t is False for a, t in f.items())
            if dying:
                ctx.check(not relock and not answers, 'R2', 'finish (non-MC): dying issuer is neither answered nor re-locked', where(fin), '', key='R2|finish|dying')
            else:
                nre += 1
                ok = len(relock) == 1 and len(waits) == 1 and not answers and waits[0].obj == relock[0].nf and waits[0].args[1:] == (('int', -1),) and \
                    relock[0].obj[0] == 'call' and relock[0].obj[1].endswith('::get_mutex')
                ctx.check(ok, 'R2', 'finish (non-MC%s): re-lock before the waiter resumes' % (', timeout' if timeout_path else ''), where(fin),
                          'lock_async x%d, wait_for x%d, direct answers x%d' % (len(relock), len(waits), len(answers)), key='R2|finish|relock%s' % ('-timeout' if timeout_path else ''))
        else:
            ctx.check(len(answers) == 1 and not relock, 'R2', 'finish (MC): the simcall is answered, the lock is a separate simcall', where(fin), '', key='R2|finish|mc answer')
    ctx.require(nre >= 2, 'R2', 'non-MC answering paths (normal and timeout) not both recognised (%d)' % nre)

    # ---- R3 timeout result ---------------------------------------------------------------------------------------------------
    ctx.rule('R3', 'the result is "timed out" iff the timeout elapsed and the waiter was not granted (or MC declared the timeout); the waiter is then removed from the queue', 3)
    for p in v.paths():
        if p.exit in ('noreturn', 'cut', 'throw'):
            continue
        evs = v.path_events(p)
        f = {}
        for e in evs:
            if e.kind == 'branch':
                f.setdefault(e.atom, e.pol)
        elapsed = [t for a, t in f.items() if a[0] == 'bin' and a[1] == '==' and 'get_state' in repr(a) and 'FINISHED' in repr(a)]
        gr = f.get(lib.truthy(lib.this_field(granted)))
        mct = [t for a, t in f.items() if a[0] == 'truthy' and a[1][0] == 'field' and a[1][2].endswith('mc_timeout_')]
        cancels = [e for e in evs if e.kind == 'call' and e.q == ACQ + '::cancel']
        results = [e for e in evs if e.kind == 'call' and e.q.endswith('::set_result')]
        timed = (elapsed == [True] and gr is False)
        mctimed = mct == [True]
        want = int(timed) + int(mctimed)
        ok = len(cancels) == want and len(results) == want and all(r.args == (('bool', True),) for r in results)
        ctx.check(ok, 'R3', 'finish: elapsed=%s granted=%s mc_timeout=%s' % (elapsed, gr, mct), where(fin), 'cancel x%d, set_result(true) x%d, expected %d' % (len(cancels), len(results), want),
                  key='R3|finish|timeout result')
    cn = P.fn(ACQ + '::cancel')
    vc = A.view(cn)
    for p in vc.paths():
        if p.exit in ('noreturn', 'cut', 'throw'):
            continue
        er = [e for e in vc.path_events(p) if e.kind == 'call' and e.q.endswith('::erase') and e.obj is not None and ex.mentions(e.obj, ('field', lib.this_field(ACQ + '::cond_'), queue))]
        ctx.check(len(er) == 1, 'R3', 'cancel removes the waiter from the condition queue', where(cn), 'erase x%d' % len(er), key='R3|cancel|erase')

    # ---- R4 sentinel ---------------------------------------------------------------------------------------------------------
    ctx.rule('R4', 'timeout armed exactly for timeout >= 0; wait() passes a negative value, wait_for() maps negative durations to 0', 4)
    wf = P.fn(ACQ + '::wait_for')
    n = sync.arming_guards(ctx, 'R4', wf, lib.parm_i(wf, 1),
                           lambda e: (e.kind == 'call' and e.q.endswith('::sleep')) or (e.kind == 'assign' and e.lhs[0] == 'field' and e.lhs[2].endswith('mc_timeout_')),
                           'ConditionVariableAcquisitionImpl::wait_for')
    ctx.require(n >= 2, 'R4', 'arming sites not found (%d)' % n)
    vw = A.view(wf)
    for p in vw.paths():
        if p.exit in ('noreturn', 'cut', 'throw'):
            continue
        regs = [e for e in vw.path_events(p) if e.kind == 'call' and e.q.endswith('::register_simcall')]
        ctx.check(len(regs) == 1, 'R4', 'wait_for registers the simcall exactly once', where(wf), 'x%d' % len(regs), key='R4|wait_for|registrations')
    # an acquisition granted before its issuer waits on it (asynchronous acquire, or the separate simcalls of MC mode) is finished at once, without arming anything
    ng = 0
    for p in vw.paths():
        if p.exit in ('noreturn', 'cut', 'throw'):
            continue
        evs = vw.path_events(p)
        gr = [e.pol for e in evs if e.kind == 'branch' and e.atom[0] == 'truthy' and e.atom[1][0] == 'field' and e.atom[1][2].endswith('::granted_')]
        fins = [e for e in evs if e.kind == 'call' and e.q == ACQ + '::finish']
        armed = [e for e in evs if (e.kind == 'call' and e.q.endswith('::sleep')) or (e.kind == 'assign' and e.lhs[0] == 'field' and e.lhs[2].endswith('mc_timeout_'))]
        if gr == [True]:
            ng += 1
            ctx.check(len(fins) == 1 and not armed, 'R4', 'wait_for on an acquisition already granted finishes at once and arms no timeout', where(wf), 'finish x%d, armed x%d' % (len(fins), len(armed)),
                      key='R4|wait_for|granted before waiting')
        elif not gr:
            ng -= 100
    ctx.check(ng >= 1, 'R4', 'wait_for tests granted_ on every path', where(wf), 'a signal that arrived before the waiter blocked is not lost' if ng >= 1 else
              'some path does not look at granted_: a signal that arrived before the waiter blocked is lost and the waiter sleeps for ever', key='R4|wait_for|granted before waiting')
    for f in P.fns_named('simgrid::s4u::ConditionVariable::wait'):
        vv = A.view(f)
        for p in vv.paths():
            for e in vv.path_events(p):
                if e.kind == 'call' and e.q.endswith('do_wait'):
                    ctx.check(e.args[-1][0] in ('int', 'float') and e.args[-1][1] < 0, 'R4', 'ConditionVariable::wait passes a negative timeout', where(f, e.line), ex.pretty(e.args[-1]), key='R4|wait|sentinel')
    wfs = [f for f in P.fns_named('simgrid::s4u::ConditionVariable::wait_for') if 'MutexPtr' in f['key'] or 'intrusive_ptr' in f['key']]
    ctx.require(len(wfs) == 1, 'R4', 's4u wait_for(MutexPtr, double) not found')
    for f in wfs:
        vv = A.view(f)
        t = lib.parm_i(f, 1)
        for p in vv.paths():
            if p.exit in ('noreturn', 'cut', 'throw'):
                continue
            evs = vv.path_events(p)
            neg = None
            for e in evs:
                if e.kind == 'branch' and e.atom == ('bin', '<', t, ('int', 0)) or (e.kind == 'branch' and e.atom == ('bin', '<', t, ('float', 0.0))):
                    neg = e.pol
            clamp = [e for e in evs if e.kind == 'assign' and e.lhs == t and e.rhs in (('float', 0.0), ('int', 0))]
            if neg is True:
                ctx.check(len(clamp) == 1, 'R4', 's4u wait_for maps a negative duration to 0', where(f), '', key='R4|s4u wait_for|clamp')
            elif neg is False:
                ctx.check(not clamp, 'R4', 's4u wait_for keeps a non-negative duration', where(f), '', key='R4|s4u wait_for|keeps')
            else:
                ctx.unrecognised('R4', 's4u wait_for: no test of the duration against 0')

    # ---- R5 MC / non-MC ----------------------------------------------------------------------------------------------------------
    ctx.rule('R5', 'do_wait: the MC branch (3 simcalls) and the non-MC branch (1 simcall + finish) perform acquire_async, wait_for(timeout), lock_async, wait_for(-1)', 2)
    dw = [f for f in P.fns.values() if f['q'].endswith('do_wait') and f['file'].endswith('s4u_ConditionVariable.cpp')]
    ctx.require(len(dw) == 1, 'R5', 'do_wait not found')
    if dw:
        seqs = sync.lambda_kernel_seqs(ctx, dw[0], (C + '::acquire_async', ACQ + '::wait_for', MUT + '::lock_async', MACQ + '::wait_for'))
        tail = (('lock_async', ('issuer',)), ('wait_for', ('issuer', '-1')))
        for i, (c, s) in enumerate(seqs):
            names = tuple(x[0] for x in s)
            if len(s) == 2:
                full = names + ('lock_async', 'wait_for')
                note = 'non-MC lambda + the re-lock tail of finish() (R2)'
            else:
                full = names
                note = 'MC simcalls'
            ok = full == ('acquire_async', 'wait_for', 'lock_async', 'wait_for') and s[1][1][-1] == 'timeout'
            ctx.check(ok, 'R5', 'do_wait branch %d (%s)' % (i, note), where(dw[0]), 'sequence %s' % (s,), key='R5|do_wait|sequence')
        ctx.require(len(seqs) >= 2, 'R5', 'branches not recognised')
    return EXPLANATION
