"""C37 — Trace replay (DESIGN.md 3, C37): the TI record written for each supported action is what the replayer's parser reads, and the replayed
call takes each recorded field in the role the online call gave it."""
from .. import cg, ex, lib
from ..core import where
from ..ir import AnalysisBroken

UNITS = ['src/smpi/bindings/smpi_pmpi_coll.cpp', 'src/smpi/bindings/smpi_pmpi_request.cpp', 'src/smpi/bindings/smpi_pmpi.cpp', 'src/smpi/internals/smpi_replay.cpp',
         'src/smpi/internals/instr_smpi.cpp', 'src/smpi/internals/smpi_bench.cpp', 'src/instr/instr_platform.cpp']
NI = 'simgrid::instr::'
NR = 'simgrid::smpi::replay::'
FIXED = ('NoOpTIData', 'CpuTIData', 'Pt2PtTIData', 'CollTIData', 'WaitTIData')     # record classes whose layout does not depend on the communicator size
# which parser member a record member is read into (confirmed by reading print() against parse(); the reference for later changes)
ROLE = {('Pt2PtTIData', 'endpoint_'): {'partner'}, ('Pt2PtTIData', 'tag_'): {'tag'}, ('Pt2PtTIData', 'size_'): {'size'}, ('Pt2PtTIData', 'type_'): {'datatype1'},
        ('WaitTIData', 'src_'): {'src'}, ('WaitTIData', 'dest_'): {'dst'}, ('WaitTIData', 'tag_'): {'tag'},
        ('CpuTIData', 'amount'): {'flops', 'time'},
        ('CollTIData', 'send_size_'): {'size', 'comm_size', 'send_size'}, ('CollTIData', 'recv_size_'): {'recv_size'}, ('CollTIData', 'amount'): {'comp_size'},
        ('CollTIData', 'root_'): {'root'}, ('CollTIData', 'send_type_'): {'datatype1'}, ('CollTIData', 'recv_type_'): {'datatype2'}}
EXPLANATION = ('Writer/reader agreement on the time-independent trace, per action name the replayer registers and per site that writes a record of that '
               'name.  R1 layout: print() of the record class is partially evaluated with the constant constructor arguments of the site (a datatype '
               'encoding is non-empty, a root that is not a literal is a valid rank); the site must yield one layout, its fields must be at least the '
               'mandatory and at most mandatory+optional fields of the parser (CHECK_ACTION_PARAMS), and the record member printed at position i must be '
               'the one whose role the parser member read from action[2+i] has, with a compatible conversion.  R2 roles end to end: the online entry '
               'point and the replay kernel of the same name call the same SMPI function, and every recorded field sits at the same argument position in '
               'both calls.  R3 every registered action runs the action class whose parser is the one checked.  The records whose layout depends on the '
               'communicator size (VarCollTIData) are not covered; the dates themselves are not decided.')


def strof(t):
    while t is not None:
        if t[0] == 'str':
            return t[1]
        if t[0] == 'ctor' and 'basic_string' in t[1] and t[2]:
            t = t[2][0]
        elif t[0] in ('cast', 'conv'):
            t = t[2]
        else:
            return None
    return None


def names_of(t):
    """the action names a name argument may denote: a literal, a choice between literals, or get_name() (None: any)"""
    while t is not None and ((t[0] == 'ctor' and 'basic_string' in t[1] and t[2]) or t[0] in ('cast', 'conv')):
        t = t[2][0] if t[0] == 'ctor' else t[2]
    if t is None:
        return None
    if t[0] == 'str':
        return [t[1]]
    if t[0] == 'cond':
        a, b = names_of(t[2]), names_of(t[3])
        return (a or []) + (b or []) if a is not None and b is not None else None
    return None


def all_events(A, f):
    v = A.view(f)
    for eid in range(len(f['elems'])):
        for e in v.events_of(eid):
            if e.eid == eid:
                yield e


def strip(t):
    while t is not None and t[0] in ('cast', 'conv'):
        t = t[2]
    return t


class Record:
    """print() of one record class: per path, the branch decisions and the members streamed"""

    def __init__(self, P, A, cls):
        self.cls = cls
        pr = [f for f in P.fns.values() if f['q'] == NI + cls + '::print' and f.get('blocks')]
        if len(pr) != 1:
            raise AnalysisBroken('%s::print: %d definitions' % (cls, len(pr)))
        self.fn = pr[0]
        v = A.view(self.fn)
        self.paths = []
        for p in v.paths(max_visits=1):
            if p.exit in ('noreturn', 'cut', 'throw'):
                continue
            conds, items = [], []
            for e in v.path_events(p):
                if e.kind == 'branch':
                    conds.append((e.atom, e.pol))
                elif e.kind == 'call' and e.q.endswith('operator<<') and e.args:
                    m = self.member(strip(e.args[-1]))
                    if m and m != 'name':
                        items.append(m)
                elif e.kind == 'return' and e.val is not None and self.member(strip(e.val)) == 'name':
                    pass
            self.paths.append((conds, tuple(items)))
        # constructor: member <- parameter index
        self.ctors = {}
        for f in P.fns.values():
            if f['q'] == NI + cls + '::' + cls and f.get('blocks'):
                m = {}
                for e in all_events(A, f):
                    if e.kind == 'assign' and e.lhs[0] == 'field' and e.lhs[1] == ('this',):
                        r = strip(e.rhs)
                        while r is not None and r[0] == 'ctor' and r[2]:
                            r = strip(r[2][0])
                        mem = e.lhs[2].rsplit('::', 1)[-1]
                        if r is not None and r[0] == 'var' and r[1] == 'parm':
                            m[mem] = [i for i, p_ in enumerate(f['params']) if p_['n'] == r[2]][0]
                        elif r is not None and r[0] in ('int', 'float', 'str'):
                            m[mem] = ('lit', r)
                    if e.kind == 'assign' and e.lhs[0] == 'base' or (e.kind == 'call' and e.q.endswith('TIData::TIData') and not e.q.startswith(NI + cls)):
                        args = e.args if e.kind == 'call' else None
                        if args is not None and len(args) >= 2:
                            r = strip(args[1])
                            if r[0] == 'var' and r[1] == 'parm':
                                m['amount'] = [i for i, p_ in enumerate(f['params']) if p_['n'] == r[2]][0]
                self.ctors[len(f['params'])] = (f, m)
        if not self.ctors:      # `using TIData::TIData`
            for f in P.fns.values():
                if f['q'] == NI + 'TIData::TIData' and f.get('blocks') and f['params'] and 'basic_string' in f.tstr(f['params'][0].get('t', -1)):
                    self.ctors[len(f['params'])] = (f, {'amount': 1} if len(f['params']) == 2 else {'amount': ('lit', ('int', 0))})

    @staticmethod
    def member(t):
        if t is None:
            return None
        if t[0] == 'field' and t[1] == ('this',):
            return t[2].rsplit('::', 1)[-1]
        if t[0] == 'call' and t[1].endswith('::get_amount'):
            return 'amount'
        if t[0] == 'call' and t[1].endswith('::get_name'):
            return 'name'
        return None


def absval(t, member):
    """abstract value of a constructor argument"""
    t = strip(t)
    while t is not None and t[0] == 'ctor' and 'basic_string' in t[1] and t[2]:
        t = strip(t[2][0])
    if t is None:
        return ('unknown',)
    if t[0] in ('int', 'float'):
        return ('num', t[1])
    if t[0] == 'un' and t[1] == '-' and strip(t[2])[0] in ('int', 'float'):
        return ('num', -strip(t[2])[1])
    if t[0] == 'str':
        return ('str', t[1])
    if t[0] == 'call' and t[1].endswith('Datatype::encode'):
        return ('nonempty',)
    if member == 'root_':
        return ('nonneg',)
    return ('unknown',)


def eval_atom(a, env):
    """truth of a print() branch atom under the abstract values of the members, or None"""
    def val(t):
        t = strip(t)
        m = Record.member(t)
        if m is not None:
            return env.get(m, ('unknown',))
        if t[0] in ('int', 'float'):
            return ('num', t[1])
        return ('unknown',)
    if a[0] == 'truthy':
        t = strip(a[1])
        if t[0] == 'call' and t[1].endswith('::empty'):
            v = val(t[2])
            if v[0] == 'str':
                return v[1] == ''
            if v[0] == 'nonempty':
                return False
            return None
        v = val(t)
        if v[0] == 'num':
            return v[1] != 0
        return None
    if a[0] == 'bin' and a[1] in ('<', '<=', '>', '>=', '==', '!='):
        l, r = val(a[2]), val(a[3])
        if l[0] == 'num' and r[0] == 'num':
            return {'<': l[1] < r[1], '<=': l[1] <= r[1], '>': l[1] > r[1], '>=': l[1] >= r[1], '==': l[1] == r[1], '!=': l[1] != r[1]}[a[1]]
        if l[0] == 'nonneg' and r == ('num', 0):
            return {'<': False, '>=': True}.get(a[1])
        return None
    return None


def layouts(rec, env):
    """feasible layouts of print() under env -> {items: [undecided atoms per path]}; a root that is a valid rank is split into the cases 0 and positive"""
    if env.get('root_') == ('nonneg',):
        out = {}
        for v_ in (0, 1):
            e2 = dict(env)
            e2['root_'] = ('num', v_)
            for k, u in layouts(rec, e2).items():
                out.setdefault(k, []).extend(u)
        return out
    out = {}
    for conds, items in rec.paths:
        ok, und = True, []
        for a, pol in conds:
            r = eval_atom(a, env)
            if r is None:
                und.append((a, pol))
            elif r != pol:
                ok = False
                break
        if ok:
            out.setdefault(items, []).append(und)
    return out


class Parser:
    """parse() of one parser class under a given action name: mandatory/optional counts and index -> (member, conversion)"""

    def __init__(self, P, A, cls, name):
        fs = [f for f in P.fns.values() if f['q'] == NR + cls + '::parse' and f.get('blocks')]
        self.fn = fs[0] if len(fs) == 1 else None
        self.reads = {}
        self.mand = None
        self.ok = self.fn is not None
        if not self.ok:
            return
        f = self.fn
        v = A.view(f)
        namep = lib.parm_i(f, 1) if len(f['params']) > 1 else None
        got = None
        for p in v.paths(max_visits=1):
            if p.exit in ('noreturn', 'cut', 'throw'):
                continue
            evs = v.path_events(p)
            feasible = True
            for e in evs:
                if e.kind == 'branch' and namep is not None and namep in ex.subterms(e.atom):
                    lits = [t[1] for t in ex.subterms(e.atom) if t[0] == 'str']
                    if len(lits) == 1 and e.atom[0] in ('bin', 'truthy'):
                        eq = (lits[0] == name)
                        op = e.atom[1] if e.atom[0] == 'bin' else '=='
                        truth = eq if op == '==' else (not eq if op == '!=' else None)
                        if truth is not None and truth != e.pol:
                            feasible = False
            if not feasible:
                continue
            reads = {}
            for e in evs:
                if e.kind == 'assign' and e.lhs[0] == 'field' and e.lhs[1] == ('this',):
                    r = strip(e.rhs)
                    idx, conv = None, None
                    if r[0] == 'call' and r[1] in ('parse_root', 'parse_datatype') and len(r[3]) == 2 and strip(r[3][1])[0] == 'int':
                        idx, conv = strip(r[3][1])[1], r[1]
                    elif r[0] == 'call' and r[3]:
                        a0 = strip(r[3][0])
                        if a0[0] == 'call' and a0[1].endswith('::operator[]') and a0[3] and strip(a0[3][0])[0] == 'int':
                            idx, conv = strip(a0[3][0])[1], r[1].rsplit('::', 1)[-1].split('<')[0]
                    elif r[0] == 'call' and r[1].endswith('::operator[]') and r[3] and strip(r[3][0])[0] == 'int':
                        idx, conv = strip(r[3][0])[1], 'string'
                    if idx is not None:
                        reads[idx] = (e.lhs[2].rsplit('::', 1)[-1], conv)
            if got is not None and got != reads:
                self.ok = False
            got = reads
        self.reads = got or {}
        for b in v.blocks:
            ap = v.cond_atom(b['id'])
            if ap and ap[0][0] == 'bin' and ap[0][1] == '<' and 'size' in repr(ap[0][2]):
                lf = lib.linear_form(ap[0][3])
                if lf is not None and not lf[0]:
                    self.mand = lf[1] - 2


CONV_OK = {'int': {'stoi', 'parse_integer', 'parse_root'}, 'size': {'parse_integer', 'stoi'}, 'double': {'parse_double', 'parse_integer'}, 'string': {'parse_datatype', 'string'}}


def run(ctx):
    P = ctx.load(UNITS)
    A = ctx.analyzer
    # ---- registrations: name -> action class -> parser class ------------------------------------------------------------------------------
    ctx.rule('R3', 'every registered action name runs an action class; its parser is the class get_args() returns', 28)
    ri = P.fn('smpi_replay_init')
    reg = {}
    for e in all_events(A, ri):
        if e.kind == 'call' and e.q == 'xbt_replay_action_register' and e.args:
            nm = strof(e.args[0])
            lamk = [t[1] for t in ex.subterms(e.args[1]) if t[0] == 'lambda']
            if nm is None or not lamk or lamk[0] not in P.fns:
                ctx.unrecognised('R3', 'registration at line %s not recognised' % e.line)
                continue
            lf = P.fns[lamk[0]]
            cl = [x.q.rsplit('::', 1)[0] for x in all_events(A, lf) if x.kind == 'call' and x.q.startswith(NR) and x.q.endswith('::execute')]
            ctor_names = [strof(x.args[0]) for x in all_events(A, lf) if x.kind == 'call' and x.q.startswith(NR) and x.q.rsplit('::', 1)[-1] in (x.q.rsplit('::', 2)[-2], 'ReplayAction') and x.args]
            reg[nm] = (cl[0].replace(NR, '').replace('ReplayAction<', '').rstrip('>') if cl else None, [c for c in ctor_names if c], e.line)
    parser_of = {}
    for f in P.fns.values():
        if f['q'].startswith(NR) and f['q'].endswith('::kernel') and f.get('blocks'):
            for e in all_events(A, f):
                if e.kind == 'assign' and e.rhs[0] == 'call' and e.rhs[1].endswith('::get_args'):
                    parser_of[f['q'].replace(NR, '').rsplit('::', 1)[0]] = (e.rhs[1].split('ReplayAction<')[1].split('>')[0].replace(NR, '') if 'ReplayAction<' in e.rhs[1] else None, e.lhs)
    action_of = {}
    for nm, (cl, ctor_names, line) in sorted(reg.items()):
        kern = [f for f in P.fns.values() if f['q'].startswith(NR) and f['q'].endswith('::kernel') and f.get('blocks') and f['q'].replace(NR, '').rsplit('::', 1)[0] in ctor_classes(P, A, ri, nm)]
        if len(kern) > 1:
            ctx.unrecognised('R3', '%s: several action classes' % nm)
            continue
        if not kern:
            if nm == 'finalize':
                ctx.holds('R3', 'finalize: nothing to replay', where(ri, line))
                action_of[nm] = (None, None, None)
            else:
                ctx.unrecognised('R3', '%s: action class not found' % nm)
            continue
        acls = kern[0]['q'].replace(NR, '').rsplit('::', 1)[0]
        pcls = parser_of.get(acls, (None, None))[0]
        wrong_name = [c for c in ctor_names if c != nm]
        ctx.check(not wrong_name, 'R3', '"%s" runs %s (parser %s) under its own name' % (nm, acls, pcls or 'none'), where(ri, line), 'registered as "%s" but constructed with name %s' % (nm, wrong_name) if wrong_name else '',
                  key='R3|%s|registration' % nm)
        action_of[nm] = (acls, pcls, kern[0])
    ctx.require(len(action_of) >= 25, 'R3', 'only %d registered actions resolved' % len(action_of))

    # ---- writer sites -------------------------------------------------------------------------------------------------------------------------------
    recs = {c: Record(P, A, c) for c in FIXED}
    sites = []
    varcoll = set()
    for f in sorted(P.fns.values(), key=lambda f_: f_['key']):
        if not f.get('blocks'):
            continue
        for e in all_events(A, f):
            if e.kind != 'new':
                continue
            ty = e.nf[1].replace(NI, '').replace('simgrid::instr::', '')
            args = e.nf[2][0][2] if e.nf[2] and e.nf[2][0][0] == 'ctor' else e.nf[2]
            if ty == 'VarCollTIData':
                varcoll |= set(names_of(args[0]) or ['?'])
                continue
            if ty not in FIXED or not args:
                continue
            if f['q'].startswith(NR) or f['q'] == 'smpi_replay_main':
                continue        # the replayer's own tracing of what it replays is not the recorded run
            sites.append((f, e, ty, args))
    ctx.rule('R1', 'each record written under a supported name has one layout, within the parser\'s field counts, with every field read in its role', 18)
    unsupported = set()
    checked_names = set()
    for f, e, ty, args in sites:
        nms = names_of(args[0])
        replaying = f['q'].startswith(NR)
        if nms is None:
            if replaying and strip(args[0] if args[0][0] != 'ctor' else args[0][2][0])[0] == 'call':
                acls = f['q'].replace(NR, '').rsplit('::', 1)[0]
                nms = [n for n, (a_, p_, k_) in action_of.items() if a_ == acls]
            else:
                ctx.unrecognised('R1', '%s line %s: record name not recognised' % (f['q'], e.line))
                continue
        rec = recs[ty]
        if len(args) not in rec.ctors:
            ctx.unrecognised('R1', '%s line %s: no %s constructor with %d parameters' % (f['q'], e.line, ty, len(args)))
            continue
        cf, pmap = rec.ctors[len(args)]
        env = {}
        for mem, src in pmap.items():
            env[mem] = absval(args[src], mem) if isinstance(src, int) else absval(src[1], mem)
        if 'amount' not in env and ty in ('Pt2PtTIData', 'WaitTIData', 'NoOpTIData'):
            env['amount'] = ('num', 0)
        lays = layouts(rec, env)
        for nm in nms:
            short = '%s writes "%s" (%s)' % (f['q'].replace('simgrid::smpi::replay::', '').replace('simgrid::instr::', ''), nm, ty)
            if nm not in action_of:
                unsupported.add(nm)
                continue
            acls, pcls, kern = action_of[nm]
            checked_names.add(nm)
            key = 'R1|%s|%s' % (f['q'].replace('simgrid::smpi::replay::', '').replace('simgrid::instr::', ''), nm)
            if len(lays) != 1:
                und = sorted(set(ex.pretty(a) for unds in lays.values() for u in unds for a, _ in u))
                ctx.violation('R1', short + ': the fields written depend on run-time values', where(f, e.line),
                              'layouts %s, decided by %s: the parser cannot tell which field is missing' % (sorted(lays), und), key=key)
                continue
            lay = list(lays)[0]
            if pcls in (None, 'ActionArgParser'):
                ctx.check(True, 'R1', short + ': no field is read', where(f, e.line), 'fields %s' % (lay,), key=key)
                continue
            ps = Parser(P, A, pcls, nm)
            if not ps.ok or ps.mand is None:
                ctx.unrecognised('R1', '%s: parser %s not recognised' % (nm, pcls))
                continue
            nread = (max(ps.reads) - 1) if ps.reads else 0
            problems = []
            if len(lay) < ps.mand:
                problems.append('%d field(s) written, %d mandatory' % (len(lay), ps.mand))
            for i, mem in enumerate(lay):
                rd = ps.reads.get(2 + i)
                if rd is None:
                    if not (mem.endswith('type_') and env.get(mem) == ('str', '')):
                        problems.append('field %d (%s) is not read' % (i, mem))
                    continue
                roles = ROLE.get((ty, mem), set())
                if rd[0] not in roles:
                    problems.append('field %d is %s but is read as %s' % (i, mem, rd[0]))
                kind = 'string' if mem.endswith('type_') else ('double' if mem == 'amount' else 'int')
                if rd[1] not in CONV_OK[kind]:
                    problems.append('field %d (%s, %s) is converted with %s' % (i, mem, kind, rd[1]))
            for idx, rd in sorted(ps.reads.items()):
                if idx - 2 >= len(lay) and idx - 2 < ps.mand:
                    problems.append('mandatory field %d (%s) is not written' % (idx - 2, rd[0]))
            ctx.check(not problems, 'R1', short + ': fields %s are read as %s' % (list(lay), [ps.reads.get(2 + i, ('-',))[0] for i in range(len(lay))]), where(f, e.line), '; '.join(problems), key=key)
    ctx.notes.append('names written but not supported by the replayer (outside the property): %s' % sorted(unsupported))
    ctx.notes.append('records whose layout depends on the communicator size are not covered: %s' % sorted(varcoll))
    ctx.notes.append('supported names with no fixed-layout writer in the analysed units: %s' % sorted(set(action_of) - checked_names))

    # ---- R2 -----------------------------------------------------------------------------------------------------------------------------------------
    ctx.rule('R2', 'the online entry point and the replay kernel call the same SMPI function with every recorded field at the same argument position', 12)
    n2 = 0
    for f, e, ty, args in sites:
        if f['q'].startswith(NR) or not f['q'].startswith('PMPI_'):
            continue
        nms = [n for n in (names_of(args[0]) or []) if n in action_of]
        rec = recs[ty]
        if not nms or len(args) not in rec.ctors:
            continue
        cf, pmap = rec.ctors[len(args)]
        for nm in nms:
            acls, pcls, kern = action_of[nm]
            if pcls in (None, 'ActionArgParser'):
                continue
            ps = Parser(P, A, pcls, nm)
            lays = layouts(rec, {m: (absval(args[s], m) if isinstance(s, int) else absval(s[1], m)) for m, s in pmap.items()})
            if len(lays) != 1 or not ps.ok:
                continue
            lay = list(lays)[0]
            # the SMPI calls of the online function and of the kernel (under this name)
            oc = [x for x in all_events(A, f) if smpi_call(x)]
            kc = kernel_calls(A, kern, nm)
            common = [(o, k) for o in oc for k in kc if smpi_call(o) == smpi_call(k)]
            if not common:
                ctx.notes.append('%s: no common SMPI call between %s and %s (%s vs %s)' % (nm, f['q'], kern['q'].replace(NR, ''), sorted(set(smpi_call(o).rsplit('::', 1)[-1] for o in oc)), sorted(set(smpi_call(k).rsplit('::', 1)[-1] for k in kc))))
                continue
            o, k = common[0]
            argsvar = parser_var(A, kern)
            problems = []
            decided = 0
            for i, mem in enumerate(lay):
                rd = ps.reads.get(2 + i)
                src = pmap.get(mem)
                if rd is None or not isinstance(src, int):
                    continue
                leaves = leaf_vars(A, f, args[src], o)
                pos_o = sorted(j for j, a_ in enumerate(o.args) if any(l in ex.subterms(a_) for l in leaves) and not is_comm(f, a_))
                pos_k = sorted(j for j, a_ in enumerate(k.args) if any(t[0] == 'field' and t[1] == argsvar and t[2].rsplit('::', 1)[-1] == rd[0] for t in closure(A, kern, a_)))
                if not pos_o and not pos_k:
                    continue
                decided += 1
                # buffers are sized from the counts in the replay: ignore buffer positions (void* parameters) on both sides
                pos_o = [j for j in pos_o if not is_buffer(o, j)]
                pos_k = [j for j in pos_k if not is_buffer(o, j)]
                if pos_o != pos_k:
                    problems.append('%s: online argument position(s) %s of %s, replayed %s as position(s) %s' % (mem, pos_o, smpi_call(o).rsplit('::', 1)[-1], rd[0], pos_k))
            n2 += 1
            ctx.check(not problems and decided >= 1, 'R2', '%s: %s and %s call %s with the recorded fields in the same roles (%d field(s))' % (nm, f['q'], kern['q'].replace(NR, ''), smpi_call(o).replace('simgrid::smpi::', ''), decided),
                      where(f, e.line), '; '.join(problems), key='R2|%s|%s' % (f['q'], nm))
    ctx.require(n2 >= 12, 'R2', 'only %d online/replay pairs compared' % n2)
    # ---- R4 pending requests of one (src, dst, tag) are completed in the order they were posted -------------------------------------------------
    ctx.rule('R4', 'RequestStorage is first-in first-out per (src, dst, tag): a wait/test line names its request only by that triple, and the online run completed them in posting order', 1)
    ins, rem = set(), set()
    n4 = 0
    for f in sorted(P.fns.values(), key=lambda f_: f_['key']):
        if not (f['q'].startswith(NR + 'RequestStorage::') and f.get('blocks')):
            continue
        for e in all_events(A, f):
            if e.kind != 'call' or e.obj is None:
                continue
            m = e.q.rsplit('::', 1)[-1]
            per_key = '.second' in ex.pretty(e.obj) or 'operator[]' in repr(e.obj)
            if not per_key:
                continue
            side = {'push_back': ('ins', 'back'), 'emplace_back': ('ins', 'back'), 'push_front': ('ins', 'front'), 'emplace_front': ('ins', 'front'),
                    'front': ('rem', 'front'), 'pop_front': ('rem', 'front'), 'back': ('rem', 'back'), 'pop_back': ('rem', 'back')}.get(m)
            if side is None:
                continue
            n4 += 1
            (ins if side[0] == 'ins' else rem).add((side[1], f['q'].replace(NR, ''), e.line))
    isides = set(x[0] for x in ins)
    rsides = set(x[0] for x in rem)
    fifo = len(isides) == 1 and len(rsides) == 1 and isides != rsides
    ctx.check(fifo and n4 >= 3, 'R4', 'RequestStorage: requests are added at one end of the per-key sequence and taken from the other', where(P.fn(NR + 'RequestStorage::pop')),
              'inserted at %s (%s), taken from %s (%s)%s' % (sorted(isides), sorted(set(x[1] for x in ins)), sorted(rsides), sorted(set(x[1] for x in rem)),
                                                          '' if fifo else ': two pending requests with the same source, destination and tag are completed in the wrong order, so a replayed wait blocks on another transfer than the online one'),
              key='R4|RequestStorage|fifo per key')
    ctx.assume('the replayed dates are not decided; MPI_COMM_WORLD replaces the recorded communicator (ranks are translated by the writer); computation is not simulated')
    return EXPLANATION


def smpi_call(e):
    """name of the SMPI function a call event runs (Request::x, colls::x, or the colls::x function pointer), else None"""
    if e.kind != 'call' or len(e.args or ()) < 2:
        return None
    if e.q.startswith('simgrid::smpi::Request::') or e.q.startswith('simgrid::smpi::colls::'):
        return e.q
    if e.q == '<indirect>' and e.obj is not None and e.obj[0] == 'var' and e.obj[1] == 'global' and e.obj[2].startswith('simgrid::smpi::colls::'):
        return e.obj[2]
    return None


def ctor_classes(P, A, ri, nm):
    """action classes constructed by the lambda registered under nm"""
    out = set()
    for e in all_events(A, ri):
        if e.kind == 'call' and e.q == 'xbt_replay_action_register' and e.args and strof(e.args[0]) == nm:
            for t in ex.subterms(e.args[1]):
                if t[0] == 'lambda' and t[1] in P.fns:
                    for x in all_events(A, P.fns[t[1]]):
                        if x.kind == 'call' and x.q.endswith('::execute') and x.obj is not None:
                            o = x.obj
                            while o is not None and o[0] in ('cast', 'conv'):
                                if NR in str(o[1]):
                                    out.add(str(o[1]).replace(NR, '').replace('const ', '').strip(' &*'))
                                    o = None
                                else:
                                    o = o[2]
                            if o is not None and o[0] == 'ctor' and o[1].startswith(NR):
                                out.add(o[1].replace(NR, '').split('::')[0])
    return out


def kernel_calls(A, kern, nm):
    """SMPI calls of a replay kernel on the paths where get_name() == nm"""
    v = A.view(kern)
    out = []
    seen = set()
    for p in v.paths(max_visits=1):
        if p.exit in ('noreturn', 'cut'):
            continue
        feasible = True
        evs = v.path_events(p)
        for e in evs:
            if e.kind == 'branch' and 'get_name' in repr(e.atom):
                lits = [t[1] for t in ex.subterms(e.atom) if t[0] == 'str']
                if len(lits) == 1 and e.atom[0] == 'bin' and e.atom[1] in ('==', '!='):
                    truth = (lits[0] == nm) if e.atom[1] == '==' else (lits[0] != nm)
                    if truth != e.pol:
                        feasible = False
        if not feasible:
            continue
        for e in evs:
            if smpi_call(e) and (e.eid, smpi_call(e)) not in seen:
                seen.add((e.eid, smpi_call(e)))
                out.append(e)
    return out


def parser_var(A, kern):
    for e in all_events(A, kern):
        if e.kind == 'assign' and e.rhs[0] == 'call' and e.rhs[1].endswith('::get_args'):
            return e.lhs
    return None


def leaf_vars(A, f, t, call):
    """variables a recorded value is computed from; single-definition locals that the SMPI call does not mention are expanded"""
    todo, out, seen = [t], set(), set()
    incall = set(x for a_ in call.args for x in ex.subterms(a_) if x[0] == 'var')
    while todo:
        x = todo.pop()
        for s in ex.subterms(x):
            if s[0] == 'var' and s not in seen:
                seen.add(s)
                if s in incall or s[1] == 'parm':
                    out.add(s)
                else:
                    defs = [e.rhs for e in all_events(A, f) if e.kind == 'assign' and e.lhs == s]
                    if len(defs) == 1:
                        todo.append(defs[0])
                    else:
                        out.add(s)
    return out


def is_comm(f, t):
    t = strip(t)
    return t[0] == 'var' and any(p_['n'] == t[2] and 'Comm' in f.tstr(p_.get('t', -1)) for p_ in f['params']) if t[0] == 'var' and t[1] == 'parm' else False


def is_buffer(call, j):
    a = strip(call.args[j])
    return 'buf' in repr(a).lower() and a[0] in ('var', 'call', 'null', 'nullptr')


def closure(A, f, t):
    """subterms of t, with the locals replaced (also) by everything their definitions mention"""
    out, todo, seen = [], [t], set()
    while todo:
        x = todo.pop()
        for s_ in ex.subterms(x):
            out.append(s_)
            if s_[0] == 'var' and s_[1] == 'local' and s_ not in seen:
                seen.add(s_)
                for e in all_events(A, f):
                    if e.kind == 'assign' and e.lhs == s_:
                        todo.append(e.rhs)
    return out
