"""C46 — File-system accounting is consistent (DESIGN.md 3, C46): P12 affine conservation."""
from .. import ex, lib
from ..core import where
from ..ir import AnalysisBroken

UNITS = ['src/plugins/file_system/s4u_FileSystem.cpp']
F = 'simgrid::s4u::File'
EXT = 'simgrid::s4u::FileSystemDiskExt'
EXPLANATION = ('Every path of File::write / File::seek (update_position and the simcall lambdas inlined) is interpreted over '
               'affine expressions of the entry values: at every normal exit the change of the disk\'s used size (sum of '
               'incr_used_size/decr_used_size arguments) must equal the change of the file size; unlink gives back exactly the '
               'file size; read asks the disk for min(size, file size - position); every change of the file size rewrites the '
               'content entry. Holds for every sequence of operations because it holds per operation on every path.')


def run(ctx):
    P = ctx.load(UNITS)
    A = ctx.analyzer
    size_f = lib.this_field(F + '::size_')
    pos_f = lib.this_field(F + '::current_position_')
    for q in (F + '::size_', F + '::current_position_'):
        if not any(f[2] == q for f in lib.fields(P, F)):
            raise AnalysisBroken('field %s not found' % q)

    def inl(ev, callee):
        return callee['q'] in (F + '::update_position', F + '::seek')

    def account(evs):
        """interpret one path; returns (interp, used delta, list of size assignments, events)"""
        it = lib.AffineInterp()
        used = lib.Affine()
        for e in evs:
            if e.kind == 'call' and e.q == EXT + '::incr_used_size':
                used = used + it.eval(e.args[0])
            elif e.kind == 'call' and e.q == EXT + '::decr_used_size':
                used = used - it.eval(e.args[0])
            else:
                it.step(e)
        return it, used

    # ---- R1 ----------------------------------------------------------------------------------------------------------
    ctx.rule('R1', 'on every normal path of write and seek: change of used size == change of file size', 8)
    targets = [P.fn(F + '::write')] + P.fns_named(F + '::seek')
    ctx.require(len(targets) == 3, 'R1', 'expected write and two seek overloads, found %d functions' % len(targets))
    for f in targets:
        short = f['q'].rsplit('::', 1)[-1] + '/%d' % len(f['params'])
        ips = A.ipaths(f, inline=inl, depth=3, byvalue=True, lambdas=True)
        ctx.count('paths', len(ips))
        seen = set()
        for evs, ex_kind in ips:
            if ex_kind in ('noreturn', 'cut', 'throw'):
                continue
            it, used = account(evs)
            dsize = it.read(size_f) - lib.Affine.sym(('init', size_f))
            diff = used - dsize
            conds = tuple((ex.pretty(e.atom), e.pol) for e in evs if e.kind == 'branch')
            sig = (repr(used), repr(dsize))
            cdesc = ' ; '.join(('%s%s' % ('' if pol else '!', a)) for a, pol in conds)
            inst = '%s path [%s]' % (short, cdesc)
            if inst in seen:
                continue
            seen.add(inst)
            ctx.check(diff.is_zero(), 'R1', inst, where(f),
                      'delta used = %r ; delta size = %r%s' % (used, dsize, '' if diff.is_zero() else ' ; they differ by %r' % diff),
                      key='R1|%s|used-size=%r' % (short, diff))

    # ---- R1b who may write the used size -----------------------------------------------------------------------------------
    ctx.rule('R1b', 'the used size is written only by incr_used_size / decr_used_size and the initial content parser; the two helpers add / subtract exactly the amount passed', 4)
    uses = lib.field_uses(P, EXT + '::used_size_')
    for u in uses:
        if u.kind != 'write':
            continue
        q = u.fn['q']
        ok = q.startswith((EXT + '::incr_used_size', EXT + '::decr_used_size', EXT + '::FileSystemDiskExt', EXT + '::parse_content'))
        ctx.check(ok, 'R1b', 'write of used_size_ in %s' % q, where(u.fn, u.line), 'allowed writer' if ok else 'unexpected writer of the used size',
                  key='R1b|%s|writer' % q)

    # the two helpers do what R1 and R2 take them to do: used_size_ changes by exactly the amount passed, unconditionally
    for nm, op in (('incr_used_size', '+='), ('decr_used_size', '-=')):
        hs = [f for f in P.fns.values() if f['q'] == EXT + '::' + nm and f.get('elems')]
        ctx.require(len(hs) == 1, 'R1b', '%s: %d definitions' % (nm, len(hs)))
        if len(hs) != 1:
            continue
        h = hs[0]
        prm = h['params'][0]['n'] if h['params'] else None
        bodies = [h] + [P.fns[n['fn']] for el in h['elems'] for n in ex.walk(el['x']) if n.get('k') == 'Lambda' and n.get('fn') in P.fns]
        ws = []
        for b in bodies:
            if not b.get('blocks'):
                continue
            bv = A.view(b)
            nb = len([x for x in b['blocks'] if len(bv.succs(x['id'])) > 1 and not bv.is_log_branch(x['id'])])
            for eid in range(len(b['elems'])):
                for e in bv.events_of(eid):
                    if e.kind == 'assign' and e.lhs[0] == 'field' and e.lhs[2] == EXT + '::used_size_':
                        rhs = e.rhs
                        while rhs[0] in ('cast', 'conv'):
                            rhs = rhs[2]
                        ws.append((e.op, rhs[2] if rhs[0] == 'var' else ex.pretty(rhs), nb, e.line))
        ok = len(ws) == 1 and ws[0][0] == op and ws[0][1] == prm and ws[0][2] == 0
        ctx.check(ok, 'R1b', '%s: used_size_ %s %s, unconditionally' % (nm, op, prm), where(h, ws[0][3] if ws else None),
                  'stores: %s' % [(w[0], w[1], 'under %d branch(es)' % w[2]) for w in ws] + (': the disk is charged something else than what the file grew by' if not ok else ''),
                  key='R1b|%s|exact amount' % nm)

    # ---- R2 unlink / constructor / move ----------------------------------------------------------------------------------
    ctx.rule('R2', 'unlink gives back exactly the file size and erases the entry; opening never changes the used size and a new '
                   'file gets a size-0 entry; move keeps size and used size', 4)
    f = P.fn(F + '::unlink')
    for evs, ek in A.ipaths(f, byvalue=True, lambdas=True):
        if ek in ('noreturn', 'cut', 'throw'):
            continue
        it, used = account(evs)
        ret = [e for e in evs if e.kind == 'return']
        if ret and ret[0].val == ('int', 0):
            erased = [e for e in evs if e.kind == 'call' and e.q.endswith('::erase')]
            want = lib.Affine.sym(('init', size_f)).scale(-1)
            ctx.check(used == want and len(erased) == 1, 'R2', 'unlink success path', where(f, ret[0].line),
                      'delta used = %r (want -size_), %d erase call(s)' % (used, len(erased)), key='R2|unlink|accounting')
        else:
            ctx.check(used.is_zero(), 'R2', 'unlink failure path', where(f), 'delta used = %r' % used, key='R2|unlink|failure changes used size')
    ctors = [c for c in P.fns_named(F + '::File') if len(c['params']) == 3]
    ctx.require(len(ctors) == 1, 'R2', 'File constructor (3 parameters) not found')
    for c in ctors:
        n = 0
        for evs, ek in A.ipaths(c, byvalue=True, lambdas=True):
            if ek in ('noreturn', 'cut', 'throw'):
                continue
            it, used = account(evs)
            sz = [e for e in evs if e.kind == 'assign' and e.lhs == size_f]
            ins = [e for e in evs if e.kind == 'call' and e.q.endswith('::insert')]
            n += 1
            notfound = any(e.kind == 'branch' and e.pol and e.atom[0] == 'bin' and e.atom[1] == '==' and
                           any(t[0] == 'call' and t[1].endswith('::end') for t in (e.atom[2], e.atom[3])) for e in evs)
            if notfound:
                ctx.check(used.is_zero() and len(ins) == 1, 'R2', 'open: new file', where(c, sz[-1].line), 'delta used = %r, %d insert(s) of the entry' % (used, len(ins)),
                          key='R2|ctor|new file')
                ctx.check(bool(sz) and sz[-1].rhs == ('int', 0), 'R2', 'open: new file has size 0', where(c), '%s' % sz[-1:], key='R2|ctor|new file size')
            else:
                ctx.check(used.is_zero() and not ins, 'R2', 'open: existing file or no content', where(c), 'delta used = %r, %d insert(s)' % (used, len(ins)), key='R2|ctor|existing file')
        ctx.require(n >= 2, 'R2', 'constructor paths not recognised')
    mv = P.fn(F + '::move')
    for evs, ek in A.ipaths(mv, byvalue=True, lambdas=True):
        if ek in ('noreturn', 'cut', 'throw'):
            continue
        it, used = account(evs)
        szw = [e for e in evs if e.kind in ('assign', 'incdec') and e.lhs == size_f]
        ctx.check(used.is_zero() and not szw, 'R2', 'move path', where(mv), 'delta used = %r, size writes %d' % (used, len(szw)), key='R2|move|changes accounting')
        ins = [e for e in evs if e.kind == 'call' and e.q.endswith('::insert')]
        ers = [e for e in evs if e.kind == 'call' and e.q.endswith('::erase')]
        if ins or ers:
            env = {}
            for e in evs:
                if e.kind == 'assign' and e.lhs[0] == 'var':
                    env[e.lhs] = e.rhs

            def res(t, d=0):
                while t[0] in ('cast', 'conv'):
                    t = t[2]
                if t[0] == 'var' and t in env and d < 5:
                    return res(env[t], d + 1)
                return t
            carried = False
            for e in ins:
                for x in ex.subterms(e.args[0]) if e.args else ():
                    r = res(x) if x[0] == 'var' else x
                    if r[0] == 'field' and r[2].endswith('::second'):
                        base = [res(y) for y in ex.subterms(r[1]) if y[0] == 'var']
                        if any(b[0] == 'call' and b[1].endswith('::find') for b in base):
                            carried = True
            ctx.check(len(ins) == 1 and len(ers) == 1 and carried, 'R2', 'move: the entry re-inserted under the new name carries the size of the entry erased', where(mv, ins[0].line if ins else None),
                      '%d erase, %d insert, size carried over: %s' % (len(ers), len(ins), carried), key='R2|move|size carried')

    # ---- R3 read -----------------------------------------------------------------------------------------------------------
    ctx.rule('R3', 'read asks the disk for min(size, size_ - position) and advances the position by what was read', 1)
    rd = P.fn(F + '::read')
    v = A.view(rd)
    sz_p = lib.parm_i(rd, 0)
    want_a = ('bin', '-', size_f, pos_f)
    for p in v.paths():
        if p.exit in ('noreturn', 'cut', 'throw'):
            continue
        evs = v.path_events(p)
        reads = [e for e in evs if e.kind == 'call' and e.q == 'simgrid::s4u::Disk::read']
        if not reads:
            ret = [e for e in evs if e.kind == 'return']
            ctx.check(bool(ret) and ret[0].val == ('int', 0), 'R3', 'read: path without disk access returns 0', where(rd), '', key='R3|read|no disk access')
            continue
        env = {}
        for e in evs:
            if e.kind == 'assign' and e.op == '=' and e.lhs[0] == 'var':
                env[e.lhs] = e.rhs
        arg = reads[0].args[0]
        arg = env.get(arg, arg)
        ok = arg[0] == 'call' and arg[1] == 'std::min' and set(arg[3]) == {sz_p, want_a}
        ctx.check(ok, 'R3', 'read: amount requested from the disk', where(rd, reads[0].line), 'requested %s' % ex.pretty(arg), key='R3|read|amount')
        adv = [e for e in evs if e.kind == 'assign' and e.lhs == pos_f]
        res_var = [e.lhs for e in evs if e.kind == 'assign' and e.rhs[0] == 'call' and e.rhs[1] == 'simgrid::s4u::Disk::read']
        ok2 = len(adv) == 1 and adv[0].op == '+=' and res_var and adv[0].rhs == res_var[0]
        ctx.check(ok2, 'R3', 'read: position advances by the amount read', where(rd, adv[0].line if adv else None), '%s' % adv, key='R3|read|advance')

    # ---- R4 content entry follows the size -----------------------------------------------------------------------------------
    ctx.rule('R4', 'whenever the file size changes, the content entry is rewritten with the new size on the same path', 3)
    for f in targets:
        short = f['q'].rsplit('::', 1)[-1] + '/%d' % len(f['params'])
        done = set()
        for evs, ek in A.ipaths(f, inline=inl, depth=3, byvalue=True, lambdas=True):
            if ek in ('noreturn', 'cut', 'throw'):
                continue
            idx = [i for i, e in enumerate(evs) if e.kind in ('assign', 'incdec') and e.lhs == size_f]
            if not idx:
                continue
            last = idx[-1]
            ins = [e for e in evs[last:] if e.kind == 'call' and e.q.endswith('::insert') and any(ex.mentions(a, size_f) for a in e.args)]
            ers = [e for e in evs[last:] if e.kind == 'call' and e.q.endswith('::erase')]
            sig = (evs[last].line, bool(ins), bool(ers))
            if sig in done:
                continue
            done.add(sig)
            ctx.check(bool(ins) and bool(ers), 'R4', '%s: size_ written at line %s' % (short, evs[last].line), where(evs[last].fn, evs[last].line),
                      'content entry %s after the last size change' % ('rewritten' if ins and ers else 'NOT rewritten'), key='R4|%s|content stale' % short)
    ctx.assume('Disk::write/Disk::read results are opaque non-negative amounts; sg_size_t wrap-around is not modelled')
    return EXPLANATION
