"""C05 — Semaphore semantics: token conservation, FIFO, timeouts (DESIGN.md 3, C05)."""
from .. import ex, lib, sync
from ..core import where
from ..ir import AnalysisBroken

UNITS = ['src/kernel/activity/SemaphoreImpl.cpp', 'src/s4u/s4u_Semaphore.cpp', 'src/kernel/activity/ActivityImpl.cpp']
S = 'simgrid::kernel::activity::SemaphoreImpl'
ACQ = 'simgrid::kernel::activity::SemAcquisitionImpl'
EXPLANATION = ('CFG-path rules on SemaphoreImpl::{acquire_async,release} and SemAcquisitionImpl::{wait_for,finish,cancel}: '
               'per-path token conservation (delta value_ + grants = 0 / 1), single writer of value_, FIFO queue discipline, '
               'timeout path cancels the acquisition and consumes no token, the "no timeout" sentinel agrees with the other '
               'wait_for implementations, MC and non-MC branches of acquire_timeout perform the same kernel sequence.')


def run(ctx):
    P = ctx.load(UNITS)
    A = ctx.analyzer
    value = lib.field_where(P, S, lambda n, t: t in ('unsigned int', 'int') and n.startswith('value'), 'token count')
    queue = lib.field_where(P, S, lambda n, t: ACQ in t and t.startswith(('std::deque<', 'std::list<', 'std::vector<')), 'acquisition queue')
    granted = lib.field_where(P, ACQ, lambda n, t: t == 'bool' and 'grant' in n, 'granted flag')
    VAL, Q = lib.this_field(value), lib.this_field(queue)
    acq = P.fn(S + '::acquire_async')
    rel = P.fn(S + '::release')

    def grants(evs):
        return [e for e in evs if e.kind == 'assign' and e.lhs[0] == 'field' and e.lhs[2] == granted and e.rhs == ('bool', True)]

    # ---- R1 token conservation --------------------------------------------------------------------------------------------
    ctx.rule('R1', 'per path: acquire_async: delta(value_) + grants = 0; release: delta(value_) + grants = 1; no other writer of value_', 5)
    for f, want in ((acq, 0), (rel, 1)):
        v = A.view(f)
        for p in v.paths():
            if p.exit in ('noreturn', 'cut', 'throw'):
                continue
            ctx.count('paths')
            evs = v.path_events(p)
            it = lib.AffineInterp()
            for e in evs:
                it.step(e)
            dv = it.read(VAL) - lib.Affine.sym(('init', VAL))
            g = len(grants(evs))
            tot = dv + lib.Affine.const(g)
            conds = ' ; '.join(('%s%s' % ('' if e.pol else '!', ex.pretty(e.atom))) for e in evs if e.kind == 'branch')
            ctx.check(tot == lib.Affine.const(want), 'R1', '%s path [%s]' % (f['q'].rsplit('::', 1)[-1], conds), where(f),
                      'delta value_ = %r, grants = %d, want sum %d' % (dv, g, want), key='R1|%s|conservation' % f['q'].rsplit('::', 1)[-1])
    for u in lib.field_uses(P, value):
        if u.kind != 'write' or u.op == 'init':
            continue
        ok = u.fn['q'] in (acq['q'], rel['q'])
        ctx.check(ok, 'R1', 'writer of value_: %s' % u.fn['q'], where(u.fn, u.line), 'allowed' if ok else 'token count written outside acquire_async/release', key='R1|%s|writer' % u.fn['q'])
    for u in lib.field_uses(P, granted):
        if u.kind != 'write' or u.op == 'init':
            continue
        ok = u.fn['q'] in (acq['q'], rel['q'])
        ctx.check(ok, 'R1', 'writer of granted_: %s' % u.fn['q'], where(u.fn, u.line), 'allowed' if ok else 'grant flag written outside acquire_async/release', key='R1|%s|grant writer' % u.fn['q'])

    # ---- R2 FIFO -----------------------------------------------------------------------------------------------------------
    ctx.rule('R2', 'queue: back insertion only when no token is free, grant from the front, value_ incremented only when nobody waits', 6)
    allowed = {acq['q']: {'insert_back'}, rel['q']: {'read_front', 'remove_front', 'query'}, ACQ + '::cancel': {'scan', 'erase'}}
    _eff, _owners = lib.effective_allowed(allowed, lib.class_call_closure(P, A, 'simgrid::kernel::activity::'))
    for u in lib.field_uses(P, queue):
        if u.kind == 'write' and u.op == 'init':
            continue
        cls = u.kind if u.kind != 'call' else lib.CONTAINER_OPS.get(u.method, 'other:' + str(u.method))
        if cls == 'query':
            ctx.holds('R2', '%s: %s' % (u.fn['q'], u.method), where(u.fn, u.line), 'query')
            continue
        own = _owners(u.fn['q'])      # the operations of a private helper belong to the entry points that call it
        ok = bool(own) and all(cls in _eff.get(o, set()) for o in own)
        ctx.check(ok, 'R2', '%s: %s' % (u.fn['q'].replace('simgrid::kernel::activity::', ''), u.method or u.kind), where(u.fn, u.line),
                  'operation class %s %s' % (cls, 'allowed here' if ok else 'breaks the FIFO discipline'), key='R2|%s|%s' % (u.fn['q'].rsplit('::', 1)[-1], cls))
    v = A.view(acq)
    free = ('bin', '<=', VAL, ('int', 0))   # atom of `value_ > 0` is the negative of `value_ <= 0`
    for p in v.paths():
        if p.exit in ('noreturn', 'cut', 'throw'):
            continue
        evs = v.path_events(p)
        for ev, facts in lib.facts_walk(evs):
            if ev.kind == 'call' and ev.obj == Q and ev.q.endswith(('::push_back', '::emplace_back')):
                ctx.check(facts.get(free) is True, 'R2', 'acquire_async enqueues only when value_ <= 0', where(acq, ev.line), 'facts: %s' % {ex.pretty(a): t for a, t in facts.items()},
                          key='R2|acquire_async|enqueue guard')
            if ev.kind == 'incdec' and ev.lhs == VAL:
                ctx.check(facts.get(free) is False and ev.op == '--', 'R2', 'acquire_async takes a token only when value_ > 0', where(acq, ev.line), '', key='R2|acquire_async|take guard')
    v = A.view(rel)
    empty = ('truthy', ('call', 'std::deque<boost::intrusive_ptr<%s>>::empty' % ACQ, Q, ()))
    for p in v.paths():
        if p.exit in ('noreturn', 'cut', 'throw'):
            continue
        evs = v.path_events(p)
        for ev, facts in lib.facts_walk(evs):
            if ev.kind in ('incdec', 'assign') and ev.lhs == VAL:
                em = [t for a, t in facts.items() if a[0] == 'truthy' and a[1][0] == 'call' and a[1][1].endswith('::empty') and a[1][2] == Q]
                ctx.check(em == [True], 'R2', 'release returns the token to value_ only when the queue is empty', where(rel, ev.line), '', key='R2|release|increment guard')
        names = [e.q.rsplit('::', 1)[-1] for e in evs if e.kind == 'call' and e.obj == Q and e.q.rsplit('::', 1)[-1] in ('front', 'pop_front')]
        if names:
            ctx.check(names == ['front', 'pop_front'], 'R2', 'release grants the front element and removes it', where(rel), str(names), key='R2|release|front pairing')
            g = grants(evs)
            fv = [e.lhs for e in evs if e.kind == 'assign' and e.rhs[0] == 'call' and e.rhs[1].endswith('::front') and e.rhs[2] == Q]
            ctx.check(len(g) == 1 and fv and g[0].lhs[1] == fv[0], 'R2', 'release grants exactly the element taken from the front', where(rel), '%s' % g, key='R2|release|grants front')

    # ---- R3 timeout path of finish ---------------------------------------------------------------------------------------
    ctx.rule('R3', 'finish: when the timeout elapsed and the acquisition is not granted it is cancelled, the result is "timed out" and no token moves; when granted the result stays false', 3)
    fin = P.fn(ACQ + '::finish')
    v = A.view(fin)
    ntime = 0
    for p in v.paths():
        if p.exit in ('noreturn', 'cut', 'throw'):
            continue
        evs = v.path_events(p)
        fin_facts = {}
        for e in evs:
            if e.kind == 'branch':
                fin_facts.setdefault(e.atom, e.pol)
        elapsed = [t for a, t in fin_facts.items() if a[0] == 'bin' and a[1] == '==' and 'get_state' in repr(a) and 'FINISHED' in repr(a)]
        gr = fin_facts.get(lib.truthy(lib.this_field(granted)))
        cancels = [e for e in evs if e.kind == 'call' and e.q == ACQ + '::cancel']
        results = [e for e in evs if e.kind == 'call' and e.q.endswith('::set_result')]
        tok = [e for e in evs if e.kind in ('assign', 'incdec') and ex.mentions(e.lhs, ('field', ('this',), value))]
        if elapsed == [True] and gr is False:
            ntime += 1
            ok = len(cancels) == 1 and len(results) == 1 and results[0].args == (('bool', True),) and not tok
            ctx.check(ok, 'R3', 'finish: timeout elapsed, not granted', where(fin), 'cancel x%d, set_result %s, token writes %d' % (len(cancels), [ex.pretty(r.nf) for r in results], len(tok)), key='R3|finish|timeout path')
        else:
            ok = not cancels and not results
            ctx.check(ok, 'R3', 'finish: no timeout to report (elapsed=%s granted=%s)' % (elapsed, gr), where(fin), 'cancel x%d, set_result x%d' % (len(cancels), len(results)), key='R3|finish|spurious timeout')
        ans = [e for e in evs if e.kind == 'call' and e.q.endswith('::unregister_first_simcall')]
        ctx.check(len(ans) == 1, 'R3', 'finish unregisters its simcall once', where(fin), 'x%d' % len(ans), key='R3|finish|unregister')
    ctx.require(ntime >= 1, 'R3', 'timeout path of finish not recognised')
    cn = P.fn(ACQ + '::cancel')
    v = A.view(cn)
    for p in v.paths():
        if p.exit in ('noreturn', 'cut', 'throw'):
            continue
        evs = v.path_events(p)
        er = [e for e in evs if e.kind == 'call' and e.q.endswith('::erase') and e.obj is not None and ex.mentions(e.obj, ('field', lib.this_field(ACQ + '::semaphore_'), queue))]
        ctx.check(len(er) == 1, 'R3', 'cancel removes the acquisition from the semaphore queue', where(cn), 'erase x%d' % len(er), key='R3|cancel|erase')

    # ---- R6 a grant reaches its waiter ----------------------------------------------------------------------------------------------------------
    ctx.rule('R6', 'a grant reaches its waiter: release() finishes the granted acquisition iff its issuer is blocked on it; wait_for on an acquisition granted before the wait '
             'finishes at once and arms no timeout', 3)
    v = A.view(rel)
    nrel = 0
    for p in v.paths():
        if p.exit in ('noreturn', 'cut', 'throw'):
            continue
        evs = v.path_events(p)
        g = grants(evs)
        if not g:
            continue
        acqv = g[0].lhs[1]
        fins = [e for e in evs if e.kind == 'call' and e.q == ACQ + '::finish' and e.obj == acqv]
        waiting = None
        for e in evs:
            if e.kind == 'branch' and e.atom[0] == 'bin' and e.atom[1] == '==' and e.atom[2][0] == 'call' and e.atom[3][0] == 'call':
                f_, e_ = sorted([e.atom[2], e.atom[3]], key=lambda t: t[1].endswith('::end'))
                if f_[1] in ('std::find', 'boost::range::find') and f_[3][-1] == acqv and e_[1].endswith('::end'):
                    waiting = not e.pol
        nrel += 1
        if waiting is None:
            ctx.violation('R6', 'release: finish() iff the granted waiter is blocked on its acquisition', where(rel, g[0].line),
                          'the granted acquisition is %s with no test that its issuer is blocked on it: %s' % ('finished' if fins else 'never finished',
                                                                                                             'an actor that has not reached its wait yet has no simcall to answer' if fins else 'a blocked waiter is granted but never woken'),
                          key='R6|release|finish iff waiting')
        else:
            ctx.check((len(fins) == 1) == waiting, 'R6', 'release: finish() iff the granted waiter is blocked on its acquisition (waiting=%s)' % waiting, where(rel, g[0].line), 'finish x%d' % len(fins),
                      key='R6|release|finish iff waiting')
    ctx.require(nrel >= 1, 'R6', 'granting path of release not recognised')
    wfq = P.fn(ACQ + '::wait_for')
    vw = A.view(wfq)
    ng = 0
    allsee = True
    for p in vw.paths():
        if p.exit in ('noreturn', 'cut', 'throw'):
            continue
        evs = vw.path_events(p)
        gr = [e.pol for e in evs if e.kind == 'branch' and e.atom == lib.truthy(lib.this_field(granted))]
        fins = [e for e in evs if e.kind == 'call' and e.q == ACQ + '::finish']
        armed = [e for e in evs if e.kind == 'call' and e.q.endswith('::sleep')]
        if not gr:
            allsee = False
        elif gr[0]:
            ng += 1
            ctx.check(len(fins) == 1 and not armed, 'R6', 'wait_for on an acquisition already granted finishes at once and arms no timeout', where(wfq), 'finish x%d, armed x%d' % (len(fins), len(armed)),
                      key='R6|wait_for|granted before waiting')
    ctx.check(allsee and ng >= 1, 'R6', 'wait_for tests granted_ on every path', where(wfq), '' if allsee and ng else 'a token granted before the waiter blocked (asynchronous acquire, MC mode) is not seen: the waiter sleeps for ever',
              key='R6|wait_for|granted before waiting')

    # ---- R4 sentinel agreement -------------------------------------------------------------------------------------------------
    ctx.rule('R4', 'the guard separating "no timeout" (negative) from "timeout armed" is timeout >= 0 in every wait_for', 2)
    wf = P.fn(ACQ + '::wait_for')
    n = sync.arming_guards(ctx, 'R4', wf, lib.parm_i(wf, 1), lambda e: e.kind == 'call' and e.q.endswith('::sleep'), 'SemAcquisitionImpl::wait_for')
    awf = P.fn('simgrid::kernel::activity::ActivityImpl::wait_for')
    n2 = sync.arming_guards(ctx, 'R4', awf, lib.parm_i(awf, 1), lambda e: e.kind == 'call' and e.q == 'simgrid::kernel::timer::Timer::set', 'ActivityImpl::wait_for')
    ctx.require(n >= 1 and n2 >= 1, 'R4', 'arming sites not found (%d, %d)' % (n, n2))
    # what the S4U layer passes for "no timeout"
    a = P.fn('simgrid::s4u::Semaphore::acquire')
    v = A.view(a)
    for p in v.paths():
        for e in v.path_events(p):
            if e.kind == 'call' and e.q == 'simgrid::s4u::Semaphore::acquire_timeout':
                ctx.check(e.args[0][0] in ('int', 'float') and e.args[0][1] < 0, 'R4', 'Semaphore::acquire passes a negative timeout for "no timeout"', where(a, e.line), ex.pretty(e.args[0]), key='R4|acquire|sentinel')
    v = A.view(wf)
    for p in v.paths():
        if p.exit in ('noreturn', 'cut', 'throw'):
            continue
        evs = v.path_events(p)
        regs = [e for e in evs if e.kind == 'call' and e.q.endswith('::register_simcall')]
        ctx.check(len(regs) == 1, 'R4', 'wait_for registers the simcall exactly once', where(wf), 'x%d' % len(regs), key='R4|wait_for|registrations')

    # ---- R5 MC / non-MC agreement -------------------------------------------------------------------------------------------
    ctx.rule('R5', 'both branches of Semaphore::acquire_timeout perform acquire_async(issuer) then wait_for(issuer, timeout)', 2)
    at = P.fn('simgrid::s4u::Semaphore::acquire_timeout')
    seqs = sync.lambda_kernel_seqs(ctx, at, (S + '::acquire_async', ACQ + '::wait_for'))
    want = (('acquire_async', ('issuer',)), ('wait_for', ('issuer', 'timeout')))
    ctx.require(len(seqs) >= 2, 'R5', 'branches of acquire_timeout not recognised')
    for i, (c, s) in enumerate(seqs):
        ctx.check(s == want, 'R5', 'acquire_timeout branch %d' % i, where(at), 'kernel sequence %s' % (s,), key='R5|acquire_timeout|sequence')
    return EXPLANATION
