"""C25 — Shortest-path zones compute minimal routes (DESIGN.md 3, C25): relaxation shape, splice orientation of the three algorithms."""
from .. import cg, ex, lib
from ..core import where
from ..ir import AnalysisBroken, REPO
from . import C24

K = 'simgrid::kernel::'
RT = K + 'routing::'
UNITS = ['src/kernel/routing/FloydZone.cpp', 'src/kernel/routing/DijkstraZone.cpp', 'src/kernel/routing/FullZone.cpp', 'src/kernel/routing/RoutedZone.cpp',
         'src/kernel/resource/NetworkModel.cpp']
EXPLANATION = ('R1 loop-nest shape of FloydZone::do_seal: the relaxation cost[a][p] + cost[p][b] < cost[a][b] has its pivot bound to the outermost of '
               'three full-range loops, both legs are tested reachable before the addition, the update stores that sum in cost[a][b] and copies '
               'pred[p][b] into pred[a][b].  R2 splice orientation: Full returns the declared list forward; Floyd unwinds its predecessor stack '
               'from the source and appends forward; Dijkstra walks from the destination and prepends each declared edge route forward (helper '
               'included), without in-place reversal.  R3: Dijkstra relaxes with `cost(v,u) + cost[v] < cost[u]`, edge cost = number of links of '
               'the declared route, takes the minimum of a min-ordered queue, and Floyd uses the same cost.')


def idx2(t):
    """('idx', ('idx', table, i), j) -> (table, i, j)"""
    if t[0] == 'idx' and t[1][0] == 'idx':
        return t[1][1], t[1][2], t[2]
    if t[0] == 'call' and t[1].endswith('::operator[]') and t[2] is not None and t[2][0] == 'call' and t[2][1].endswith('::operator[]'):
        return t[2][2], t[2][3][0], t[3][0]
    return None


def strict_lt(ev):
    """(x, y) when the branch event establishes x < y, else None"""
    a = ev.atom
    if a[0] != 'bin':
        return None
    if a[1] == '<' and ev.pol:
        return strip(a[2]), strip(a[3])
    if a[1] == '<=' and not ev.pol:
        return strip(a[3]), strip(a[2])
    return None


def strip(t):
    while t[0] in ('cast', 'conv'):
        t = t[2]
    return t


def run(ctx):
    P = ctx.load(UNITS)
    A = ctx.analyzer

    # ---- R1 Floyd-Warshall ---------------------------------------------------------------------------------------------------------------------
    ctx.rule('R1', 'Floyd: pivot in the outermost loop; relax cost[a][p]+cost[p][b] < cost[a][b] (legs reachable); cost[a][b] := the sum; pred[a][b] := pred[p][b]', 4)
    ds = P.fn(RT + 'FloydZone::do_seal')
    v = A.view(ds)
    COST = lib.this_field(RT + 'FloydZone::cost_table_')
    PRED = lib.this_field(RT + 'FloydZone::predecessor_table_')
    # the assignment to cost_table_[a][b]
    upd = None
    for eid, el in enumerate(ds['elems']):
        for e in v.events_of(eid):
            if e.kind == 'assign' and e.op == '=':
                ix = idx2(e.lhs)
                if ix and ix[0] == COST and strip(e.rhs)[0] == 'bin' and strip(e.rhs)[1] == '+':
                    upd = (eid, e, ix)
            elif e.kind == 'call' and e.q.endswith('::operator=') and e.obj is not None:
                pass
    if upd is None:
        # vector<vector<>> indexing goes through operator[] calls: look for that form
        for eid, el in enumerate(ds['elems']):
            for e in v.events_of(eid):
                if e.kind == 'assign' and e.op == '=' and idx2(e.lhs) and idx2(e.lhs)[0] == COST and strip(e.rhs)[0] == 'bin':
                    upd = (eid, e, idx2(e.lhs))
    if upd is None:
        raise AnalysisBroken('FloydZone::do_seal: update of cost_table_ not found')
    eid, e, (tab, a, b) = upd
    s = strip(e.rhs)
    l1, l2 = idx2(strip(s[2])), idx2(strip(s[3]))
    okshape = False
    pivot = None
    if l1 and l2 and l1[0] == COST and l2[0] == COST:
        for x, y in ((l1, l2), (l2, l1)):
            if x[1] == a and y[2] == b and x[2] == y[1]:
                pivot = x[2]
                okshape = True
    ctx.check(okshape, 'R1', 'the update is cost[a][b] = cost[a][p] + cost[p][b]', where(ds, e.line), ex.pretty(e.rhs), key='R1|do_seal|update shape')
    # loop nest: the block of the update is inside three loops; induction variables and nesting order
    blk = [bk['id'] for bk in v.blocks if eid in bk.get('e', [])][0]
    loops = []
    for h in v.loop_heads():
        body = cg.natural_loop(v, h['id'])
        if blk in body:
            at = v.cond_atom(h['id'])
            var = None
            full = False
            if at and at[0][0] == 'bin' and at[0][1] == '<' and at[0][2][0] == 'var':
                var = at[0][2]
                full = 'table_size' in repr(at[0][3])
            loops.append((len(body), var, full))
    loops.sort(reverse=True)
    vars_ = [l[1] for l in loops]
    ctx.check(len(loops) == 3 and all(l[2] for l in loops) and pivot is not None and vars_[0] == pivot and set(vars_[1:]) == {a, b}, 'R1',
              'three full-range loops, the pivot variable is the outermost one', where(ds), 'outer to inner: %s; pivot %s' % ([ex.pretty(x) if x else '?' for x in vars_], ex.pretty(pivot) if pivot else '?'),
              key='R1|do_seal|pivot outermost')
    # guards dominating the update
    from .C13 import _dominating_facts
    node = None
    for n in ex.walk(ds['elems'][eid]['x']):
        node = n
        break
    dom = _dominating_facts(A, ds, ds['elems'][eid]['x'])
    reach = 0
    relax = False
    for at, t in dom:
        if at[0] == 'bin' and at[1] == '<':
            ix = idx2(strip(at[2]))
            if ix and ix[0] == COST and t and not any(s_[0] in ('var', 'field', 'call') for s_ in ex.subterms(at[3])):
                if ix in (l1, l2):
                    reach += 1
    # the relaxation disjunction (cost[a][b] == MAX || sum < cost[a][b]) sits in a short-circuit: accept when either atom dominates on each entering edge
    vv = A.view(ds)
    okrelax = False
    for p in vv.paths(max_visits=2):
        evs = vv.path_events(p)
        for i, ev in enumerate(evs):
            if ev.kind == 'assign' and ev is not None and ev.eid == eid:
                prior = [x for x in evs[:i] if x.kind == 'branch'][-4:]
                lt = [strict_lt(x) for x in prior if strict_lt(x) and strict_lt(x)[0][0] == 'bin' and strict_lt(x)[0][1] == '+']
                if lt:
                    sm, big = lt[-1]
                    okrelax = {idx2(strip(sm[2])), idx2(strip(sm[3]))} == {l1, l2} and idx2(big) == (COST, a, b)
                break
        if okrelax:
            break
    ctx.check(reach >= 2, 'R1', 'both legs are tested reachable (< ULONG_MAX) before being added', where(ds, e.line), '%d leg guard(s) dominate the update' % reach, key='R1|do_seal|overflow guard')
    ctx.check(okrelax, 'R1', 'the update is taken when cost[a][p] + cost[p][b] < cost[a][b]', where(ds, e.line), '', key='R1|do_seal|relaxation test')
    pu = None
    for eid2 in v.blocks[blk].get('e', []):
        for e2 in v.events_of(eid2):
            if e2.kind == 'assign' and idx2(e2.lhs) and idx2(e2.lhs)[0] == PRED:
                pu = e2
    okp = pu is not None and idx2(pu.lhs) == (PRED, a, b) and idx2(strip(pu.rhs)) == (PRED, pivot, b)
    ctx.check(okp, 'R1', 'pred[a][b] = pred[p][b] in the same block as the cost update', where(ds, pu.line if pu else None), ex.pretty(pu.rhs) if pu else 'not found', key='R1|do_seal|predecessor')

    # ---- R2 orientation of the three get_local_route ------------------------------------------------------------------------------------------------
    ctx.rule('R2', 'Full, Floyd and Dijkstra splice every declared edge route into the result in forward order on the side their walk direction requires', 5)
    sp = C24.splices(P, A, ('src/kernel/routing/', 'src/kernel/resource/NetworkModel.cpp'))
    helper_pos = {}
    for fn, line, tgt, pk, d, src, node in sp:
        if fn['q'] in (K + 'resource::add_link_latency', K + 'resource::insert_link_latency'):
            helper_pos[fn['q'].rsplit('::', 1)[-1]] = (pk, d)
            ctx.check(d == 'fwd' and pk == ('end' if fn['q'].endswith('add_link_latency') else 'begin'), 'R2', '%s inserts at %s, %s' % (fn['q'].replace(K, ''), pk, d), where(fn, line), '',
                      key='R2|%s|orientation' % fn['q'].replace(K, ''))
        elif fn['q'] in (RT + 'DijkstraZone::get_local_route', RT + 'FloydZone::get_local_route', RT + 'FullZone::get_local_route'):
            ctx.check(d == 'fwd', 'R2', '%s: %s splice' % (fn['q'].replace(K, ''), d), where(fn, line), '', key='R2|%s|splice' % fn['q'].replace(K, ''))
    for fn in P.fns.values():
        if fn['q'] in (RT + 'DijkstraZone::get_local_route', RT + 'FloydZone::get_local_route'):
            for el in fn.get('elems') or ():
                for n in ex.walk(el['x']):
                    if n.get('k') == 'Call' and (n.get('c') or {}).get('q') == 'std::reverse':
                        ctx.violation('R2', '%s reverses a link list in place' % fn['q'].replace(K, ''), where(fn, n.get('l')), 'with forward helpers the reversed leg is spliced backwards', key='R2|%s|in-place reverse' % fn['q'].replace(K, ''))
    want = {RT + 'FullZone::get_local_route': 'add_link_latency', RT + 'FloydZone::get_local_route': 'add_link_latency', RT + 'DijkstraZone::get_local_route': 'insert_link_latency'}
    for fq, helper in want.items():
        f = P.fn(fq)
        used = set()
        for el in f['elems']:
            for n in ex.walk(el['x']):
                if n.get('k') == 'Call' and (n.get('c') or {}).get('q', '').endswith(('add_link_latency', 'insert_link_latency')):
                    used.add(n['c']['q'].rsplit('::', 1)[-1])
        ctx.check(used == {helper}, 'R2', '%s uses %s (walk from the %s)' % (fq.replace(K, ''), helper, 'destination: prepend' if helper.startswith('insert') else 'source: append'), where(f), 'helpers used: %s' % sorted(used),
                  key='R2|%s|helper' % fq.replace(K, ''))
    # Floyd: the stack is filled from dst backwards and emptied from its back (= source side first)
    fl = P.fn(RT + 'FloydZone::get_local_route')
    v = A.view(fl)
    okst = False
    for p in v.paths(max_visits=2):
        evs = v.path_events(p)
        pushes = [x for x in evs if x.kind == 'call' and x.q.endswith('::push_back') and x.obj is not None and x.obj[0] == 'var' and x.obj[2] == 'route_stack']
        backs = [x for x in evs if x.kind == 'assign' and x.rhs[0] == 'call' and x.rhs[1].endswith('::back') and x.rhs[2][0] == 'var' and x.rhs[2][2] == 'route_stack']
        pops = [x for x in evs if x.kind == 'call' and x.q.endswith('::pop_back') and x.obj is not None and x.obj[0] == 'var' and x.obj[2] == 'route_stack']
        if pushes and backs and pops:
            okst = True
    ctx.check(okst, 'R2', 'FloydZone::get_local_route: edges pushed from the destination backwards, consumed from the back of the stack (source first)', where(fl), '', key='R2|FloydZone::get_local_route|stack')
    # Dijkstra: the walk goes from dst to src through pred_arr
    dj = P.fn(RT + 'DijkstraZone::get_local_route')
    v = A.view(dj)
    okw = False
    for h in v.loop_heads():
        at = v.cond_atom(h['id'])
        if at and at[0][0] == 'bin' and at[0][1] == '==' and 'src_node_id' in repr(at[0]) and h['t'].get('k') == 'ForStmt':
            okw = any(x.kind == 'assign' and x.lhs[0] == 'var' and x.lhs[2] == 'v' and 'dst_node_id' in repr(x.rhs) for eid_ in range(len(dj['elems'])) for x in v.events_of(eid_))
    ctx.check(okw, 'R2', 'DijkstraZone::get_local_route walks v = dst; v != src; v = pred[v]', where(dj), '', key='R2|DijkstraZone::get_local_route|walk')

    # ---- R3 Dijkstra relaxation ------------------------------------------------------------------------------------------------------------------------
    ctx.rule('R3', 'Dijkstra relaxes only through the minimum of a min-ordered queue, with edge cost = number of links of the declared route (same cost as Floyd); cost, predecessor and queue entry are written together; the table is cached under its source', 5)
    okq = False
    for el in dj['elems']:
        x = el['x']
        if x.get('k') == 'Decl':
            for d in x.get('decls', ()):
                t = dj.tstr(d.get('t', -1))
                if t.startswith('std::priority_queue<') and 'std::greater<' in t:
                    okq = True
    ctx.check(okq, 'R3', 'the queue is a std::priority_queue ordered by std::greater (minimum on top)', where(dj), '', key='R3|DijkstraZone|min queue')
    okr = False
    okc = False
    for p in v.paths(max_visits=2):
        evs = v.path_events(p)
        for i, x in enumerate(evs):
            sl = strict_lt(x) if x.kind == 'branch' else None
            if sl and sl[0][0] == 'bin' and sl[0][1] == '+' and 'cost_arr' in repr(x.atom):
                sm = sl[0]
                nxt = [y for y in evs[i + 1:i + 8] if y.kind == 'assign']
                tgt = sl[1]
                stores = [y for y in nxt if strip(y.lhs) == tgt]
                okr = bool(stores) and strip(stores[0].rhs) == sm
                cv = [t_ for t_ in (strip(sm[2]), strip(sm[3])) if t_[0] == 'var']
                if cv:
                    defs = [y for y in evs[:i] if y.kind == 'assign' and y.lhs == cv[0]]
                    okc = bool(defs) and defs[-1].rhs[0] == 'call' and defs[-1].rhs[1].endswith('::size') and 'link_list_' in repr(defs[-1].rhs)
        if okr:
            break
    ctx.check(okr, 'R3', 'relaxation: if (cost(v,u) + cost[v] < cost[u]) cost[u] = that sum', where(dj), '', key='R3|DijkstraZone|relaxation')
    # co-update: a relaxed node gets its new cost, its predecessor (the node just popped) and a new queue entry carrying the new cost, on the same path
    co = None
    for p in v.paths(max_visits=2):
        evs = v.path_events(p)
        for i, x in enumerate(evs):
            sl = strict_lt(x) if x.kind == 'branch' else None
            if not (sl and sl[0][0] == 'bin' and sl[0][1] == '+' and 'cost_arr' in repr(x.atom)):
                continue
            tgt = sl[1]
            uidx = tgt[2] if tgt[0] == 'idx' else (tgt[3][0] if tgt[0] == 'call' and tgt[3] else None)
            nxt = evs[i + 1:i + 14]
            preds = [y for y in nxt if y.kind == 'assign' and 'pred_arr' in repr(y.lhs) and uidx is not None and ex.mentions(y.lhs, uidx)]
            pushes = [y for y in nxt if y.kind == 'call' and y.q.rsplit('::', 1)[-1] in ('emplace', 'push') and 'pqueue' in repr(y.obj) and uidx is not None and any(ex.mentions(a, uidx) for a in y.args)]
            good = len(preds) == 1 and len(pushes) == 1
            co = good if co is None else (co and good)
    ctx.check(bool(co), 'R3', 'relaxation co-update: cost[u], pred[u] and a queue entry for u are written together', where(dj),
              'a relaxed node without predecessor keeps a stale route; without a new queue entry it is settled at its old (larger) priority' if not co else '', key='R3|DijkstraZone|relaxation co-update')
    # the predecessor table is cached under the node it was computed from
    keyok = None
    for eid_ in range(len(dj['elems'])):
        for x in v.events_of(eid_):
            if x.kind == 'call' and x.q.rsplit('::', 1)[-1] in ('try_emplace', 'emplace', 'operator[]', 'find') and x.obj is not None and 'route_cache_' in repr(x.obj) and x.args:
                k = strip(x.args[0])
                if k[0] == 'var':
                    ds = [y for e2 in range(len(dj['elems'])) for y in v.events_of(e2) if y.kind == 'assign' and y.lhs == k]
                    k = strip(ds[0].rhs) if len(ds) == 1 else k
                good = 'src' in repr(k) and 'dst' not in repr(k)
                keyok = good if keyok is None else (keyok and good)
    ctx.check(bool(keyok), 'R3', 'the predecessor table is cached under the source it was computed from', where(dj), '', key='R3|DijkstraZone|cache key')
    ctx.check(okc, 'R3', 'edge cost is the number of links of the declared route', where(dj), '', key='R3|DijkstraZone|edge cost')
    fa = P.fn(RT + 'FloydZone::add_route')
    v = A.view(fa)
    okfc = any(x.kind == 'assign' and idx2(x.lhs) and idx2(x.lhs)[0] == COST and strip(x.rhs)[0] == 'call' and strip(x.rhs)[1].endswith('::size') and 'link_list_' in repr(x.rhs)
               for eid_ in range(len(fa['elems'])) for x in v.events_of(eid_))
    ctx.check(okfc, 'R3', 'Floyd uses the same edge cost (size of the declared link list)', where(fa), '', key='R3|FloydZone|edge cost')
    ctx.assume('equality of the link counts returned by the three algorithms follows from minimality only; ties between equal-cost paths are not decided')
    # ---- R4 the predecessor table kept in the per-source cache is complete -----------------------------------------------------------------------
    ctx.rule('R4', 'Dijkstra: the relaxation loop runs until the queue is empty (no exit that depends on the destination): the predecessor table is cached per source and reused for other destinations', 1)
    dj = [f for f in P.fns.values() if f['q'].endswith('DijkstraZone::get_local_route') and f.get('blocks')]
    if len(dj) != 1:
        ctx.unrecognised('R4', 'DijkstraZone::get_local_route: %d definitions' % len(dj))
    else:
        f = dj[0]
        v = A.view(f)
        from .. import cg as _cg
        heads = [h for h in v.loop_heads() if v.cond_atom(h['id']) is not None and v.cond_atom(h['id'])[0][0] == 'truthy' and v.cond_atom(h['id'])[0][1][0] == 'call' and
                 v.cond_atom(h['id'])[0][1][1].endswith('::empty') and 'queue' in repr(v.cond_atom(h['id'])[0][1][2]).lower()]
        cached = any(e.kind == 'call' and e.q.endswith('::try_emplace') and 'route_cache_' in repr(e.obj) for eid in range(len(f['elems'])) for e in v.events_of(eid))
        if len(heads) != 1 or not cached:
            ctx.unrecognised('R4', 'Dijkstra main loop (while the queue is not empty) or the per-source cache not recognised (%d loop(s), cache=%s)' % (len(heads), cached))
        else:
            h = heads[0]
            body = _cg.natural_loop(v, h['id']) | {h['id']}
            reach = _cg.reachable_blocks(v)
            early = []
            for b in body:
                if b == h['id'] or b not in reach:
                    continue
                for s_ in v.succs(b):
                    if s_ is not None and s_ not in body and not v.dead(s_):
                        t = v.blocks[b].get('t') or {}
                        early.append(t.get('l') or v.blocks[s_].get('t', {}).get('l') or 0)
            ctx.check(not early, 'R4', 'DijkstraZone::get_local_route: the relaxation loop has no early exit', where(f, early[0] if early else None),
                      'the loop is left at line %s before the queue is empty: the nodes still queued keep a tentative (or no) predecessor, and that table is what later queries from the same source read' % early[0] if early else '',
                      key='R4|get_local_route|complete predecessor table')
    return EXPLANATION
