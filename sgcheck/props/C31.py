"""C31 — Predefined reduction operators compute MPI results (DESIGN.md 3, C31)."""
import itertools

from .. import ex
from ..core import where
from ..ir import AnalysisBroken

UNITS = ['src/smpi/mpi/smpi_op.cpp', 'src/smpi/mpi/smpi_datatype.cpp']
EXPLANATION = ('Every predefined MPI_Op global is bound to its kernel function and allowed-type mask; every branch (MPI datatype, C type) of '
               'every kernel is decoded from the CFG and its element statement is evaluated on a finite abstract domain: the three orderings '
               'of (a,b) for MAX/MIN, the nine orderings of (value,index) for MAXLOC/MINLOC (ties -> lowest index), the four truth pairs for '
               'LAND/LOR/LXOR, the compound-assignment operator for SUM/PROD/BAND/BOR/BXOR (complex product must be a complex-typed *=), '
               'memcpy of length*size for REPLACE, an empty body for NO_OP.  The C type of each branch has the size registered for that '
               'datatype; every (op, datatype) pair that CHECK_OP accepts (flags & allowed != 0) has a branch; the chain ends in a no-return '
               'rejection.')

# what MPI defines for each predefined operator (the reference the kernels are compared with)
KIND = {'MPI_MAX': 'max', 'MPI_MIN': 'min', 'MPI_SUM': '+=', 'MPI_PROD': '*=', 'MPI_LAND': 'land', 'MPI_LOR': 'lor', 'MPI_LXOR': 'lxor',
        'MPI_BAND': '&=', 'MPI_BOR': '|=', 'MPI_BXOR': '^=', 'MPI_MAXLOC': 'maxloc', 'MPI_MINLOC': 'minloc', 'MPI_REPLACE': 'replace',
        'MPI_NO_OP': 'noop'}
DT_FLAG_COMPLEX_NAME = 'DT_FLAG_COMPLEX'


def strip(t):
    while t[0] in ('cast', 'conv'):
        t = t[2]
    return t


def global_names(t):
    return [s[2] for s in ex.subterms(t) if s[0] == 'var' and s[1] == 'global']


class Branch:
    def __init__(self, dtype, ctype, csize, stmts, line, A, B):
        self.dtype, self.ctype, self.csize, self.stmts, self.line, self.A, self.B = dtype, ctype, csize, stmts, line, A, B


def decode_kernel(ctx, fn):
    """if-chain of a kernel: list of Branch, and whether the final else is a no-return rejection"""
    v = ctx.analyzer.view(fn)
    branches = []
    chain_blocks = []
    for b in v.blocks:
        t = b.get('t')
        if not t or t.get('k') != 'IfStmt':
            continue
        ap = v.cond_atom(b['id'])
        if ap is None:
            continue
        atom, p0 = ap
        if atom[0] != 'bin' or atom[1] != '==':
            continue
        gl = [g for g in global_names(atom) if g.startswith('smpi_MPI_')]
        if len(gl) != 1:
            continue
        ss = b['s']
        tsucc = ss[0] if p0 else ss[1]
        fsucc = ss[1] if p0 else ss[0]
        chain_blocks.append((b['id'], fsucc))
        # blocks of the branch body
        seen = set()
        work = [tsucc]
        while work:
            x = work.pop()
            if x is None or x in seen or x == fn['exit']:
                continue
            seen.add(x)
            work.extend(v.succs(x))
        evs = []
        for x in sorted(seen, reverse=True):
            for eid in v.blocks[x].get('e', []):
                evs.extend(v.events_of(eid))
        xv = yv = iv = None
        ctype = None
        csize = -1
        for e in evs:
            if e.kind == 'assign' and e.decl and e.rhs != ('none',):
                src = strip(e.rhs)
                if src == ('var', 'parm', fn['params'][0]['n'], 0) or src == ('var', 'parm', fn['params'][1]['n'], 0):
                    d = [d_ for d_ in e.node.get('decls', ()) if d_.get('d', {}).get('n') == e.lhs[2]]
                    pt = fn.pointee(d[0]['t']) if d else -1
                    if src[2] == fn['params'][0]['n']:
                        xv = e.lhs
                        ctype, csize = fn.tstr(pt), fn.sizeof(pt)
                    else:
                        yv = e.lhs
                        if fn.tstr(pt) != ctype:
                            ctx.unrecognised('R1', '%s: x and y of branch %s have different element types' % (fn['q'], gl[0]))
        incs = [e for e in evs if e.kind == 'incdec']
        if xv is None or yv is None or len(set(e.lhs for e in incs)) != 1 or incs[0].op != '++':
            ctx.unrecognised('R1', '%s: loop of branch %s not recognised' % (fn['q'], gl[0]))
            continue
        iv = incs[0].lhs
        # loop shape: i = 0; i < *length; i++
        inits = [e.rhs for e in evs if e.kind == 'assign' and e.lhs == iv and e.rhs[0] == 'int']
        bound = None
        for x in seen:
            t2 = v.blocks[x].get('t')
            if t2 and t2.get('k') == 'ForStmt':
                a2 = v.cond_atom(x)
                if a2 and a2[0][0] == 'bin' and a2[0][1] in ('<', '<=') and a2[0][2] == iv and \
                        strip(a2[0][3]) == ('un', '*', ('var', 'parm', fn['params'][2]['n'], 0)):
                    bound = a2[0][1] if a2[1] else None
        if len(inits) != 1 or bound is None:
            ctx.unrecognised('R1', '%s: loop bounds of branch %s not recognised' % (fn['q'], gl[0]))
            continue
        ctx.check(inits[0] == ('int', 0) and bound == '<', 'R1', '%s: the %s branch visits exactly the elements 0 .. *length-1' % (fn['q'], gl[0][5:]),
                  where(fn, t.get('l')), 'for (i = %s; i %s *length; i++)' % (inits[0][1], bound), key='R1|%s|loop bounds' % fn['q'])
        A = ('idx', xv, iv)
        B = ('idx', yv, iv)
        stmts = []
        for e in evs:
            if e.kind == 'assign' and e.decl:
                continue
            if e.kind == 'assign' and e.lhs == iv:
                continue
            if e.kind == 'incdec' and e.lhs == iv:
                continue
            if e.kind == 'assign':
                stmts.append((e.op, e.lhs, e.rhs, e.line))
            elif e.kind == 'call' and e.q.endswith('::operator=') and e.obj is not None and len(e.args) == 1:
                stmts.append(('=', e.obj, e.args[0], e.line))
            elif e.kind == 'call' and e.q.rsplit('::', 1)[-1] in ('operator+=', 'operator*=') and e.obj is not None and len(e.args) == 1:
                stmts.append((e.q.rsplit('operator', 1)[-1], e.obj, e.args[0], e.line))
            elif e.kind in ('call', 'new', 'delete', 'return', 'throw', 'incdec'):
                stmts.append(('?', None, None, e.line))
        br = Branch(gl[0][len('smpi_'):], ctype, csize, stmts, t.get('l', fn['line']), A, B)
        br.test_block = b['id']
        branches.append(br)
    # the false edge of the last test must be a dead end (no-return rejection)
    tested = set(b for b, _ in chain_blocks)
    last_false = [f for b, f in chain_blocks if f not in tested]
    rejects = bool(chain_blocks) and len(last_false) == 1 and v.dead(last_false[0])
    # chain order: the first test is the one no other test falls through to; a datatype tested twice is served by its first branch
    nxt = dict(chain_blocks)
    firsts = [b for b in tested if b not in set(nxt.values())]
    order = []
    if len(firsts) == 1:
        x = firsts[0]
        while x in tested and x not in order:
            order.append(x)
            x = nxt[x]
    if len(order) != len(tested):
        ctx.unrecognised('R1', '%s: the datatype tests do not form a single else-if chain' % fn['q'])
        return [], rejects
    pos = {b: i for i, b in enumerate(order)}
    branches.sort(key=lambda br: pos[br.test_block])
    seen_dt = set()
    live = []
    for br in branches:
        if br.dtype in seen_dt:
            ctx.notes.append('%s: second branch for %s is dead code (first match wins)' % (fn['q'], br.dtype))
            continue
        seen_dt.add(br.dtype)
        live.append(br)
    return live, rejects


def sel_eval(t, A, B, cmpf):
    """which operand a selection expression yields ('A' or 'B'), under the ordering oracle cmpf(l, op, r) -> bool"""
    t0 = t
    while t0[0] in ('cast', 'conv'):
        t0 = t0[2]
    if t0 == A:
        return 'A'
    if t0 == B:
        return 'B'
    if t0[0] == 'cond':
        c = bool_of(t0[1], cmpf)
        return sel_eval(t0[2] if c else t0[3], A, B, cmpf)
    if t0[0] == 'call' and t0[1] in ('std::max', 'std::min') and len(t0[3]) == 2:
        l, r = strip(t0[3][0]), strip(t0[3][1])
        if t0[1] == 'std::max':
            pick_r = cmpf(l, '<', r)
        else:
            pick_r = cmpf(r, '<', l)
        return sel_eval(r if pick_r else l, A, B, cmpf)
    raise AnalysisBroken('selection expression not recognised: ' + ex.pretty(t))


def bool_of(c, cmpf):
    if c[0] == 'not':
        return not bool_of(c[1], cmpf)
    if c[0] in ('cast', 'conv'):
        return bool_of(c[2], cmpf)
    if c[0] == 'bin' and c[1] in ('&&', '||'):
        l = bool_of(c[2], cmpf)
        r = bool_of(c[3], cmpf)
        return (l and r) if c[1] == '&&' else (l or r)
    if c[0] == 'bin' and c[1] in ex.CMP:
        return cmpf(strip(c[2]), c[1], strip(c[3]))
    raise AnalysisBroken('condition not recognised: ' + ex.pretty(c))


def mk_cmp(order):
    """order: {(l, r): -1|0|1}; returns cmpf"""
    def cmpf(l, op, r):
        if (l, r) in order:
            o = order[(l, r)]
        elif (r, l) in order:
            o = -order[(r, l)]
        else:
            raise AnalysisBroken('comparison of unexpected operands: %s %s %s' % (ex.pretty(l), op, ex.pretty(r)))
        return {'<': o < 0, '<=': o <= 0, '>': o > 0, '>=': o >= 0, '==': o == 0, '!=': o != 0}[op]
    return cmpf


def truth_eval(t, A, B, va, vb):
    """value (as a boolean) of a logical expression over the truthiness of the operands"""
    if t[0] in ('cast', 'conv'):
        return truth_eval(t[2], A, B, va, vb)
    if t == A:
        return va
    if t == B:
        return vb
    if t[0] == 'not':
        return not truth_eval(t[1], A, B, va, vb)
    if t[0] == 'truthy':
        return truth_eval(t[1], A, B, va, vb)
    if t[0] == 'bin' and t[1] in ('&&', '||', '!=', '==', '^'):
        l = truth_eval(t[2], A, B, va, vb)
        r = truth_eval(t[3], A, B, va, vb)
        return {'&&': l and r, '||': l or r, '!=': l != r, '==': l == r, '^': l != r}[t[1]]
    if t[0] == 'bin' and t[1] in ('!=', '==') and t[3] in (('int', 0), ('bool', False)):
        x = truth_eval(t[2], A, B, va, vb)
        return x if t[1] == '!=' else not x
    raise AnalysisBroken('logical expression not recognised: ' + ex.pretty(t))


def field_role(q):
    n = q.rsplit('::', 1)[-1]
    return n if n in ('value', 'index') else None


def run(ctx):
    P = ctx.load(UNITS)
    opf = P.fns_named
    # ---- tables from the globals -----------------------------------------------------------------------------------------------------
    dts = {}
    ops = {}
    for q, g in P.globals.items():
        init = g.get('init')
        if not isinstance(init, dict) or init.get('k') != 'New0':
            continue
        cq = (init.get('c') or {}).get('q')
        a = init.get('a') or []
        if cq == 'simgrid::smpi::Datatype::Datatype' and q.startswith('smpi_MPI_') and len(a) == 6:
            size = a[2].get('cv', a[2].get('v'))
            flags = a[5].get('cv', a[5].get('v'))
            if size is None or flags is None:
                ctx.unrecognised('R3', 'datatype %s: size/flags are not compile-time constants' % q)
                continue
            fl_names = [s[2] for s in ex.subterms(ex.Norm(g)(a[5])) if s[0] == 'var']
            dts[q[len('smpi_'):]] = {'size': size, 'flags': flags, 'line': g['line'], 'file': g['file'],
                                     'complex': False, 'g': g}
            # DT_FLAG_COMPLEX is a constexpr folded by clang: recover the names from the Ref nodes
            names = [n['d']['n'] for n in ex.walk(a[5]) if n.get('k') == 'Ref']
            dts[q[len('smpi_'):]]['complex'] = DT_FLAG_COMPLEX_NAME in names
        elif cq == 'simgrid::smpi::Op::Op' and q.startswith('smpi_MPI_') and len(a) >= 5:
            fref = [n for n in ex.walk(a[0]) if n.get('k') == 'Ref' and n['d'].get('dk') == 'fn']
            types = a[3].get('cv', a[3].get('v'))
            name = [n['v'] for n in ex.walk(a[4]) if n.get('k') == 'Str']
            if len(fref) != 1 or types is None or not name:
                ctx.unrecognised('R2', 'operator %s: constructor arguments not recognised' % q)
                continue
            ops[name[0]] = {'fn': fref[0]['d']['n'], 'types': types, 'line': g['line'], 'file': g['file'], 'global': q}
    if len(dts) < 50 or len(ops) < 14:
        raise AnalysisBroken('predefined tables not found: %d datatypes, %d operators' % (len(dts), len(ops)))

    ctx.rule('R2', 'each predefined operator global MPI_<OP> is bound to the kernel of its own family', 14)
    ctx.rule('R1', 'per (op, datatype) branch: the element statement computes the MPI-defined result on the abstract domain', 150)
    ctx.rule('R3', 'the C type a branch reinterprets the buffers as has the size registered for that MPI datatype', 150)
    ctx.rule('R4', 'every (op, datatype) accepted by CHECK_OP (datatype flags & allowed types != 0) has a branch in the kernel', 150)
    ctx.rule('R5', 'every typed kernel ends its if-chain in a no-return rejection; untyped kernels (REPLACE, NO_OP) have no chain', 14)

    kernels = {}
    for name, o in sorted(ops.items()):
        if name not in KIND:
            ctx.unrecognised('R2', 'unknown predefined operator %s' % name)
            continue
        fn = P.fns.get(o['fn'])
        if fn is None:
            ctx.unrecognised('R2', 'kernel %s of %s not found' % (o['fn'], name))
            continue
        kind = KIND[name]
        wh = '%s:%s' % (o['file'].replace('/repo/', ''), o['line'])
        if o['global'] != 'smpi_' + name:
            ctx.violation('R2', '%s: registered under the global %s' % (name, o['global']), wh, 'name string and global differ', key='R2|%s|global' % name)
        if kind in ('replace', 'noop'):
            v = ctx.analyzer.view(fn)
            evs = []
            for p in v.paths():
                evs = v.path_events(p)
            calls = [e for e in evs if e.kind == 'call']
            if kind == 'noop':
                ok = not [e for e in evs if e.kind in ('call', 'assign', 'incdec')]
                ctx.check(ok, 'R1', 'MPI_NO_OP: empty body', where(fn), '', key='R1|MPI_NO_OP|body')
            else:
                a_, b_, l_, d_ = [('var', 'parm', p['n'], 0) for p in fn['params']]
                mc = [e for e in calls if e.q in ('memcpy', 'std::memcpy', 'memmove')]
                ok = len(mc) == 1 and strip(mc[0].args[0]) == b_ and strip(mc[0].args[1]) == a_
                if ok:
                    n = strip(mc[0].args[2])
                    ok = n[0] == 'bin' and n[1] == '*' and {strip(n[2])[0], strip(n[3])[0]} == {'un', 'call'} and \
                        any(strip(z) == ('un', '*', l_) for z in (n[2], n[3])) and \
                        any(strip(z)[0] == 'call' and strip(z)[1].endswith('Datatype::size') for z in (n[2], n[3]))
                ctx.check(ok, 'R1', 'MPI_REPLACE: memcpy(b, a, *length * datatype size)', where(fn), '', key='R1|MPI_REPLACE|body')
            ctx.check(o['types'] == 0, 'R2', '%s accepts every datatype (allowed types 0) and its kernel is type-agnostic' % name, wh, '', key='R2|%s|types' % name)
            ctx.check(not [b for b in v.blocks if b.get('t') and b['t'].get('k') == 'IfStmt'], 'R5', '%s: untyped kernel' % name, where(fn), '', key='R5|%s|chain' % name)
            continue
        branches, rejects = decode_kernel(ctx, fn)
        ctx.count('paths', len(branches))
        kernels[name] = branches
        ctx.check(rejects, 'R5', '%s: the final else of %s aborts' % (name, fn['q']), where(fn), '', key='R5|%s|rejection' % name)
        if not branches:
            ctx.unrecognised('R1', '%s: no branch decoded in %s' % (name, fn['q']))
            continue
        # R2: the family of the kernel = what its first scalar branch does
        fam_ok = 0
        for br in branches:
            d = dts.get(br.dtype)
            inst = '%s on %s (%s)' % (name, br.dtype, br.ctype)
            wh_b = where(fn, br.line)
            if d is None:
                ctx.unrecognised('R3', '%s: branch for unknown datatype %s' % (name, br.dtype))
                continue
            ctx.check(br.csize == d['size'], 'R3', inst, wh_b, 'sizeof(%s) = %s, %s registered with size %s' % (br.ctype, br.csize, br.dtype, d['size']),
                      key='R3|%s|%s' % (name, br.dtype))
            accepted = (o['types'] & d['flags']) != 0
            if not accepted:
                ctx.notes.append('%s: branch for %s exists but CHECK_OP never lets it through (not decided)' % (name, br.dtype))
                continue
            key = 'R1|%s|%s' % (name, br.dtype)
            try:
                ok, detail = decide_branch(kind, br, d)
            except AnalysisBroken as e_:
                ctx.unrecognised('R1', '%s: %s' % (inst, e_))
                continue
            fam_ok += 1 if ok else 0
            ctx.check(ok, 'R1', inst, wh_b, detail, key=key)
        ctx.check(fam_ok > 0, 'R2', '%s -> %s implements the %s family' % (name, fn['q'], kind), wh, '%d accepted branch(es) compute it' % fam_ok, key='R2|%s|family' % name)
        # R4 coverage
        have = set(br.dtype for br in branches)
        for dn, d in sorted(dts.items()):
            if d['size'] == 0:
                continue
            if (o['types'] & d['flags']) != 0:
                ctx.check(dn in have, 'R4', '%s accepts %s' % (name, dn), wh, 'flags 0x%x & allowed 0x%x != 0 and %s' %
                          (d['flags'], o['types'], 'a branch exists' if dn in have else
                           'the kernel has no branch for it: the call is neither computed nor rejected with MPI_ERR_OP, it aborts in the final else'),
                          key='R4|%s|%s' % (name, dn))
    return EXPLANATION


def decide_branch(kind, br, d):
    A, B = br.A, br.B
    st = br.stmts
    if any(s[0] == '?' for s in st) or not st:
        raise AnalysisBroken('element statement not recognised (%d statements)' % len(st))
    if kind in ('max', 'min', 'maxloc', 'minloc'):
        if len(st) != 1 or st[0][0] != '=' or st[0][1] != B:
            raise AnalysisBroken('expected a single assignment to y[i]')
        E = st[0][2]
        bad = []
        if kind in ('max', 'min'):
            for o in (-1, 0, 1):
                got = sel_eval(E, A, B, mk_cmp({(A, B): o}))
                want = None if o == 0 else (('B' if o < 0 else 'A') if kind == 'max' else ('A' if o < 0 else 'B'))
                if want is not None and got != want:
                    bad.append('a%sb selects %s, MPI selects %s' % ('<=>'[o + 1], got.lower(), want.lower()))
            return not bad, '; '.join(bad) or 'a<b, a=b, a>b all select the MPI result'
        # pairs
        fields = set()
        for s in ex.subterms(E):
            if s[0] == 'field' and s[1] in (A, B):
                fields.add(s[2])
        roles = {field_role(f): f for f in fields}
        if set(roles) != {'value', 'index'}:
            raise AnalysisBroken('pair fields not recognised: %s' % sorted(fields))
        Av, Bv = ('field', A, roles['value']), ('field', B, roles['value'])
        Ai, Bi = ('field', A, roles['index']), ('field', B, roles['index'])
        for ov, oi in itertools.product((-1, 0, 1), repeat=2):
            got = sel_eval(E, A, B, mk_cmp({(Av, Bv): ov, (Ai, Bi): oi}))
            if ov != 0:
                want = (('B' if ov < 0 else 'A') if kind == 'maxloc' else ('A' if ov < 0 else 'B'))
            elif oi != 0:
                want = 'A' if oi < 0 else 'B'
            else:
                want = None
            if want is not None and got != want:
                bad.append('value a%sb, index a%sb selects %s, MPI selects %s' % ('<=>'[ov + 1], '<=>'[oi + 1], got.lower(), want.lower()))
        return not bad, '; '.join(bad) or 'all 9 orderings of (value, index) select the MPI result (ties -> lowest index)'
    if kind in ('land', 'lor', 'lxor'):
        if len(st) != 1 or st[0][0] != '=' or st[0][1] != B:
            raise AnalysisBroken('expected a single assignment to y[i]')
        bad = []
        for va, vb in itertools.product((False, True), repeat=2):
            got = truth_eval(st[0][2], A, B, va, vb)
            want = {'land': va and vb, 'lor': va or vb, 'lxor': va != vb}[kind]
            if got != want:
                bad.append('a=%d b=%d gives %d, MPI gives %d' % (va, vb, got, want))
        return not bad, '; '.join(bad) or 'all 4 truth pairs give the MPI result'
    # compound assignment families
    if len(st) == 1 and st[0][1] == B:
        ok = st[0][0] == kind and strip(st[0][2]) == A
        if ok and kind == '*=' and d['complex'] and not ('_Complex' in br.ctype or 'complex<' in br.ctype):
            return False, 'complex datatype multiplied through the non-complex C type %s' % br.ctype
        return ok, 'y[i] %s %s' % (st[0][0], ex.pretty(st[0][2]))
    # component-wise on a pair struct
    comps = {}
    for op, lhs, rhs, _ in st:
        if lhs[0] == 'field' and lhs[1] == B and strip(rhs) == ('field', A, lhs[2]):
            comps[lhs[2]] = op
        else:
            raise AnalysisBroken('statement %s %s %s not recognised' % (ex.pretty(lhs), op, ex.pretty(rhs)))
    if len(comps) != 2 or set(comps.values()) != {kind}:
        return False, 'component-wise statements %s' % {k.rsplit('::', 1)[-1]: v for k, v in comps.items()}
    if kind == '*=' and d['complex']:
        return False, ('the Fortran complex type %s is multiplied component by component (re*re, im*im): MPI_PROD on a complex type is the complex '
                       'product (re*re - im*im, re*im + im*re)' % br.dtype)
    return True, 'both components %s' % kind
