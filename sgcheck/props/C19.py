"""C19 — Update algorithms give the same timings (DESIGN.md 3, C19): stale heap entries are dropped, both variants pick the same next date."""
from .. import ex, lib
from ..core import where
from ..ir import AnalysisBroken
from .C16 import check_min_accumulator

UNITS = ['src/kernel/resource/Action.cpp', 'src/kernel/resource/Model.cpp', 'src/kernel/resource/CpuImpl.cpp', 'src/kernel/resource/models/cpu_cas01.cpp',
         'src/kernel/resource/models/network_cm02.cpp', 'src/kernel/resource/models/cpu_ti.cpp', 'src/kernel/resource/NetworkModel.cpp',
         'src/kernel/resource/DiskImpl.cpp', 'src/kernel/resource/models/disk_s19.cpp']
K = 'simgrid::kernel::resource::'
L = 'simgrid::kernel::lmm::System::'
EXPLANATION = ('R1: every Action mutator that changes what the completion date depends on (set_bound, set_max_duration, set_sharing_penalty, cancel, '
               'suspend, resume and their overrides) removes the action from the lazy heap on every path on which the model is lazy, so that no '
               'stale date survives (suspend also brings the remaining work up to date).  R2: resource-side changes (speed, bandwidth, latency) '
               'reach the solver through System::update_constraint_bound / update_variable_bound / update_variable_penalty for the constraint and '
               'for every action on it.  R3: next_occurring_event_lazy and _full both take, per action, the minimum of the completion by work '
               '(remains / rate) and the completion by max_duration (extremum coherence), the lazy one storing it in the heap with the matching type.')

# accepted extra guards on the heap removal (one reason each)
EXTRA_GUARD_OK = {
    'Action::set_bound': 'skips the removal when the action was already updated at the current date (its heap entry is recomputed by the pending solve)',
}


def run(ctx):
    P = ctx.load(UNITS)
    A = ctx.analyzer
    ctx.rule('R1', 'Action mutators drop the stale heap entry whenever the model updates lazily', 6)
    names = ('set_bound', 'set_max_duration', 'set_sharing_penalty', 'cancel', 'suspend', 'resume')
    ndone = 0
    for nm in names:
        for f in P.overriders(K + 'Action', nm):
            if not f.get('blocks'):
                continue
            if f['file'].endswith('cpu_ti.cpp'):
                if ('TI', nm) not in [(x, y) for x, y in getattr(ctx, '_ti_noted', [])]:
                    ctx.notes.append('not decided: %s (the trace-integration CPU model keeps its own heap, independent of the lazy flag)' % f['q'].replace(K, ''))
                continue
            v = A.view(f)
            short = f['q'].replace(K, '')
            delegates = False
            rows = []
            for p in v.paths():
                if p.exit in ('noreturn', 'cut'):
                    continue
                evs = v.path_events(p)
                lazy = [e.pol for e in evs if e.kind == 'branch' and e.atom[0] == 'truthy' and e.atom[1][0] == 'call' and e.atom[1][1].endswith('Model::is_update_lazy')]
                rem = [e for e in evs if e.kind == 'call' and e.q == K + 'ActionHeap::remove' and e.args == (('this',),)]
                base = [e for e in evs if e.kind == 'call' and e.q == K + 'Action::' + nm and e.obj == ('this',) and f['q'] != K + 'Action::' + nm]
                sleeping = [e.pol for e in evs if e.kind == 'branch' and 'SLEEPING' in repr(e.atom)]
                other = [(ex.pretty(e.atom), e.pol) for e in evs if e.kind == 'branch' and 'is_update_lazy' not in repr(e.atom) and 'SLEEPING' not in repr(e.atom) and 'variable_' not in repr(e.atom)
                         and 'modified_set_hook_' not in repr(e.atom) and 'state_set_' not in repr(e.atom) and 'sharing_penalty_' not in repr(e.atom)]
                if base:
                    delegates = True
                    continue
                rows.append((tuple(lazy), bool(rem), tuple(sleeping), tuple(other)))
            if delegates and not rows:
                ctx.holds('R1', '%s delegates to Action::%s' % (short, nm), where(f), '')
                ndone += 1
                continue
            bad = []
            for lazy, rem, sleeping, other in rows:
                if sleeping == (True,):
                    continue          # sleeping actions are not suspended/resumed at all
                if lazy == (True,) and not rem:
                    if short in EXTRA_GUARD_OK and any(not pol or True for _, pol in other) and other:
                        continue
                    bad.append('a lazy path keeps the heap entry (conditions %s)' % (list(other),))
                if not lazy and not rem and not delegates:
                    bad.append('no test of is_update_lazy()')
            ndone += 1
            ctx.check(not bad and bool(rows), 'R1', '%s' % short, where(f), '; '.join(sorted(set(bad))) or ('%d path(s); %s' % (len(rows), EXTRA_GUARD_OK.get(short, 'heap entry removed on every lazy path'))),
                      key='R1|%s|heap removal' % short)
    ctx.require(ndone >= 6, 'R1', 'Action mutators not found (%d)' % ndone)
    sus = P.fn(K + 'Action::suspend')
    v = A.view(sus)
    oku = any(any(e.kind == 'call' and e.q.endswith('::update_remains_lazy') for e in v.path_events(p)) for p in v.paths())
    ctx.check(oku, 'R1', 'Action::suspend brings the remaining work up to date under lazy update', where(sus), '', key='R1|Action::suspend|update_remains_lazy')

    # ---- R2 ---------------------------------------------------------------------------------------------------------------------------------
    ctx.rule('R2', 'speed / bandwidth / latency changes reach the solver through the System update API, for the constraint and for each action on it', 3)
    for fq, need in ((K + 'CpuCas01::on_speed_change', ('update_constraint_bound', 'update_variable_bound')),
                     (K + 'NetworkCm02Link::set_bandwidth', ('update_constraint_bound',)),
                     (K + 'NetworkCm02Link::set_latency', ('update_variable_bound', 'update_variable_penalty'))):
        f = P.fn(fq)
        v = A.view(f)
        got = set()
        inloop = set()
        from .. import cg
        loops = [cg.natural_loop(v, h['id']) for h in v.loop_heads()]
        for b in v.blocks:
            for eid in b.get('e', []):
                for e in v.events_of(eid):
                    if e.kind == 'call' and e.q.startswith(L):
                        n_ = e.q[len(L):]
                        got.add(n_)
                        if any(b['id'] in lp for lp in loops):
                            inloop.add(n_)
        ok = all(n_ in got for n_ in need) and all(n_ in inloop for n_ in need if n_ != 'update_constraint_bound')
        ctx.check(ok, 'R2', '%s calls %s' % (fq.replace(K, ''), ', '.join(need)), where(f), 'System calls: %s (per action: %s)' % (sorted(got), sorted(inloop)), key='R2|%s|system api' % fq.replace(K, ''))

    # ---- R3 ---------------------------------------------------------------------------------------------------------------------------------------
    ctx.rule('R3', 'both next_occurring_event variants keep the minimum of {completion by work, completion by max_duration}', 4)
    for nm in ('next_occurring_event_lazy', 'next_occurring_event_full'):
        f = P.fn(K + 'Model::' + nm)
        allups = lib.extremum_updates(A, f, lambda t: t[0] == 'var' and t[2] == 'min')
        # several locals may be called `min`: the accumulator is the one that receives conditional updates
        accs = [d['acc'] for d in allups if d['form'] in ('guarded', 'sentinel', 'min-call')]
        if not accs:
            ctx.unrecognised('R3', '%s: no conditional update of a local `min`' % nm)
            continue
        acc0 = accs[0]
        n = check_min_accumulator(ctx, A, f, lambda t, a0=acc0: t == a0, 'min', 'R3', same_candidate=False)
        ups = [d for d in allups if d['acc'] == acc0]
        cands = sorted(set(ex.pretty(d['stored']) for d in ups if not (d['stored'][0] in ('int', 'float'))))
        work = any('time_to_completion' in c or c == 'value' for c in cands)
        dur = any('get_max_duration' in c for c in cands)
        ctx.check(work and dur and len(cands) <= 3, 'R3', '%s: candidates are the completion by work and by max_duration' % nm, where(f), '%s' % cands, key='R3|%s|candidates' % nm)
    lz = P.fn(K + 'Model::next_occurring_event_lazy')
    v = A.view(lz)
    okt = None
    for p in v.paths(max_visits=1):
        if p.exit in ('noreturn',):
            continue
        evs = v.path_events(p)
        up = [e for e in evs if e.kind == 'call' and e.q == K + 'ActionHeap::update']
        if not up:
            continue
        ty = [e.rhs for e in evs if e.kind == 'assign' and e.lhs[0] == 'var' and e.lhs[2] == 'action_type']
        by_dur = any(e.kind == 'assign' and e.lhs[0] == 'var' and e.lhs[2] == 'min' and 'get_max_duration' in repr(e.rhs) for e in evs)
        last_ty = ty[-1][1].rsplit('::', 1)[-1] if ty and ty[-1][0] == 'enum' else '?'
        good = last_ty == ('max_duration' if by_dur else 'normal') and up[0].args[1][0] == 'var' and up[0].args[1][2] == 'min'
        okt = good if okt is None else (okt and good)
    ctx.check(bool(okt), 'R3', 'next_occurring_event_lazy stores min in the heap, typed max_duration iff the deadline won', where(lz), '', key='R3|next_occurring_event_lazy|heap type')
    ctx.assume('numerical agreement of the two algorithms and the trace-integration (TI) model are not decided')
    return EXPLANATION
