"""C19 — Update algorithms give the same timings (DESIGN.md 3, C19): stale heap entries are dropped, both variants pick the same next date."""
from .. import cfg, dims, ex, lib
from ..core import where
from ..ir import AnalysisBroken
from .C16 import check_min_accumulator

UNITS = ['src/kernel/resource/Action.cpp', 'src/kernel/resource/Model.cpp', 'src/kernel/resource/CpuImpl.cpp', 'src/kernel/resource/models/cpu_cas01.cpp',
         'src/kernel/resource/models/network_cm02.cpp', 'src/kernel/resource/models/cpu_ti.cpp', 'src/kernel/resource/NetworkModel.cpp',
         'src/kernel/resource/DiskImpl.cpp', 'src/kernel/resource/models/disk_s19.cpp', 'src/kernel/resource/models/ptask_L07.cpp']
K = 'simgrid::kernel::resource::'
L = 'simgrid::kernel::lmm::System::'
EXPLANATION = ('R1: every Action mutator that changes what the completion date depends on (set_bound, set_max_duration, set_sharing_penalty, cancel, '
               'suspend, resume and their overrides) removes the action from the lazy heap on every path on which the model is lazy, so that no '
               'stale date survives (suspend also brings the remaining work up to date).  R2: resource-side changes (speed, bandwidth, latency) '
               'reach the solver through System::update_constraint_bound / update_variable_bound / update_variable_penalty for the constraint and '
               'for every action on it.  R3: next_occurring_event_lazy and _full both take, per action, the minimum of the completion by work '
               '(remains / rate) and the completion by max_duration (extremum coherence), the lazy one storing it in the heap with the matching type.')

# accepted extra guards on the heap removal (one reason each)
EXTRA_GUARD_OK = {
    'Action::set_bound': 'skips the removal when the action was already updated at the current date (its heap entry is recomputed by the pending solve)',
}


def run(ctx):
    P = ctx.load(UNITS)
    A = ctx.analyzer
    ctx.rule('R1', 'Action mutators drop the stale heap entry whenever the model updates lazily', 6)
    names = ('set_bound', 'set_max_duration', 'set_sharing_penalty', 'cancel', 'suspend', 'resume')
    ndone = 0
    for nm in names:
        for f in P.overriders(K + 'Action', nm):
            if not f.get('blocks'):
                continue
            if f['file'].endswith('cpu_ti.cpp'):
                if ('TI', nm) not in [(x, y) for x, y in getattr(ctx, '_ti_noted', [])]:
                    ctx.notes.append('not decided: %s (the trace-integration CPU model keeps its own heap, independent of the lazy flag)' % f['q'].replace(K, ''))
                continue
            v = A.view(f)
            short = f['q'].replace(K, '')
            delegates = False
            rows = []
            for p in v.paths():
                if p.exit in ('noreturn', 'cut'):
                    continue
                evs = v.path_events(p)
                lazy = [e.pol for e in evs if e.kind == 'branch' and e.atom[0] == 'truthy' and e.atom[1][0] == 'call' and e.atom[1][1].endswith('Model::is_update_lazy')]
                rem = [e for e in evs if e.kind == 'call' and e.q == K + 'ActionHeap::remove' and e.args == (('this',),)]
                base = [e for e in evs if e.kind == 'call' and e.q == K + 'Action::' + nm and e.obj == ('this',) and f['q'] != K + 'Action::' + nm]
                sleeping = [e.pol for e in evs if e.kind == 'branch' and 'SLEEPING' in repr(e.atom)]
                other = [(ex.pretty(e.atom), e.pol) for e in evs if e.kind == 'branch' and 'is_update_lazy' not in repr(e.atom) and 'SLEEPING' not in repr(e.atom) and 'variable_' not in repr(e.atom)
                         and 'modified_set_hook_' not in repr(e.atom) and 'state_set_' not in repr(e.atom) and 'sharing_penalty_' not in repr(e.atom)]
                if base:
                    delegates = True
                    continue
                rows.append((tuple(lazy), bool(rem), tuple(sleeping), tuple(other)))
            if delegates and not rows:
                ctx.holds('R1', '%s delegates to Action::%s' % (short, nm), where(f), '')
                ndone += 1
                continue
            bad = []
            for lazy, rem, sleeping, other in rows:
                if sleeping == (True,):
                    continue          # sleeping actions are not suspended/resumed at all
                if lazy == (True,) and not rem:
                    if short in EXTRA_GUARD_OK and any(not pol or True for _, pol in other) and other:
                        continue
                    bad.append('a lazy path keeps the heap entry (conditions %s)' % (list(other),))
                if not lazy and not rem and not delegates:
                    bad.append('no test of is_update_lazy()')
            ndone += 1
            ctx.check(not bad and bool(rows), 'R1', '%s' % short, where(f), '; '.join(sorted(set(bad))) or ('%d path(s); %s' % (len(rows), EXTRA_GUARD_OK.get(short, 'heap entry removed on every lazy path'))),
                      key='R1|%s|heap removal' % short)
    ctx.require(ndone >= 6, 'R1', 'Action mutators not found (%d)' % ndone)
    sus = P.fn(K + 'Action::suspend')
    v = A.view(sus)
    oku = any(any(e.kind == 'call' and e.q.endswith('::update_remains_lazy') for e in v.path_events(p)) for p in v.paths())
    ctx.check(oku, 'R1', 'Action::suspend brings the remaining work up to date under lazy update', where(sus), '', key='R1|Action::suspend|update_remains_lazy')

    # ---- R2 ---------------------------------------------------------------------------------------------------------------------------------
    ctx.rule('R2', 'speed / bandwidth / latency changes reach the solver through the System update API, for the constraint and for each action on it', 3)
    for fq, need in ((K + 'CpuCas01::on_speed_change', ('update_constraint_bound', 'update_variable_bound')),
                     (K + 'NetworkCm02Link::set_bandwidth', ('update_constraint_bound',)),
                     (K + 'NetworkCm02Link::set_latency', ('update_variable_bound', 'update_variable_penalty'))):
        f = P.fn(fq)
        v = A.view(f)
        got = set()
        inloop = set()
        from .. import cg
        loops = [cg.natural_loop(v, h['id']) for h in v.loop_heads()]
        for b in v.blocks:
            for eid in b.get('e', []):
                for e in v.events_of(eid):
                    if e.kind == 'call' and e.q.startswith(L):
                        n_ = e.q[len(L):]
                        got.add(n_)
                        if any(b['id'] in lp for lp in loops):
                            inloop.add(n_)
        ok = all(n_ in got for n_ in need) and all(n_ in inloop for n_ in need if n_ != 'update_constraint_bound')
        ctx.check(ok, 'R2', '%s calls %s' % (fq.replace(K, ''), ', '.join(need)), where(f), 'System calls: %s (per action: %s)' % (sorted(got), sorted(inloop)), key='R2|%s|system api' % fq.replace(K, ''))

    # ---- R3 ---------------------------------------------------------------------------------------------------------------------------------------
    ctx.rule('R3', 'both next_occurring_event variants keep the minimum of {completion by work, completion by max_duration}', 4)
    for nm in ('next_occurring_event_lazy', 'next_occurring_event_full'):
        f = P.fn(K + 'Model::' + nm)
        allups = lib.extremum_updates(A, f, lambda t: t[0] == 'var' and t[2] == 'min')
        # several locals may be called `min`: the accumulator is the one that receives conditional updates
        accs = [d['acc'] for d in allups if d['form'] in ('guarded', 'sentinel', 'min-call')]
        if not accs:
            ctx.unrecognised('R3', '%s: no conditional update of a local `min`' % nm)
            continue
        acc0 = accs[0]
        n = check_min_accumulator(ctx, A, f, lambda t, a0=acc0: t == a0, 'min', 'R3', same_candidate=False)
        ups = [d for d in allups if d['acc'] == acc0]
        cands = sorted(set(ex.pretty(d['stored']) for d in ups if not (d['stored'][0] in ('int', 'float'))))
        work = any('time_to_completion' in c or c == 'value' for c in cands)
        dur = any('get_max_duration' in c for c in cands)
        ctx.check(work and dur and len(cands) <= 3, 'R3', '%s: candidates are the completion by work and by max_duration' % nm, where(f), '%s' % cands, key='R3|%s|candidates' % nm)
    lz = P.fn(K + 'Model::next_occurring_event_lazy')
    v = A.view(lz)
    okt = None
    for p in v.paths(max_visits=1):
        if p.exit in ('noreturn',):
            continue
        evs = v.path_events(p)
        up = [e for e in evs if e.kind == 'call' and e.q == K + 'ActionHeap::update']
        if not up:
            continue
        ty = [e.rhs for e in evs if e.kind == 'assign' and e.lhs[0] == 'var' and e.lhs[2] == 'action_type']
        by_dur = any(e.kind == 'assign' and e.lhs[0] == 'var' and e.lhs[2] == 'min' and 'get_max_duration' in repr(e.rhs) for e in evs)
        last_ty = ty[-1][1].rsplit('::', 1)[-1] if ty and ty[-1][0] == 'enum' else '?'
        good = last_ty == ('max_duration' if by_dur else 'normal') and up[0].args[1][0] == 'var' and up[0].args[1][2] == 'min'
        okt = good if okt is None else (okt and good)
    ctx.check(bool(okt), 'R3', 'next_occurring_event_lazy stores min in the heap, typed max_duration iff the deadline won', where(lz), '', key='R3|next_occurring_event_lazy|heap type')
    # ---- R4 lazy accounting happens while the action still counts as running --------------------------------------------------------------------
    ctx.rule('R4', 'Action::suspend brings the remaining work up to date (update_remains_lazy) before the action stops being "running": lazy accountants return early for a non-running action', 4)
    from ..cfg import abstract_run as _arun
    SUSP = lib.this_field(K + 'Action::suspended_')
    guards = []
    for f in P.fns.values():
        if f['q'].endswith('::update_remains_lazy') and f.get('blocks'):
            vv = A.view(f)
            if any(vv.cond_atom(b['id']) is not None and 'is_running' in repr(vv.cond_atom(b['id'])[0]) for b in vv.blocks):
                guards.append(f['q'].replace(K, ''))
    ctx.check(True, 'R4', 'premise: lazy accountants that skip a non-running action: %s' % (sorted(guards) or 'none'), 'src/kernel/resource', '', key='R4|premise')
    sus = P.fn(K + 'Action::suspend')

    def tr4(st, e):
        flagged, updated, bad = st
        if e.kind == 'assign' and e.lhs == SUSP:
            return (e.line, updated, bad)
        if e.kind == 'call' and e.q.endswith('::update_remains_lazy'):
            return (flagged, True, bad or ('update_remains_lazy() at line %s runs after suspended_ was set (line %s): %s return(s) at once for a non-running action, so the work done until now is never '
                                           'subtracted and is debited again after resume()' % (e.line, flagged, ', '.join(sorted(guards))) if (flagged and guards) else None))
        return None
    ex4 = _arun(A, sus, (None, False, None), tr4)
    st4 = ex4['normal']
    bad4 = sorted(set(x[2] for x in st4 if x[2]))
    ctx.check(bool(st4) and any(x[1] for x in st4) and not bad4, 'R4', 'Action::suspend: update_remains_lazy(now) before suspended_ = SUSPENDED', where(sus), bad4[0] if bad4 else '', key='R4|Action::suspend|accounting before the state change')
    # the trace-integration CPU accounts in CpuTi::update_remaining_amount, which skips the non-running actions and divides by the current penalty:
    # its action mutators must account for the elapsed interval before they change either
    ura = [f for f in P.fns.values() if f['q'].endswith('CpuTi::update_remaining_amount') and f.get('blocks')]
    if ura:
        vv = A.view(ura[0])
        skips = any(vv.cond_atom(b['id']) is not None and 'is_running' in repr(vv.cond_atom(b['id'])[0]) for b in vv.blocks)
        uses_pen = any('get_sharing_penalty' in repr(e.nf) for eid in range(len(ura[0]['elems'])) for e in vv.events_of(eid) if e.kind == 'call' and e.q.endswith('::update_remains'))
        for nm, change in (('suspend', lambda e: e.kind == 'call' and e.q.endswith('::set_suspend_state')), ('resume', lambda e: e.kind == 'call' and e.q.endswith('::set_suspend_state')),
                           ('set_sharing_penalty', lambda e: e.kind == 'call' and e.q.endswith('::set_sharing_penalty_no_update'))):
            fs = [f for f in P.fns.values() if f['q'].endswith('CpuTiAction::' + nm) and f.get('blocks')]
            if len(fs) != 1 or not (skips if nm != 'set_sharing_penalty' else uses_pen):
                continue

            def trt(st, e, _change=change):
                accounted, bad = st
                if e.kind == 'call' and e.q.endswith('CpuTi::update_remaining_amount'):
                    return (True, bad)
                if _change(e) and not accounted:
                    return (accounted, bad or e.line)
                return None
            ext = _arun(A, fs[0], (False, None), trt)
            badl = sorted(set(x[1] for x in ext['normal'] if x[1]))
            changes = any(change(e) for eid in range(len(fs[0]['elems'])) for e in A.view(fs[0]).events_of(eid))
            ctx.check(changes and not badl, 'R4', 'CpuTiAction::%s accounts for the elapsed interval (update_remaining_amount(now)) before changing what that accounting reads' % nm, where(fs[0], badl[0] if badl else None),
                      'the change at line %s is made first: update_remaining_amount() then %s for the interval that has just elapsed' % (badl[0], 'skips this action or counts suspended time as work' if nm != 'set_sharing_penalty' else 'divides by the new penalty') if badl else '',
                      key='R4|CpuTiAction::%s|accounting before the state change' % nm)
    run_ti_profile(ctx, P, A)
    run_units(ctx, P, A)
    ctx.assume('numerical agreement of the algorithms is not decided; for the trace-integration (TI) CPU only the accounting order of its action mutators is')
    return EXPLANATION


def run_ti_profile(ctx, P, A):
    """R7: the trace-integration CPU never ignores an availability profile it is given"""
    ctx.rule('R7', 'CpuTiTmgr(profile, scale): without a profile the constant availability is the given scale; with a profile, on every path, either the integrated profile is built '
             'from it or the constant is read from its event list (a one-point profile is a constant availability, which the Lazy and Full algorithms honour)', 1)
    cs = [f for f in P.fns.values() if f['q'].endswith('CpuTiTmgr::CpuTiTmgr') and f.get('blocks') and len(f['params']) == 2]
    ctx.require(len(cs) == 1, 'R7', 'CpuTiTmgr(Profile*, double): %d definitions' % len(cs))
    for f in cs[:1]:
        v = A.view(f)
        prof, scale = lib.parm_i(f, 0), lib.parm_i(f, 1)
        n_with = n_without = 0
        bad = []
        for p in v.paths(max_visits=1):
            if p.exit in ('noreturn', 'cut', 'throw'):
                continue
            evs = v.path_events(p)
            has = [e.pol for e in evs if e.kind == 'branch' and e.atom == ('truthy', prof)]
            vals = [e for e in evs if e.kind == 'assign' and e.lhs[0] == 'field' and e.lhs[2].endswith('CpuTiTmgr::value_')]
            built = [e for e in evs if (e.kind == 'call' and 'CpuTiProfile' in e.q and any(ex.mentions(a, prof) for a in e.args)) or
                     (e.kind == 'assign' and e.lhs[0] == 'field' and e.lhs[2].endswith('::profile_') and ex.mentions(e.rhs, prof))]
            if has and has[0] is False:
                n_without += 1
                if not (vals and vals[-1].rhs == scale):
                    bad.append('without a profile value_ is %s' % ([ex.pretty(x.rhs) for x in vals] or 'not set'))
            elif has and has[0] is True:
                n_with += 1
                env = {e.lhs: e.rhs for e in evs if e.kind == 'assign' and e.lhs[0] == 'var' and e.lhs[1] == 'local'}

                def reaches(t, d=0):
                    if ex.mentions(t, prof):
                        return True
                    return d < 4 and any(reaches(env[x], d + 1) for x in ex.subterms(t) if x in env)
                from_prof = [x for x in vals[-1:] if reaches(x.rhs)]
                if not built and not from_prof:
                    bad.append('a path with a profile neither integrates it nor reads its value (value_ = %s): the host runs at the given scale whatever the profile says' % ([ex.pretty(x.rhs) for x in vals] or 'unset'))
        ctx.check(n_with >= 1 and n_without >= 1 and not bad, 'R7', 'CpuTiTmgr: the availability comes from the profile whenever there is one', where(f), '; '.join(sorted(set(bad))) or '%d path(s) with a profile, %d without' % (n_with, n_without),
                  key='R7|CpuTiTmgr|profile honoured')


def run_units(ctx, P, A):
    """R5: dates, durations, work and rates are not mixed (P20 with an affine base: date - date = duration, date + duration = date)"""
    ctx.rule('R5', 'units of the event computation of the resource models: remaining work in [work], rates in [work/second], max_duration/latency/delta in [second], '
             'start/finish/last-update/heap dates and `now` in [date]; date - date = duration, date + duration = date; the lazy variant stores dates in the heap and '
             'returns a duration, the full variant returns a duration; both sides of every store, comparison, min/max, double_update and every listed argument agree', 45)
    R = K
    D = dims.Dims(('work', 'second', '@date'), {})
    u = D.unit
    W, S, DATE, RATE = u(work=1), u(second=1), u(second=1, **{'@date': 1}), u(work=1, second=-1)
    D.fields = {R + 'Action::remains_': W, R + 'Action::cost_': W, R + 'Action::start_time_': DATE, R + 'Action::finish_time_': DATE, R + 'Action::last_update_': DATE,
                R + 'Action::max_duration_': S, R + 'Action::last_value_': RATE, R + 'NetworkAction::latency_': S, R + 'NetworkAction::lat_current_': S}
    D.getters = {R + 'Action::get_remains': W, R + 'Action::get_remains_no_update': W, R + 'Action::get_cost': W, R + 'Action::get_start_time': DATE, R + 'Action::get_finish_time': DATE,
                 R + 'Action::get_last_update': DATE, R + 'Action::get_max_duration': S, R + 'Action::get_rate': RATE, R + 'Action::get_last_value': RATE, R + 'ActionHeap::top_date': DATE,
                 'simgrid::s4u::Engine::get_clock': DATE, 'simgrid_get_clock': DATE, 'simgrid::kernel::EngineImpl::get_clock': DATE}
    D.arg_units = {R + 'ActionHeap::update': {1: DATE}, R + 'ActionHeap::insert': {1: DATE}, R + 'Action::update_remains': {0: W}, R + 'Action::update_max_duration': {0: S},
                   R + 'Action::set_finish_time': {0: DATE}, R + 'Action::set_last_value': {0: RATE}, R + 'Action::update_remains_lazy': {0: DATE}, R + 'Action::set_max_duration': {0: S}}
    D.param_names = {'now': DATE, 'delta': S}
    D.param_units = {(R + 'Action::update_remains', 'delta'): W}          # the amount of work done, not a time step
    D.skip_vars = {(R + 'Model::next_occurring_event_full', 'value')}     # holds the rate, then the time to completion
    D.globals_one = {'sg_precision_timing': S, 'sg_precision_workamount': D.one}
    D.same_unit = {'double_update': (0, 1), 'double_equals': (0, 1)}
    D.passthrough = {'std::fabs', 'fabs', 'std::abs'}
    D.ret_units = {R + 'Model::next_occurring_event_lazy': S, R + 'Model::next_occurring_event_full': S, R + 'Model::next_occurring_event': S}
    fns = sorted([f for f in P.fns.values() if f['q'].startswith(R) and f.get('blocks') and '/src/kernel/resource' in f['file'] and 'CpuTi' not in f['q']], key=lambda f: f['key'])
    D.run(A, fns)
    for r in D.decided:
        ctx.holds('R5', '%s: %s %s %s' % (r['fn'].replace(R, ''), r['a'][:70], r['what'], r['b'][:70]), '', '[%s]' % D.show(r['da']))
    for r in D.conflicts:
        f = [x for x in fns if x['q'] == r['fn']][0]
        ctx.violation('R5', '%s: %s %s %s' % (r['fn'].replace(R, ''), r['a'][:70], r['what'], r['b'][:70]), where(f, r['line']),
                      'left side in [%s], right side in [%s]' % (D.show(r['da']), D.show(r['db'])), key='R5|%s|%s %s %s' % (r['fn'].rsplit('::', 1)[-1].split('<')[0], r['a'][:60], r['what'], r['b'][:60]))
    ctx.count('unit sites with one side not understood (not decided)', len(D.undecided))
    for fq, frag in ((R + 'Model::next_occurring_event_lazy', 'time_to_completion'), (R + 'Model::next_occurring_event_lazy', 'top_date'), (R + 'Model::next_occurring_event_lazy', 'return'),
                     (R + 'Model::next_occurring_event_full', 'return'), (R + 'NetworkCm02Action::update_remains_lazy', 'delta'), (R + 'CpuAction::update_remains_lazy', 'delta')):
        ok = any(r['fn'] == fq and (frag in r['a'] or frag in r['b'] or frag == r['what']) for r in D.decided + D.conflicts)
        ctx.require(ok, 'R5', 'no decided unit site mentions %s in %s' % (frag, fq.replace(R, '')))

    # ---- R6 ------------------------------------------------------------------------------------------------------------------------------------------
    ctx.rule('R6', 'next_occurring_event_lazy reads the remaining work of an action only after bringing it up to date (update_remains_lazy(now), or get_remains() which does it); '
             'the two variants agree on which actions have a deadline: max_duration compared with NO_MAX_DURATION (-1), or its sign with >= 0 / < 0 (a deadline of 0 is a deadline)', 3)
    lz = P.fn(R + 'Model::next_occurring_event_lazy')

    def tr(st, e):
        if e.kind == 'call' and e.q.endswith('::update_remains_lazy'):
            return ('fresh', st[1])
        if e.kind == 'call' and e.q.endswith('::pop_front'):
            return ('stale', st[1])         # next action of the modified set
        if e.kind == 'call' and e.q.endswith('Action::get_remains_no_update') and st[0] != 'fresh':
            return (st[0], st[1] or e.line)
        return None
    ex6 = cfg.abstract_run(A, lz, ('stale', None), tr)
    bad6 = sorted(set(x[1] for x in (ex6['normal'] | ex6['noreturn']) if x[1]))
    ctx.check(bool(ex6['normal']) and not bad6, 'R6', 'next_occurring_event_lazy: get_remains_no_update() only after update_remains_lazy(now) on the same action', where(lz, bad6[0] if bad6 else None),
              'the completion date is computed from the remaining work as of the previous update: the work done since then is ignored' if bad6 else '', key='R6|next_occurring_event_lazy|fresh remains')
    nt = 0
    for f in sorted(P.fns.values(), key=lambda f: f['key']):
        if not f.get('blocks') or f['q'] not in (R + 'Model::next_occurring_event_lazy', R + 'Model::next_occurring_event_full'):
            continue
        v = A.view(f)
        for b in f['blocks']:
            c = v.cond_atom(b['id'])
            if c is None or v.is_log_branch(b['id']):
                continue
            for t in ex.subterms(c[0]):
                if not (t[0] == 'bin' and t[1] in dims.ARITH_CMP):
                    continue
                sides = [t[2], t[3]]
                md = [x for x in sides if (x[0] == 'call' and x[1].endswith('Action::get_max_duration')) or (x[0] == 'field' and x[2].endswith('Action::max_duration_'))]
                lit = [x for x in sides if x[0] in ('int', 'float')]
                if len(md) != 1 or len(lit) != 1:
                    continue
                nt += 1
                litfirst = sides[0][0] in ('int', 'float')
                op = t[1]
                if litfirst:
                    op = {'<': '>', '>': '<', '<=': '>=', '>=': '<=', '==': '==', '!=': '!='}[op]
                val = lit[0][1]
                ok = (val == -1 and op in ('==', '!=', '>', '<=')) or (val == 0 and op in ('>=', '<'))
                line = v.elem_line(b['t']['c']) if 'c' in (b.get('t') or {}) else f['line']
                ctx.check(ok, 'R6', '%s: %s' % (f['q'].replace(R, '').split('<')[0], ex.pretty(t)), where(f, line),
                          'a maximal duration of 0 ("ends now") is a duration: only the sentinel -1 / negative values mean "none"' if not ok else 'sentinel test',
                          key='R6|%s|%s' % (f['q'].rsplit('::', 1)[-1].split('<')[0], ex.pretty(t)))
    ctx.require(nt >= 2, 'R6', 'fewer than 2 tests of max_duration against its sentinel found (%d)' % nt)
