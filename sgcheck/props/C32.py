"""C32 — Groups and communicators follow MPI rank-ordering rules (DESIGN.md 3, C32)."""
from .. import cg, ex, lib
from ..core import where
from ..ir import AnalysisBroken

UNITS = ['src/smpi/mpi/smpi_group.cpp', 'src/smpi/mpi/smpi_comm.cpp']
G = 'simgrid::smpi::Group'
UNDEF = ('int', -333)
EXPLANATION = ('Order-driving operand of each group constructor, decoded from its loops: intersection and difference iterate over the first group '
               '(loop bound this->size(), element this->actor(i)), test membership in the other group with the right polarity and build the result '
               'with this->incl on ascending indices; union maps the first group at ranks 0..size-1 in order and then the members of the second that '
               'are not in the first, in the second\'s order; incl maps the i-th listed rank to new rank i and excl keeps the non-excluded ranks '
               'in ascending order; Comm::split builds (key, old rank) pairs, sorts them with the default lexicographic order and gives the j-th '
               'pair new rank j, skipping MPI_UNDEFINED colours; compare returns IDENT/SIMILAR/UNEQUAL per the MPI definition.')


def loop_info(v, fn):
    """[(head, bound object, body blocks)] of `for (i = 0; i < X.size(); i++)`-like loops"""
    out = []
    for h in v.loop_heads():
        at = v.cond_atom(h['id'])
        if at and at[0][0] == 'bin' and at[0][1] == '<' and at[1]:
            out.append((h, at[0][2], at[0][3], cg.natural_loop(v, h['id'])))
    return out


def filtered_by_first(ctx, P, A, name, keep_when_member):
    """intersection / difference: the loop runs over `this`, membership is tested in the parameter group, incl() is called on this"""
    f = P.fn(G + '::' + name)
    v = A.view(f)
    g2 = lib.parm_i(f, 0)
    ok = False
    detail = ''
    for h, ivar, bound, body in loop_info(v, f):
        over = bound[2] if bound[0] == 'call' and bound[1] == G + '::size' else None
        evs = []
        for b in sorted(body | {h['id']}, reverse=True):
            for eid in v.blocks[b].get('e', []):
                evs.extend(v.events_of(eid))
        acts = [e for e in evs if e.kind == 'assign' and e.rhs[0] == 'call' and e.rhs[1] == G + '::actor' and e.rhs[3] == (ivar,)]
        if not acts:
            continue
        elem_of = acts[0].rhs[2]
        avar = acts[0].lhs
        # membership test
        tests = [(b, v.cond_atom(b)) for b in body if v.cond_atom(b) and 'rank' in repr(v.cond_atom(b)[0])]
        tested_in = None
        push_pol = None
        for b, (at, pol) in tests:
            if at[0] == 'bin' and at[1] == '==' and at[3] == UNDEF and at[2][0] == 'call' and at[2][1] == G + '::rank' and at[2][3] == (avar,):
                tested_in = at[2][2]
                # which edge reaches the push_back?
                ss = v.blocks[b]['s']
                for i, s_ in enumerate(ss):
                    if s_ is None:
                        continue
                    reach = set()
                    work = [s_]
                    while work:
                        x = work.pop()
                        if x in reach or x == h['id'] or x not in body:
                            continue
                        reach.add(x)
                        work.extend(v.succs(x))
                    pushes = [e for x in reach for eid in v.blocks[x].get('e', []) for e in v.events_of(eid) if e.kind == 'call' and e.q.endswith('::push_back') and e.args == (ivar,)]
                    if pushes and len(reach) < len(body):
                        push_pol = ((i == 0) == pol)     # truth of `rank == UNDEFINED` on the pushing edge
        rets = [e for p in v.paths(max_visits=1) for e in v.path_events(p) if e.kind == 'return']
        incl_on = rets[0].val[2] if rets and rets[0].val[0] == 'call' and rets[0].val[1] == G + '::incl' else None
        detail = 'loop over %s, elements of %s, membership tested in %s, kept when member: %s, incl() on %s' % (
            ex.pretty(over) if over else '?', ex.pretty(elem_of), ex.pretty(tested_in) if tested_in else '?', (not push_pol) if push_pol is not None else '?', ex.pretty(incl_on) if incl_on else '?')
        ok = over == ('this',) and elem_of == ('this',) and tested_in == g2 and push_pol is not None and (not push_pol) == keep_when_member and incl_on == ('this',)
    ctx.check(ok, 'R1', 'Group::%s follows the order of the first group' % name, where(f), detail, key='R1|%s|first group order' % name)


def run(ctx):
    P = ctx.load(UNITS)
    A = ctx.analyzer
    ctx.rule('R1', 'union / intersection / difference follow the first group\'s order (union then appends the new members of the second in its order)', 3)
    filtered_by_first(ctx, P, A, 'intersection', True)
    filtered_by_first(ctx, P, A, 'difference', False)
    un = P.fn(G + '::group_union')
    v = A.view(un)
    g2 = lib.parm_i(un, 0)
    # every normal path through the three loops once
    shapes = set()
    anyfilt = False
    for p in v.paths(max_visits=2):
        if p.exit in ('noreturn', 'cut'):
            continue
        evs = v.path_events(p)
        maps = [e for e in evs if e.kind == 'call' and e.q == G + '::set_mapping']
        if len(maps) < 2:
            continue
        first = [m for m in maps if m.args[0][0] == 'var' and any(x.kind == 'assign' and x.lhs == m.args[0] and x.rhs[0] == 'call' and x.rhs[1] == G + '::actor' and x.rhs[2] == ('this',) for x in evs)]
        second = [m for m in maps if m.args[0][0] == 'var' and any(x.kind == 'assign' and x.lhs == m.args[0] and x.rhs[0] == 'call' and x.rhs[1] == G + '::actor' and x.rhs[2] == g2 for x in evs)]
        if first and second:
            # first-group mappings come first, rank = loop index of actor(i); second-group mappings use the running index, incremented after each
            fi = [evs.index(m) for m in first]
            si = [evs.index(m) for m in second]
            a1 = [x for x in evs if x.kind == 'assign' and x.lhs == first[0].args[0] and x.rhs[0] == 'call']
            same_index = a1 and a1[0].rhs[3] == (first[0].args[1],)
            inc_after = any(x.kind == 'incdec' and x.lhs == second[0].args[1] and x.op == '++' for x in evs[si[0]:])
            filt = [x for x in evs if x.kind == 'branch' and x.atom[0] == 'bin' and x.atom[1] == '==' and x.atom[3] == UNDEF and x.atom[2][0] == 'call' and x.atom[2][1] == G + '::rank' and x.atom[2][2] == ('this',)]
            shapes.add((max(fi) < min(si), bool(same_index), inc_after, second[0].args[1] == first[0].args[1]))
            anyfilt = anyfilt or bool(filt)
    ctx.check(shapes == {(True, True, True, True)} and anyfilt, 'R1', 'Group::group_union: first group at ranks 0..n-1 in order, then the second group\'s new members in its order', where(un), 'shapes %s' % sorted(shapes),
              key='R1|group_union|order')

    ctx.rule('R2', 'incl maps the i-th listed rank to new rank i; excl keeps the non-excluded ranks in ascending order; range variants walk each range by its stride', 4)
    inc = P.fn(G + '::incl', 3)
    v = A.view(inc)
    ranks = lib.parm(inc, 'ranks')
    okincl = False
    for p in v.paths(max_visits=2):
        evs = v.path_events(p)
        ms = [e for e in evs if e.kind == 'call' and e.q == G + '::set_mapping']
        for m in ms:
            ad = [x for x in evs if x.kind == 'assign' and x.lhs == m.args[0] and x.rhs[0] == 'call' and x.rhs[1] == G + '::actor']
            if ad and ad[0].rhs[2] == ('this',) and ad[0].rhs[3] == (('idx', ranks, m.args[1]),):
                okincl = True
    ctx.check(okincl, 'R2', 'Group::incl: set_mapping(actor(ranks[i]), i)', where(inc), '', key='R2|incl|mapping')
    exc = [f for f in P.fns_named(G + '::excl') if len(f['params']) == 2 and f.get('blocks')]
    if len(exc) != 1:
        raise AnalysisBroken('Group::excl(vector<bool>): %d definitions' % len(exc))
    v = A.view(exc[0])
    em = lib.parm_i(exc[0], 0)
    okex = False
    for h, ivar, bound, body in loop_info(v, exc[0]):
        tests = [v.cond_atom(b) for b in body if v.cond_atom(b)]
        pushes = [e for b in body for eid in v.blocks[b].get('e', []) for e in v.events_of(eid) if e.kind == 'call' and e.q.endswith('::push_back') and e.args == (ivar,)]
        incs = [e for b in body | {h['id']} for eid in v.blocks[b].get('e', []) for e in v.events_of(eid) if e.kind == 'incdec' and e.lhs == ivar and e.op == '++']
        okex = bool(pushes) and bool(incs) and any('excl_map' in repr(t[0]) for t in tests)
    ctx.check(okex, 'R2', 'Group::excl: ascending scan, kept ranks pushed in order, then incl', where(exc[0]), '', key='R2|excl|ascending')
    for nm in ('range_incl', 'range_excl'):
        f = P.fn(G + '::' + nm)
        v = A.view(f)
        okr = False
        for p in v.paths(max_visits=2):
            evs = v.path_events(p)
            steps = [e for e in evs if e.kind == 'assign' and e.op == '+=' and 'ranges' in repr(e.rhs) and e.rhs[0] == 'idx' and e.rhs[2] == ('int', 2)]
            starts = [e for e in evs if e.kind == 'assign' and e.op == '=' and e.rhs[0] == 'idx' and e.rhs[2] == ('int', 0) and 'ranges' in repr(e.rhs)]
            inr = [e for e in evs if e.kind == 'branch' and 'is_rank_in_range' in repr(e.atom)]
            if steps and starts and inr and steps[0].lhs == starts[0].lhs:
                okr = True
        ctx.check(okr, 'R2', 'Group::%s: j = first; while in range: j += stride' % nm, where(f), '', key='R2|%s|stride walk' % nm)

    ctx.rule('R3', 'Comm::split: (key, old rank) pairs sorted lexicographically; the j-th pair gets new rank j; MPI_UNDEFINED colours join no group', 3)
    sp = P.fn('simgrid::smpi::Comm::split')
    v = A.view(sp)
    emps = []
    sorts = []
    maps = []
    for eid in range(len(sp['elems'])):
        for e in v.events_of(eid):
            if e.kind == 'call' and e.q.endswith('::emplace_back') and e.obj is not None and e.obj[0] == 'var' and e.obj[2] == 'rankmap':
                emps.append(e)
            if e.kind == 'call' and e.q in ('std::sort', 'std::stable_sort') and 'rankmap' in repr(e.args):
                sorts.append(e)
            if e.kind == 'call' and e.q == G + '::set_mapping':
                maps.append(e)
    okpairs = len(emps) >= 2
    for e in emps:
        k, r = e.args if len(e.args) == 2 else (None, None)
        # key = recvbuf[2*x+1], rank = x
        good = k is not None and k[0] in ('idx', 'call') and r[0] == 'var'
        if good:
            idx = k[2] if k[0] == 'idx' else k[3][0]
            lf = lib.linear_form(idx)
            good = lf is not None and lf[0] == {r: 2} and lf[1] == 1
        okpairs = okpairs and good
    ctx.check(okpairs, 'R3', 'split: pairs are (recvbuf[2*r+1], r) = (key, old rank)', where(sp, emps[0].line if emps else None), '%d emplace_back' % len(emps), key='R3|split|pairs')
    ctx.check(len(sorts) == 1 and len(sorts[0].args) == 2, 'R3', 'split: the pairs are sorted with the default (lexicographic) order', where(sp, sorts[0].line if sorts else None),
              '%d sort call(s), %s' % (len(sorts), 'no custom comparator' if sorts and len(sorts[0].args) == 2 else 'custom comparator'), key='R3|split|sort')
    okmap = False
    for m in maps:
        j = m.args[1]
        for p in v.paths(max_visits=2)[:0]:
            pass
        # actor = group->actor(rankmap[j].second)
        defs = [e for eid in range(len(sp['elems'])) for e in v.events_of(eid) if e.kind == 'assign' and e.lhs == m.args[0] and e.rhs[0] == 'call' and e.rhs[1] == G + '::actor']
        if defs:
            a0 = defs[0].rhs[3][0]
            okmap = a0[0] == 'field' and a0[2].endswith('::second') and j in [s for s in ex.subterms(a0)] and 'rankmap' in repr(a0)
    ctx.check(okmap, 'R3', 'split: set_mapping(group->actor(rankmap[j].second), j)', where(sp, maps[0].line if maps else None), '', key='R3|split|new ranks')
    okund = False
    from .C13 import _dominating_facts
    if sorts:
        dom = _dominating_facts(A, sp, sorts[0].node)
        okund = any(a[0] == 'bin' and a[1] == '==' and a[3] == UNDEF and 'recvbuf' in repr(a[2]) and t is False for a, t in dom)
    ctx.check(okund, 'R3', 'split: a rank whose colour is MPI_UNDEFINED starts no group', where(sp), '', key='R3|split|undefined colour')

    ctx.rule('R4', 'Group::compare: IDENT iff same size and same rank for every member, UNEQUAL if a member is missing or sizes differ, SIMILAR otherwise', 2)
    cp = P.fn(G + '::compare')
    v = A.view(cp)
    outcomes = set()
    for p in v.paths(max_visits=2):
        if p.exit in ('noreturn', 'cut'):
            continue
        evs = v.path_events(p)
        sizes = [e.pol for e in evs if e.kind == 'branch' and repr(e.atom).count('::size') == 2]
        undef = [e.pol for e in evs if e.kind == 'branch' and e.atom[0] == 'bin' and e.atom[1] == '==' and e.atom[3] == UNDEF]
        same = [e.pol for e in evs if e.kind == 'branch' and e.atom[0] == 'bin' and e.atom[1] == '==' and e.atom[3] != UNDEF and 'rank' in repr(e.atom) and '::size' not in repr(e.atom)]
        res = [e.rhs for e in evs if e.kind == 'assign' and e.lhs[0] == 'var' and e.lhs[2] == 'result' and e.rhs[0] == 'int']
        final = res[-1][1] if res else None
        if sizes and sizes[0] is False:
            want = 2
        elif True in undef:
            want = 2
        elif False in same:
            want = 1
        else:
            want = 0
        outcomes.add((want, final))
    bad = [o for o in outcomes if o[0] != o[1]]
    ctx.check(not bad and len(outcomes) >= 3, 'R4', 'Group::compare outcome on every path', where(cp), 'expected/actual pairs %s' % sorted(outcomes), key='R4|compare|outcome')
    # SIMILAR is provisional: a later member may still be missing.  The scan may be left before its end only with the absorbing answer UNEQUAL.
    from .. import cg as _cg
    heads = v.loop_heads()
    early = set()
    if len(heads) == 1:
        hid = heads[0]['id']
        body = _cg.natural_loop(v, hid)
        ss = v.blocks[hid]['s']
        ap = v.cond_atom(hid)
        for p in v.paths(max_visits=2):
            if p.exit in ('noreturn', 'cut'):
                continue
            hsteps = [st for st in p.steps if st[0] == 'b' and st[1] == hid]
            if not hsteps:
                continue
            # polarity of the edge that enters the body
            enter_pol = None
            for i_, tgt in enumerate(ss):
                if tgt in body and ap is not None:
                    enter_pol = ((i_ == 0) == ap[1])
            if enter_pol is None or hsteps[-1][2] != enter_pol:
                continue            # the scan was left through its own end test
            evs = v.path_events(p)
            res = [e.rhs for e in evs if e.kind == 'assign' and e.lhs[0] == 'var' and e.lhs[2] == 'result' and e.rhs[0] == 'int']
            early.add(res[-1][1] if res else None)
        ctx.check(early <= {2}, 'R4', 'Group::compare leaves the scan before its end only with MPI_UNEQUAL', where(cp),
                  'the scan is left early with result %s: the remaining members are never looked up, so a missing one is not seen (MPI_SIMILAR returned for unequal groups)' % sorted([x for x in early if x != 2], key=repr) if not early <= {2} else 'early exits carry %s' % sorted(early, key=repr),
                  key='R4|compare|early exit')
    else:
        ctx.unrecognised('R4', 'Group::compare: %d loops' % len(heads))
    # ---- R5 the pid -> rank table answers MPI_UNDEFINED for every pid that set_mapping never stored ---------------------------------------------------
    ctx.rule('R5', 'Group::pid_to_rank_map_ is a sentinel-filled table: it grows only by resize(n, MPI_UNDEFINED), is indexed for writing only by set_mapping, and rank() answers '
             'MPI_UNDEFINED for a pid beyond its size: a non-member never reads as a rank', 3)
    GQ = 'simgrid::smpi::Group'
    TAB = GQ + '::pid_to_rank_map_'
    UNDEF5 = ('int', -333)

    def lit(t):
        while t[0] in ('cast', 'conv'):
            t = t[2]
        if t[0] == 'un' and t[1] == '-' and t[2][0] == 'int':
            return ('int', -t[2][1])
        return t
    n5 = 0
    for u in lib.field_uses(P, TAB):
        who = u.fn['q'].replace('simgrid::smpi::', '')
        if u.kind == 'call' and u.method in ('size', 'empty', 'begin', 'end', 'cbegin', 'cend', 'data'):
            continue
        n5 += 1
        if u.kind == 'call' and u.method == 'resize':
            args = [ex.Norm(u.fn)(a) for a in (u.parent.get('a') or ())]
            ok = len(args) == 2 and lit(args[1]) == UNDEF5
            ctx.check(ok, 'R5', '%s: pid_to_rank_map_.resize fills the new slots with MPI_UNDEFINED' % who, where(u.fn, u.line),
                      'resize(%s): the new slots hold %s, so a pid that is not in the group reads as rank %s' % (', '.join(ex.pretty(a) for a in args), 'the value-initialised 0' if len(args) < 2 else ex.pretty(args[1]), '0' if len(args) < 2 else ex.pretty(args[1])) if not ok else '',
                      key='R5|%s|resize fill' % who.rsplit('::', 1)[-1])
        elif u.kind == 'call' and u.method in ('operator[]', 'at'):
            # reads everywhere, writes only in set_mapping
            pa = u.parent
            continue
        elif u.kind == 'call' and u.method in ('assign', 'push_back', 'emplace_back', 'insert', 'emplace', 'clear', 'reserve', 'swap', 'erase', 'pop_back'):
            ctx.check(u.method in ('reserve',), 'R5', '%s: pid_to_rank_map_.%s' % (who, u.method), where(u.fn, u.line), 'the table is grown or changed outside the sentinel-filling resize', key='R5|%s|%s' % (who.rsplit('::', 1)[-1], u.method))
        elif u.kind == 'write':
            ok = u.op == 'init' or who.endswith('Group::Group') or who.endswith('Group::operator=')
            ctx.check(ok, 'R5', '%s assigns pid_to_rank_map_ as a whole' % who, where(u.fn, u.line), 'copy of another group\'s table' if ok else 'whole-table assignment outside the copy constructor', key='R5|%s|table assigned' % who.rsplit('::', 1)[-1])
    ctx.require(n5 >= 3, 'R5', 'uses of pid_to_rank_map_ not found (%d)' % n5)
    # element stores
    for f in sorted(P.fns.values(), key=lambda f: f['key']):
        if not f.get('blocks'):
            continue
        vv = A.view(f)
        for eid in range(len(f['elems'])):
            for e in vv.events_of(eid):
                if e.kind == 'assign' and e.eid == eid and TAB in repr(e.lhs) and e.lhs[0] in ('call', 'idx'):
                    ctx.check(f['q'] == GQ + '::set_mapping', 'R5', '%s stores an element of pid_to_rank_map_' % f['q'].replace('simgrid::smpi::', ''), where(f, e.line), '', key='R5|%s|element store' % f['q'].rsplit('::', 1)[-1])
    # the two tables are inverse of each other: set_mapping stores rank_to_pid_map_[rank] = pid and pid_to_rank_map_[pid] = rank
    sm = P.fn(GQ + '::set_mapping')
    vsm = A.view(sm)
    ppid, prank = lib.parm(sm, 'pid'), lib.parm(sm, 'rank')
    defs = {}
    for eid in range(len(sm['elems'])):
        for e in vsm.events_of(eid):
            if e.kind == 'assign' and e.lhs[0] == 'var' and e.lhs[1] == 'local':
                defs.setdefault(e.lhs, []).append(e.rhs)

    def res5(t):
        while t[0] in ('cast', 'conv'):
            t = t[2]
        if t[0] == 'var' and t in defs and len(defs[t]) == 1:
            return res5(defs[t][0])
        return t
    stores = {}
    for eid in range(len(sm['elems'])):
        for e in vsm.events_of(eid):
            if e.kind == 'assign' and e.eid == eid and e.lhs[0] in ('call', 'idx'):
                tab = [x[2].rsplit('::', 1)[-1] for x in ex.subterms(e.lhs) if x[0] == 'field' and x[2].endswith(('pid_to_rank_map_', 'rank_to_pid_map_'))]
                ixt = e.lhs[3][0] if e.lhs[0] == 'call' and e.lhs[3] else (e.lhs[2] if e.lhs[0] == 'idx' else None)
                if tab and ixt is not None:
                    stores[tab[0]] = (res5(ixt), res5(e.rhs))
    ok_inv = stores.get('pid_to_rank_map_') == (ppid, prank) and stores.get('rank_to_pid_map_') == (prank, ppid)
    ctx.check(ok_inv, 'R5', 'set_mapping keeps the two tables inverse of each other: rank_to_pid_map_[rank] = pid, pid_to_rank_map_[pid] = rank', where(sm),
              'stores: %s' % {k: (ex.pretty(v_[0]), ex.pretty(v_[1])) for k, v_ in sorted(stores.items())}, key='R5|set_mapping|inverse tables')
    rk = P.fn(GQ + '::rank')
    vr = A.view(rk)
    conds = [e for eid in range(len(rk['elems'])) for e in vr.events_of(eid) if e.kind == 'assign' and e.rhs[0] == 'cond' and TAB in repr(e.rhs)]
    okr = bool(conds)
    for e in conds:
        c, a_, b_ = e.rhs[1], e.rhs[2], e.rhs[3]
        at, pol = ex.atom(c)
        inrange = at[0] == 'bin' and at[1] in ('<', '>=') and 'size' in repr(at)
        # in range -> table element, else MPI_UNDEFINED
        elem, other = (a_, b_) if (at[1] == '<') == pol else (b_, a_)
        okr = okr and inrange and TAB in repr(elem) and lit(other) == UNDEF5
    ctx.check(okr, 'R5', 'Group::rank: a pid beyond the table reads MPI_UNDEFINED, otherwise the table element', where(rk), '%d lookup(s)' % len(conds), key='R5|rank|out of range')
    ctx.assume('MPI_UNDEFINED is the literal -333 of smpi.h; message isolation between communicators is the communicator atom of C28-R1')
    return EXPLANATION
