"""C11 — Actor lifecycle semantics (DESIGN.md 3, C11)."""
from .. import cg, ex, ir, lib
from ..cfg import abstract_run
from ..core import where
from ..ir import AnalysisBroken, REPO

K = 'simgrid::kernel::'
AC = K + 'actor::ActorImpl'
EI = K + 'EngineImpl'
AI = K + 'activity::ActivityImpl'
EXPLANATION = ('R1: on_exit callbacks are only appended at the back, iterated only by cleanup_from_self with reverse iterators, and the vector is reset '
               'on the same path under the guard that protects the loop (exactly once).  R2: ActorImpl::join finishes the sleep created with the '
               'caller\'s timeout on both branches (at once when the target is dying, otherwise from a callback appended to the target\'s on_exit); '
               's4u::Actor::join answers at once for a dead target and otherwise blocks on that sleep.  R3: the kill timer callback calls exit() and '
               'reschedules the victim.  R4: daemons are killed exactly under actor_list_.size() == daemons_.size(); the daemon set is written only '
               'through daemonize/undaemonize, which keep the daemon_ flag in step.  R5: a suspended actor re-yields before reaching user code, '
               'SleepImpl::finish does not answer a suspended issuer, ActorImpl::suspend/resume traverse all activities, and every '
               'suspend()/resume() pair of the activity classes agrees on the null test of the model action.')


def run(ctx):
    units = ['src/kernel/actor/ActorImpl.cpp', 'src/kernel/EngineImpl.cpp', 'src/s4u/s4u_Actor.cpp', 'src/kernel/activity/SleepImpl.cpp',
             'src/kernel/activity/ActivityImpl.cpp', 'src/kernel/activity/CommImpl.cpp', 'src/kernel/activity/ExecImpl.cpp', 'src/kernel/activity/IoImpl.cpp',
             'src/kernel/activity/MessImpl.cpp']
    more = [u[len(REPO) + 1:] for u in ir.units_mentioning(('on_exit', 'add_daemon', 'remove_daemon'), under=('src/kernel/', 'src/s4u/', 'src/plugins/', 'src/smpi/', 'src/bindings/'))]
    P = ctx.load(sorted(set(units + more)))
    A = ctx.analyzer

    # ---- R1 on_exit -------------------------------------------------------------------------------------------------------------------------
    ctx.rule('R1', 'on_exit: appended at the back only, iterated only in cleanup_from_self in reverse, reset on the same path (run exactly once)', 4)
    ONEXIT = AC + '::on_exit'
    cfs = P.fn(AC + '::cleanup_from_self')
    nuse = 0
    for u in lib.field_uses(P, ONEXIT):
        # on_exit is a shared_ptr<vector<function>>: uses are reads of the pointer; classify by the member called on the pointee
        par = u.parent or {}
        m = None
        if u.kind == 'read' and u.method in ('operator->', 'get', 'operator*'):
            m = 'deref'
        if u.kind == 'write':
            m = 'write:' + str(u.method or u.op)
        fnq = u.fn['q'].split('::<lambda')[0]
        nuse += 1
        if u.kind == 'write' and u.op == 'init':
            continue
        if m and m.startswith('write'):
            ok = u.fn['key'] == cfs['key'] or fnq.endswith('ActorImpl::ActorImpl')
            ctx.check(ok, 'R1', 'on_exit reset/assigned in %s' % fnq.replace(K, ''), where(u.fn, u.line), m, key='R1|%s|on_exit write' % fnq)
    # the operations performed on the vector: every call whose receiver is *on_exit / on_exit->
    ops = []
    for fn in P.fns.values():
        for eid, el in enumerate(fn.get('elems') or ()):
            for n in ex.walk(el['x']):
                if n.get('k') == 'Call' and n.get('obj') is not None and n.get('c'):
                    o = ex.expand(fn, n['obj'])
                    hit = False
                    for m_ in ex.walk(o):
                        if m_.get('k') == 'Mem' and m_['d'].get('n') == ONEXIT:
                            hit = True
                    q = n['c']['q']
                    if hit and (q.startswith('std::vector<std::function<void (bool)>') or 'std::function<void (bool)>' in q and q.startswith('std::vector')):
                        ops.append((fn, n, q.rsplit('::', 1)[-1]))
    for fn, n, m in ops:
        cls = lib.CONTAINER_OPS.get(m, m)
        fnq = fn['q'].split('::<lambda')[0]
        if cls == 'query':
            continue
        if cls == 'insert_back':
            ctx.holds('R1', 'on_exit->%s in %s' % (m, fnq.replace(K, '')), where(fn, n.get('l')), 'append')
        elif m == 'operator=' and fnq == AC + '::create':
            ctx.holds('R1', 'on_exit copied from the creation arguments in %s' % fnq.replace(K, ''), where(fn, n.get('l')), 'a restarted actor inherits the callbacks recorded for it')
        elif m in ('crbegin', 'crend', 'rbegin', 'rend'):
            ctx.check(fn['key'] == cfs['key'], 'R1', 'on_exit->%s in %s' % (m, fnq.replace(K, '')), where(fn, n.get('l')), 'reverse traversal', key='R1|%s|on_exit traversal' % fnq)
        else:
            ctx.violation('R1', 'on_exit->%s in %s' % (m, fnq.replace(K, '')), where(fn, n.get('l')), 'operation class %s: only back insertion and the reverse traversal of cleanup_from_self are allowed' % cls,
                          key='R1|%s|on_exit %s' % (fnq, cls))
    v = A.view(cfs)
    ok_once = None
    for p in v.paths(max_visits=2):
        if p.exit in ('noreturn', 'cut'):
            continue
        evs = v.path_events(p)
        guard = None
        called = 0
        reset = 0
        for e in evs:
            if e.kind == 'branch' and e.atom == lib.truthy(lib.this_field(ONEXIT)) and guard is None:
                guard = e.pol
            if e.kind == 'call' and e.q.endswith('::operator()') and 'exit_fun' in repr(e.obj):
                called += 1
            if e.kind == 'assign' and e.lhs == lib.this_field(ONEXIT) and e.rhs == ('null',):
                reset += 1
            if e.kind == 'call' and e.q.endswith('::reset') and e.obj == lib.this_field(ONEXIT):
                reset += 1
        good = (guard is True and reset == 1) or (guard is False and reset == 0 and called == 0)
        ok_once = good if ok_once is None else (ok_once and good)
    ctx.check(bool(ok_once), 'R1', 'cleanup_from_self: callbacks run under `if (on_exit)` and on_exit is reset on that path', where(cfs), '', key='R1|cleanup_from_self|run once')
    ctx.require(len(ops) >= 3, 'R1', 'operations on the on_exit vector not found (%d)' % len(ops))

    # ---- R2 join -----------------------------------------------------------------------------------------------------------------------------
    # the boot record (ProcessArg) shares its on_exit list with the actors created from it: restart() and every reboot of the host read it again
    PAEXIT = K + 'actor::ProcessArg::on_exit'
    stolen = []
    nread = 0
    def walk_r(fn, node, depth=0):
        # the sub-expressions of an element are hoisted into earlier elements and referenced by {'k': 'R', 'r': index}
        for x in ex.walk(node):
            yield x
            if x.get('k') == 'R' and depth < 4 and isinstance(x.get('r'), int) and x['r'] < len(fn['elems']):
                for y in walk_r(fn, fn['elems'][x['r']]['x'], depth + 1):
                    yield y
    for fn in P.fns.values():
        for el in fn.get('elems') or ():
            for n in ex.walk(el['x']):
                if n.get('k') != 'Call':
                    continue
                q = (n.get('c') or {}).get('q', '')
                base = q.split('<')[0]
                mentions = any(x.get('k') == 'Mem' and (x.get('d') or {}).get('n') == PAEXIT for a in (n.get('a') or ()) for x in walk_r(fn, a)) or \
                    (n.get('obj') is not None and any(x.get('k') == 'Mem' and (x.get('d') or {}).get('n') == PAEXIT for x in walk_r(fn, n['obj'])))
                if not mentions:
                    continue
                nread += 1
                if base in ('std::move', 'std::swap', 'std::exchange') or q.rsplit('::', 1)[-1] in ('clear', 'swap', 'pop_back', 'erase', 'resize'):
                    stolen.append((fn, n.get('l') or el.get('l'), base or q))
    ctx.check(not stolen, 'R1', 'the on_exit list of a boot record (ProcessArg) is only copied from, never moved from or emptied', where(stolen[0][0], stolen[0][1]) if stolen else 'src/kernel/actor',
              ('%s on ProcessArg::on_exit in %s: the list is shared with the actor being restarted and with the boot record used at every reboot; emptying it loses their callbacks '
               '(no on_exit run, joiners not woken)' % (stolen[0][2], stolen[0][0]['q'].replace(K, ''))) if stolen else '%d use(s), all reads' % nread, key='R1|ProcessArg::on_exit|read-only')
    ctx.rule('R2', 'join: the sleep of `timeout` seconds is finished FINISHED at once when the target is dying, otherwise by a callback appended to the target\'s on_exit', 3)
    jf = P.fn(AC + '::join')
    v = A.view(jf)
    tpar = lib.parm(jf, 'timeout')
    rows = {}
    for p in v.paths():
        if p.exit in ('noreturn', 'cut'):
            continue
        evs = v.path_events(p)
        sl = [e for e in evs if e.kind == 'call' and e.q == AC + '::sleep']
        dying = None
        for e in evs:
            if e.kind == 'branch' and e.atom[0] == 'truthy' and e.atom[1][0] == 'call' and e.atom[1][1].endswith(('::wannadie', '::to_be_freed')):
                if e.pol:
                    dying = True
                elif dying is None:
                    dying = False
        fin = [e for e in evs if e.kind == 'call' and e.q.endswith('Action::finish') and e.args and 'FINISHED' in repr(e.args[0])]
        cb = [e for e in evs if e.kind == 'call' and e.q.rsplit('::', 1)[-1] in ('emplace_back', 'push_back') and any(m[0] == 'field' and m[2] == ONEXIT for m in ex.subterms(e.obj or ('none',)))]
        lam_fin = False
        for e in cb:
            for a in e.args:
                if a[0] == 'lambda' and a[1] in P.fns:
                    lv = A.view(P.fns[a[1]])
                    lam_fin = any(x.kind == 'call' and x.q.endswith('Action::finish') and 'FINISHED' in repr(x.args[0]) for lp in lv.paths() for x in lv.path_events(lp))
        rows[(dying, bool(fin), bool(cb) and lam_fin)] = (len(sl) == 1 and sl[0].args == (tpar,))
    ok = bool(rows) and all(v_ for v_ in rows.values())
    for (dying, fin, cb), _ in rows.items():
        if dying is True:
            ok = ok and (fin or not cb)      # model_action_ may be null: then nothing to finish
        if dying is False:
            ok = ok and cb
    has_both = any(d is True and f for (d, f, c) in rows) and any(d is False and c for (d, f, c) in rows)
    ctx.check(ok and has_both, 'R2', 'ActorImpl::join', where(jf), 'path shapes (dying, finishes now, on_exit callback finishing later): %s' % sorted(rows, key=repr), key='R2|ActorImpl::join|both branches')
    sj = [f for f in P.fns.values() if f['q'].startswith('simgrid::s4u::Actor::join::<lambda') and f.get('blocks')]
    okj = False
    for f in sj:
        lv = A.view(f)
        shapes = set()
        for p in lv.paths():
            evs = lv.path_events(p)
            dead = [e.pol for e in evs if e.kind == 'branch' and 'wannadie' in repr(e.atom)]
            ans = any(e.kind == 'call' and e.q.endswith('::simcall_answer') for e in evs)
            jn = [e for e in evs if e.kind == 'call' and e.q == AC + '::join']
            reg = any(e.kind == 'call' and e.q.endswith('::register_simcall') for e in evs)
            shapes.add((tuple(dead), ans, bool(jn), reg))
        okj = shapes == {((True,), True, False, False), ((False,), False, True, True)}
    ctx.check(okj, 'R2', 's4u::Actor::join: dead target -> immediate answer; otherwise block on the activity returned by ActorImpl::join', where(sj[0]) if sj else '', '', key='R2|s4u::Actor::join|simcall')
    sjo = P.fn('simgrid::s4u::Actor::join', 1)
    v = A.view(sjo)
    okt = any(e.kind == 'lambda' or (e.kind == 'call' and e.q.endswith('ActorJoinSimcall::ActorJoinSimcall') and lib.parm(sjo, 'timeout') in e.args) for p in v.paths() for e in v.path_events(p))
    ctx.check(okt, 'R2', 's4u::Actor::join(timeout) hands its timeout to the kernel', where(sjo), '', key='R2|s4u::Actor::join|timeout')

    # ---- R3 kill timer ------------------------------------------------------------------------------------------------------------------------
    ctx.rule('R3', 'the kill-time timer callback calls exit() on the actor and puts it back in the run list; the timer is armed only for a future date; kill() schedules its victim', 3)
    sk = P.fn(AC + '::set_kill_time')
    v = A.view(sk)
    ok3 = False
    for p in v.paths():
        for e in v.path_events(p):
            if e.kind == 'call' and e.q.endswith('Timer::set'):
                for a in e.args:
                    if a[0] == 'lambda' and a[1] in P.fns:
                        lv = A.view(P.fns[a[1]])
                        for lp in lv.paths():
                            qs = [x.q for x in lv.path_events(lp) if x.kind == 'call']
                            ok3 = AC + '::exit' in qs and any(q.endswith('add_actor_to_run_list') for q in qs) and qs.index(AC + '::exit') < [i for i, q in enumerate(qs) if q.endswith('add_actor_to_run_list')][0]
    ctx.check(ok3, 'R3', 'set_kill_time callback', where(sk), '', key='R3|set_kill_time|callback')
    # the timer is armed exactly for a date in the future; a victim killed by another actor is put in the run list (it must run to execute its on_exit callbacks)
    armed = None
    for p in v.paths():
        if p.exit in ('noreturn', 'cut', 'throw'):
            continue
        evs = v.path_events(p)
        ts = [e for e in evs if e.kind == 'call' and e.q.endswith('Timer::set')]
        past = [e.pol for e in evs if e.kind == 'branch' and e.atom[0] == 'bin' and e.atom[1] in ('<=', '>') and e.atom[2] == lib.parm_i(sk, 0) and e.atom[3][0] == 'call' and e.atom[3][1].endswith('get_clock')]
        past = [(pl if e_[1] == '<=' else not pl) for pl, e_ in zip(past, [e.atom for e in evs if e.kind == 'branch' and e.atom[0] == 'bin' and e.atom[1] in ('<=', '>') and e.atom[2] == lib.parm_i(sk, 0) and e.atom[3][0] == 'call' and e.atom[3][1].endswith('get_clock')])]
        good = len(past) == 1 and (len(ts) == 1) == (not past[0]) and (not ts or ts[0].args[0] == lib.parm_i(sk, 0))
        armed = good if armed is None else (armed and good)
    ctx.check(bool(armed), 'R3', 'set_kill_time arms a timer at kill_time exactly when kill_time > now', where(sk), '', key='R3|set_kill_time|armed for the future only')
    kf = P.fn(AC + '::kill')
    kv = A.view(kf)
    okk = None
    victim = lib.parm_i(kf, 0)
    for p in kv.paths():
        if p.exit in ('noreturn', 'cut', 'throw'):
            continue
        evs = kv.path_events(p)
        exits = [i for i, e in enumerate(evs) if e.kind == 'call' and e.q == AC + '::exit' and e.obj == victim]
        if not exits:
            continue
        me = [e.pol for e in evs[exits[0]:] if e.kind == 'branch' and e.atom[0] == 'bin' and e.atom[1] == '==' and victim in (e.atom[2], e.atom[3]) and ('this',) in (e.atom[2], e.atom[3])]
        rl = [e for e in evs[exits[0]:] if e.kind == 'call' and e.q.endswith(('add_actor_to_run_list', 'add_actor_to_run_list_no_check')) and e.args and e.args[0] == victim]
        good = len(me) == 1 and (len(rl) == 1) == (not me[0])
        okk = good if okk is None else (okk and good)
    ctx.check(bool(okk), 'R3', 'kill(): after exit(), a victim other than the caller is put in the run list', where(kf), 'the victim runs once more, to stop in yield() and execute its on_exit callbacks (joiners wait for them)',
              key='R3|kill|victim scheduled')

    # ---- R4 daemons ------------------------------------------------------------------------------------------------------------------------------
    ctx.rule('R4', 'daemons are killed iff actor_list_.size() == daemons_.size(); only daemonize/undaemonize change the daemon set, together with the daemon_ flag', 5)
    runf = P.fn(EI + '::run')
    v = A.view(runf)
    okd = False
    for h in v.loop_heads():
        if h['t'].get('k') != 'CXXForRangeStmt':
            continue
        rng = [d for el in runf['elems'] if el['x'].get('k') == 'Decl' and el.get('l') == h['t'].get('l') for d in el['x'].get('decls', ())
               if d.get('d', {}).get('n', '').startswith('__range') and d.get('init') is not None]
        if not rng or not ex.mentions(v.norm(rng[0]['init']), lib.this_field(EI + '::daemons_')):
            continue
        body = cg.natural_loop(v, h['id'])
        kills = [n for b in body for eid in v.blocks[b].get('e', []) for n in ex.walk(runf['elems'][eid]['x']) if n.get('k') == 'Call' and (n.get('c') or {}).get('q') == AC + '::kill']
        # dominating condition of the loop: the block branching into the loop init compares the two sizes
        dom = cg.dominators(v)[h['id']]
        guard = False
        for b in dom:
            a = v.cond_atom(b)
            if a and a[0][0] == 'bin' and a[0][1] == '==' and 'actor_list_' in repr(a[0]) and 'daemons_' in repr(a[0]) and repr(a[0]).count('::size') == 2:
                # the true edge must lead to the loop
                ss = v.blocks[b]['s']
                tsucc = ss[0] if a[1] else ss[1]
                reach = set()
                work = [tsucc]
                while work:
                    x = work.pop()
                    if x in reach or x is None or x == b:
                        continue
                    reach.add(x)
                    work.extend(v.succs(x))
                fs = ss[1] if a[1] else ss[0]
                guard = h['id'] in reach and fs not in cg.dominators(v)[h['id']]
        okd = bool(kills) and guard
    ctx.check(okd, 'R4', 'EngineImpl::run: the daemon-killing loop runs exactly under actor_list_.size() == daemons_.size()', where(runf), '', key='R4|run|daemon kill guard')
    callers = {}
    for fn in P.fns.values():
        for el in fn.get('elems') or ():
            for n in ex.walk(el['x']):
                if n.get('k') == 'Call' and (n.get('c') or {}).get('q') in (EI + '::add_daemon', EI + '::remove_daemon'):
                    callers.setdefault(n['c']['q'].rsplit('::', 1)[-1], []).append((fn, n))
    want = {'add_daemon': AC + '::daemonize', 'remove_daemon': AC + '::undaemonize'}
    for nm, lst in sorted(callers.items()):
        for fn, n in lst:
            ctx.check(fn['q'] == want[nm], 'R4', '%s called from %s' % (nm, fn['q'].replace(K, '')), where(fn, n.get('l')), '', key='R4|%s|%s caller' % (fn['q'], nm))
    ctx.require(set(callers) == {'add_daemon', 'remove_daemon'}, 'R4', 'callers of add_daemon/remove_daemon not found')
    for nm, flagval, call in (('daemonize', True, 'add_daemon'), ('undaemonize', False, 'remove_daemon')):
        f = P.fn(AC + '::' + nm)
        v = A.view(f)
        good = True
        n = 0
        for p in v.paths():
            if p.exit in ('noreturn', 'cut'):
                continue
            evs = v.path_events(p)
            w = [e for e in evs if e.kind == 'assign' and e.lhs == lib.this_field(AC + '::daemon_')]
            c = [e for e in evs if e.kind == 'call' and e.q == EI + '::' + call]
            n += 1
            good = good and (len(w) == len(c)) and all(e.rhs == ('bool', flagval) for e in w)
        ctx.check(good and n >= 2, 'R4', '%s: daemon_ flag and daemon set change together' % nm, where(f), '', key='R4|%s|flag in step' % nm)

    # ---- R5 suspension ------------------------------------------------------------------------------------------------------------------------------
    ctx.rule('R5', 'a suspended actor makes no progress: yield() re-yields while suspended_, SleepImpl::finish re-suspends instead of answering, suspend/resume traverse all activities and agree', 6)
    yf = P.fn(AC + '::yield')

    def try5(st, e):
        resumed, checked, bad = st
        if e.kind == 'call' and e.q.endswith('Context::suspend'):
            return (True, False, bad)
        if not resumed:
            return None
        if e.kind == 'branch' and e.atom == lib.truthy(lib.this_field(AC + '::suspended_')):
            return (resumed, 'yes' if e.pol else 'no', bad)
        if e.kind == 'call' and e.q == AC + '::yield' and checked == 'yes':
            return (resumed, 'reyielded', bad)
        if e.kind == 'return' and checked == 'yes':
            return (resumed, checked, 'returns to user code while suspended_')
        return None
    ex5 = abstract_run(A, yf, (False, False, None), try5)
    sts = ex5['normal']
    bad = [s for s in sts if s[2] or s[1] in ('yes', False)]
    ctx.check(bool(sts) and not bad, 'R5', 'ActorImpl::yield: after the context switch, suspended_ is tested and a suspended actor yields again', where(yf), 'exit states %s' % sorted(sts, key=repr), key='R5|yield|re-yield')
    # a dying actor never goes back to its code: after every return of the context switch, the first thing tested is wannadie(), and its true
    # edge ends in Context::stop (the recursive yield() of a suspended actor carries the same obligation on its own paths)
    def try5b(st, e):
        if e.kind == 'call' and e.q.endswith('Context::suspend'):
            return 'need'
        if st == 'need' and e.kind == 'branch' and e.atom[0] == 'truthy' and e.atom[1][0] == 'call' and e.atom[1][1].endswith('::wannadie') and e.atom[1][2] == ('this',):
            return 'must_stop' if e.pol else 'ok'
        if st == 'must_stop' and e.kind == 'call' and e.q.endswith('Context::stop'):
            return 'stopped'
        if st == 'need' and e.kind == 'call' and e.q == AC + '::yield':
            return 'ok'
        return None
    ex5b = abstract_run(A, yf, 'start', try5b)
    leak = sorted(set(s for s in (ex5b['normal'] | ex5b['throw']) if s in ('need', 'must_stop')))
    ctx.check(bool(ex5b['normal']) and not leak, 'R5', 'ActorImpl::yield: after every return of context_->suspend(), wannadie() is tested first and a dying actor is stopped (runs its cleanup) instead of returning', where(yf),
              'yield() can return to the actor\'s code (or throw into it) %s' % ('without testing wannadie() after the last context switch' if 'need' in leak else 'although wannadie() held after the last context switch') if leak else
              'exit states %s' % sorted(ex5b['normal'] | ex5b['throw']), key='R5|yield|dying actor stopped')
    sf = P.fn(K + 'activity::SleepImpl::finish')
    v = A.view(sf)
    ok = None
    for p in v.paths(max_visits=1):
        evs = v.path_events(p)
        susp = None
        for e in evs:
            if e.kind == 'branch' and e.atom[0] == 'truthy' and e.atom[1][0] == 'call' and e.atom[1][1].endswith('::is_suspended'):
                susp = e.pol
                after = evs[evs.index(e):]
                ans = any(x.kind == 'call' and x.q.endswith('::simcall_answer') for x in after[:8])
                resus = any(x.kind == 'call' and x.q == AC + '::suspend' for x in after[:8])
                good = (susp and resus and not ans) or (not susp and ans and not resus)
                ok = good if ok is None else (ok and good)
                break
    ctx.check(bool(ok), 'R5', 'SleepImpl::finish: a suspended issuer is re-suspended, not answered', where(sf), '', key='R5|SleepImpl::finish|suspended issuer')
    for nm in ('suspend', 'resume'):
        f = P.fn(AC + '::' + nm)
        v = A.view(f)
        okl = False
        for h in v.loop_heads():
            if h['t'].get('k') != 'CXXForRangeStmt':
                continue
            body = cg.natural_loop(v, h['id'])
            calls = [n for b in body for eid in v.blocks[b].get('e', []) for n in ex.walk(f['elems'][eid]['x']) if n.get('k') == 'Call' and (n.get('c') or {}).get('q') == AI + '::' + nm]
            conds = [b for b in body if len(v.succs(b)) > 1 and not v.is_log_branch(b)]
            rng = [d for el in f['elems'] if el['x'].get('k') == 'Decl' for d in el['x'].get('decls', ()) if d.get('d', {}).get('n', '').startswith('__range') and d.get('init') is not None]
            okl = bool(calls) and not conds and bool(rng) and ex.mentions(v.norm(rng[0]['init']), lib.this_field(AC + '::activities_'))
        flag = [e.rhs for p in v.paths(max_visits=1) for e in v.path_events(p) if e.kind == 'assign' and e.lhs == lib.this_field(AC + '::suspended_')]
        ctx.check(okl and flag and all(x == ('bool', nm == 'suspend') for x in flag), 'R5', 'ActorImpl::%s: sets suspended_ and calls %s() on every activity of activities_' % (nm, nm), where(f), '',
                  key='R5|ActorImpl::%s|all activities' % nm)
    # resume() puts the actor back in the run list only when it waits for nothing (it was unscheduled by yield()); an actor blocked on an activity is
    # answered by that activity, not by its resumption
    rf = P.fn(AC + '::resume')
    rv = A.view(rf)
    okr = None
    WS = lib.this_field(AC + '::waiting_synchros_')
    for p in rv.paths(max_visits=1):
        if p.exit in ('noreturn', 'cut', 'throw'):
            continue
        evs = rv.path_events(p)
        rl = [e for e in evs if e.kind == 'call' and e.q.endswith(('add_actor_to_run_list', 'add_actor_to_run_list_no_check'))]
        emp = [e.pol for e in evs if e.kind == 'branch' and e.atom[0] == 'truthy' and e.atom[1][0] == 'call' and e.atom[1][1].endswith('::empty') and e.atom[1][2] == WS]
        flag = [e for e in evs if e.kind == 'assign' and e.lhs == lib.this_field(AC + '::suspended_')]
        if not flag:
            good = not rl          # nothing resumed: nothing rescheduled
        else:
            good = len(emp) == 1 and (len(rl) == 1) == emp[0]
        okr = good if okr is None else (okr and good)
    ctx.check(bool(okr), 'R5', 'ActorImpl::resume: the actor is rescheduled iff it waits on no activity', where(rf), 'a resumed actor that is blocked on an activity stays blocked until that activity answers it',
              key='R5|ActorImpl::resume|reschedule only when not waiting')
    # sibling agreement on the null test of model_action_
    MA = lib.this_field(AI + '::model_action_')
    for cls in sorted(P.subclasses(AI)):
        fs = {nm: [f for f in P.fns_named(cls + '::' + nm) if f.get('blocks')] for nm in ('suspend', 'resume')}
        if not fs['suspend'] or not fs['resume']:
            continue
        tests = {}
        for nm in ('suspend', 'resume'):
            f = fs[nm][0]
            v = A.view(f)
            unguarded = False
            uses = 0
            for p in v.paths():
                evs = v.path_events(p)
                known = False
                for e in evs:
                    if e.kind == 'branch' and (e.atom == lib.truthy(MA) or (e.atom[0] == 'bin' and e.atom[1] == '==' and e.atom[2] == MA)):
                        known = True
                    if e.kind == 'call' and e.obj == MA:
                        uses += 1
                        if not known:
                            unguarded = True
            tests[nm] = (uses, unguarded)
        if tests['suspend'][0] == 0 and tests['resume'][0] == 0:
            continue
        agree = tests['suspend'][1] == tests['resume'][1]
        ctx.check(agree, 'R5', '%s: suspend() and resume() agree on testing model_action_ for null' % cls.replace(K, ''), where(fs['suspend'][0]),
                  'suspend dereferences it %s, resume %s: an activity that is not started yet (no model action) can be in an actor\'s activities_' %
                  ('unchecked' if tests['suspend'][1] else 'after a null test', 'unchecked' if tests['resume'][1] else 'after a null test'),
                  key='R5|%s|null model action' % cls.replace(K, ''))
    ctx.assume('the dates (kill time fires at its date, join timeout) are the subject of C03/C12; whether a sleep keeps elapsing while its actor is suspended is a modelling choice not decided here')
    return EXPLANATION
